"""Reading a written metafile with the strict reference decoder."""
from vf.ref import bencode


class MetaError(Exception):
    """The file is not a structurally usable metafile."""


class Meta:
    def __init__(self, data):
        self.data = bytes(data)
        try:
            self.node, self.problems = bencode.decode(self.data)
        except bencode.BencodeError as e:
            raise MetaError("not bencoding: %s" % e)
        if self.node.kind != "dict":
            raise MetaError("top level is not a dictionary")
        self.top = self.node.plain()
        self.info_node = self.node.get("info")
        if self.info_node is None or self.info_node.kind != "dict":
            raise MetaError("no info dictionary")
        self.info = self.info_node.plain()
        self.info_span = self.data[self.info_node.start:self.info_node.end]

    @classmethod
    def from_file(cls, path):
        with open(path, "rb") as fd:
            return cls(fd.read())

    # -- helpers -----------------------------------------------------------
    def piece_length(self):
        return self.info.get(b"piece length")

    def name(self):
        n = self.info.get(b"name")
        return n.decode("utf-8", "surrogateescape") if isinstance(n, bytes) else n

    def is_v2(self):
        return b"meta version" in self.info

    def has_v1(self):
        return b"pieces" in self.info

    def v1_entries(self):
        """[(path components [str], length, is_pad)] or None when single-file / absent."""
        files = self.info.get(b"files")
        if files is None:
            return None
        out = []
        if not isinstance(files, list):
            raise MetaError("info.files is not a list")
        for e in files:
            if not isinstance(e, dict) or not isinstance(e.get(b"length"), int) or not isinstance(e.get(b"path"), list):
                raise MetaError("malformed files entry %r" % (e,))
            attr = e.get(b"attr", b"")
            comps = [c.decode("utf-8", "surrogateescape") if isinstance(c, bytes) else c for c in e[b"path"]]
            out.append((comps, e[b"length"], isinstance(attr, bytes) and b"p" in attr))
        return out

    def tree_leaves(self):
        """Ordered [(path components [str], length, pieces_root|None)] of info['file tree']."""
        tree = self.info.get(b"file tree")
        if not isinstance(tree, dict):
            raise MetaError("no file tree")
        out = []

        def walk(d, prefix):
            for k, v in d.items():
                ks = k.decode("utf-8", "surrogateescape")
                if not isinstance(v, dict):
                    raise MetaError("file tree node %r is not a dict" % (prefix + [ks],))
                if b"" in v and isinstance(v[b""], dict) and len(v) == 1:
                    leaf = v[b""]
                    if not isinstance(leaf.get(b"length"), int):
                        raise MetaError("leaf without length at %r" % (prefix + [ks],))
                    out.append((prefix + [ks], leaf[b"length"], leaf.get(b"pieces root"), set(leaf.keys())))
                else:
                    walk(v, prefix + [ks])
        walk(tree, [])
        return out

    def without(self, *keys):
        """Canonical re-encoding of the top dict with some top-level keys removed."""
        d = dict(self.top)
        for k in keys:
            d.pop(k.encode() if isinstance(k, str) else k, None)
        return bencode.encode(d)
