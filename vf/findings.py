"""KNOWN_FINDINGS.txt parser (read-only; checks never write this file).

Lines:
  open: property=<id> sig=<bucket> replay=<relative path> <what fails>
  fixed: property=<id> <commit> <what failed>
'#' starts a comment.  A fixed entry suppresses nothing.
"""
import os
import re

HERE = os.path.dirname(os.path.dirname(os.path.abspath(__file__)))
PATH = os.path.join(HERE, "KNOWN_FINDINGS.txt")


def load(prop_id):
    """Return list of dicts for open findings of prop_id."""
    out = []
    if not os.path.exists(PATH):
        return out
    with open(PATH) as fd:
        for line in fd:
            line = line.strip()
            if not line or line.startswith("#"):
                continue
            m = re.match(r"open:\s+property=(\S+)\s+sig=(\S+)\s+(?:replay=(\S+)\s+)?(.*)$", line)
            if m and m.group(1) == prop_id:
                out.append({"sig": m.group(2), "replay": m.group(3), "what": m.group(4)})
    return out
