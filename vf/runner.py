"""Entry point behind /verif/check: tiers, workers, replays, evidence, exit protocol."""
import argparse
import glob
import importlib
import json
import os
import subprocess
import sys
import time
import traceback

HERE = os.path.dirname(os.path.dirname(os.path.abspath(__file__)))
PYTHON = sys.executable


def load_prop(pid):
    return importlib.import_module("vf.props.%s" % pid.lower())


def selfchecks():
    from vf.ref import bencode, hashing
    bencode.selfcheck()
    hashing.selfcheck()
    from vf.gen import trees
    trees.selfcheck()


def budget(prop, tier):
    b = prop.BUDGET[tier]
    scale = float(os.environ.get("VERIF_SCALE", "1"))
    return max(1, int(b["examples"] * scale)), b["workers"], b["time_cap"]


# --------------------------------------------------------------------------- worker
def worker_main(spec):
    from vf import engine, findings, sandbox
    prop = load_prop(spec["prop"])
    tier = spec["tier"]
    try:
        # an endless allocation loop in the code under test becomes a MemoryError there, not an OOM-killed worker
        import resource
        lim = int(os.environ.get("VERIF_WORKER_MEM", str(8 * 2 ** 30)))
        resource.setrlimit(resource.RLIMIT_AS, (lim, lim))
    except (ImportError, ValueError, OSError):
        pass
    stats = engine.Stats()
    known = set(spec["known_sigs"])
    result = {"violations": [], "error": None}
    try:
        if hasattr(prop, "setup_worker"):
            prop.setup_worker()
        examples, _, time_cap = budget(prop, tier)
        found = {}
        # exhaustive grid share
        if hasattr(prop, "grid"):
            cases = prop.grid(tier)
            mine = cases[spec["idx"]::spec["n"]]
            for case in mine:
                out = engine.run_one(prop, case, stats)
                stats.grid += 1
                v = out.violation
                if v is not None:
                    if v.sig in known:
                        stats.excluded_known += 1
                    elif v.sig not in found:
                        found[v.sig] = (case, v)
        if examples > 0:
            more = engine.hypothesis_search(
                prop, tier, spec["seed"] * 64 + spec["idx"], examples, time_cap, stats,
                known | set(found), shrink_cap=45.0 if tier == "quick" else 240.0)
            found.update(more)
        seen = set()
        for sig, (case, v) in found.items():
            if v.sig in seen:
                continue
            seen.add(v.sig)
            result["violations"].append({"case": case, "violation": v.to_json()})
    except Exception:
        result["error"] = traceback.format_exc()
    finally:
        try:
            if hasattr(prop, "teardown_worker"):
                prop.teardown_worker()
        except Exception:
            pass
        sandbox.cleanup_base()
    result["stats"] = stats.to_json()
    with open(spec["out"], "w") as fd:
        json.dump(result, fd, default=repr)


# --------------------------------------------------------------------------- parent
def main(argv=None):
    ap = argparse.ArgumentParser(prog="check")
    ap.add_argument("prop")
    ap.add_argument("--tier", default=os.environ.get("VERIF_TIER", "quick"), choices=["quick", "thorough"])
    ap.add_argument("--replay")
    ap.add_argument("--worker")
    ap.add_argument("--workers", type=int)
    ap.add_argument("--no-evidence", action="store_true")
    args = ap.parse_args(argv)

    if args.worker:
        with open(args.worker) as fd:
            spec = json.load(fd)
        worker_main(spec)
        return 0

    pid = args.prop.upper()
    try:
        seed_val = int(os.environ.get("VERIF_SEED", "1"))
    except ValueError:
        seed_val = 1
    t0 = time.time()
    try:
        selfchecks()
        prop = load_prop(pid)
    except Exception:
        traceback.print_exc()
        print("HARNESS-ERROR property=%s (self-check or import failed)" % pid)
        return 2

    from vf import engine, findings, sandbox

    if args.replay:
        return replay_one(prop, pid, args.replay)

    open_findings = findings.load(pid)
    known_sigs = {f["sig"] for f in open_findings}
    lines = []
    violations = []  # (sig, replay path, msg)
    stats = engine.Stats()

    try:
        if hasattr(prop, "setup_worker"):
            prop.setup_worker()
        # 1. committed regression corpus
        still_failing = set()
        for path in sorted(glob.glob(os.path.join(HERE, "replays", pid, "*.json"))):
            with open(path) as fd:
                doc = json.load(fd)
            out = engine.run_one(prop, doc["case"], stats)
            stats.replayed += 1
            if out.violation is not None:
                if out.violation.sig in known_sigs:
                    still_failing.add(out.violation.sig)
                else:
                    violations.append((out.violation.sig, os.path.relpath(path, HERE), out.violation.msg))
        for f in open_findings:
            if f["sig"] in still_failing:
                lines.append("KNOWN-FINDING: property=%s %s [sig=%s]" % (pid, f["what"], f["sig"]))
        if hasattr(prop, "teardown_worker"):
            prop.teardown_worker()
    except Exception:
        traceback.print_exc()
        print("HARNESS-ERROR property=%s (replay stage)" % pid)
        sandbox.cleanup_base()
        return 2
    sandbox.cleanup_base()

    # 2. workers
    examples, nworkers, time_cap = budget(prop, args.tier)
    if args.workers:
        nworkers = args.workers
    outdir = os.path.join(HERE, "out", "work", "%s-%d" % (pid, os.getpid()))
    os.makedirs(outdir, exist_ok=True)
    procs = []
    harness_error = None
    env = dict(os.environ)
    env.setdefault("PYTHONHASHSEED", "0")
    env["PYTHONPATH"] = HERE + os.pathsep + env.get("PYTHONPATH", "")
    for i in range(nworkers):
        spec = {"prop": pid, "tier": args.tier, "seed": seed_val, "idx": i, "n": nworkers,
                "known_sigs": sorted(known_sigs), "out": os.path.join(outdir, "res%d.json" % i)}
        sp = os.path.join(outdir, "spec%d.json" % i)
        with open(sp, "w") as fd:
            json.dump(spec, fd)
        log = open(os.path.join(outdir, "log%d.txt" % i), "w")
        procs.append((subprocess.Popen([PYTHON, os.path.join(HERE, "check"), pid, "--worker", sp],
                                       stdout=log, stderr=subprocess.STDOUT, env=env, cwd=HERE), spec, log))
    merged = stats.to_json()
    merged_nt = set(merged["nontrivial"])
    found = {}
    hard = time_cap * 4 + 300
    for p, spec, log in procs:
        try:
            p.wait(timeout=max(1, hard - (time.time() - t0)))
        except subprocess.TimeoutExpired:
            p.kill()
            p.wait()
            _rm_scratch_of(p.pid)
            harness_error = "worker %d exceeded the hard wall-clock limit (%ds): inconclusive, not a violation" % (spec["idx"], hard)
        log.close()
        if not os.path.exists(spec["out"]):
            harness_error = "worker %d died (rc=%s): %s" % (
                spec["idx"], p.returncode, open(log.name).read()[-2000:])
            continue
        with open(spec["out"]) as fd:
            res = json.load(fd)
        if res.get("error"):
            harness_error = res["error"]
        s = res["stats"]
        for k in ("evaluations", "subcases", "excluded_known", "replayed", "grid"):
            merged[k] += s[k]
        merged_nt.update(s["nontrivial"])
        for c, n in s["classes"].items():
            merged["classes"][c] = merged["classes"].get(c, 0) + n
        merged["samples"] = (merged["samples"] + s["samples"])[:2]
        merged["nt_samples"] = (merged["nt_samples"] + s["nt_samples"][:2])[:6]
        merged["budget_exhausted"] = merged["budget_exhausted"] or s["budget_exhausted"]
        for v in res["violations"]:
            sig = v["violation"]["sig"]
            if sig not in found:
                found[sig] = v
    if harness_error:
        print(harness_error)
        print("HARNESS-ERROR property=%s" % pid)
        return 2
    # 3. coverage-guided stage (thorough tier, properties that opt in, atheris present)
    fuzz_info = None
    fuzz_runs = getattr(prop, "FUZZ_RUNS", 0) if args.tier == "thorough" else int(os.environ.get("VERIF_FUZZ_RUNS", "0") or 0)
    if fuzz_runs and not harness_error:
        fuzz_info = run_fuzz_stage(pid, fuzz_runs, seed_val, sorted(known_sigs | set(found)), outdir, env)
        if fuzz_info.get("available"):
            for k in ("evaluations", "subcases", "excluded_known"):
                merged[k] += fuzz_info["stats"][k]
            merged_nt.update(fuzz_info["stats"]["nontrivial"])
            for c, n in fuzz_info["stats"]["classes"].items():
                merged["classes"][c] = merged["classes"].get(c, 0) + n
            for v in fuzz_info["violations"]:
                sig = v["violation"]["sig"]
                if sig not in found:
                    v["violation"]["msg"] += " [found by the coverage-guided stage; not shrunk]"
                    found[sig] = v
    merged["fuzz"] = {k: v for k, v in (fuzz_info or {}).items() if k not in ("stats", "violations")}
    for sig, v in sorted(found.items()):
        viol = engine.Violation(**v["violation"])
        path = engine.write_replay(os.path.join(HERE, "out", "replays", pid), pid, v["case"], viol)
        violations.append((sig, os.path.relpath(path, HERE), viol.msg))

    wall = time.time() - t0
    if not args.no_evidence:
        write_evidence(prop, pid, args.tier, seed_val, merged, merged_nt, wall, len(violations), nworkers)
    import shutil
    shutil.rmtree(outdir, ignore_errors=True)

    for ln in lines:
        print(ln)
    print("checked property=%s tier=%s seed=%d evaluations=%d distinct_nontrivial=%d excluded_known=%d wall=%.1fs%s" % (
        pid, args.tier, seed_val, merged["evaluations"], len(merged_nt), merged["excluded_known"], wall,
        " (budget exhausted: inconclusive beyond what was explored)" if merged["budget_exhausted"] else ""))
    if violations:
        for sig, path, msg in violations:
            print("  bucket %s: %s" % (sig, msg))
            print("VIOLATION property=%s replay=%s" % (pid, path))
        return 1
    return 0


def _rm_scratch_of(pid):
    import glob as _glob
    import shutil as _shutil
    import tempfile as _tempfile
    for root in {os.environ.get("VERIF_SCRATCH") or "/dev/shm", _tempfile.gettempdir()}:
        for d in _glob.glob(os.path.join(root, "vf-%d-*" % pid)):
            _shutil.rmtree(d, ignore_errors=True)


def run_fuzz_stage(pid, runs, seed_val, known, outdir, env, procs=6):
    """Run `procs` independent libFuzzer campaigns (python -m vf.fuzz) and merge what they report."""
    deps = os.path.join(HERE, ".deps")
    probe = subprocess.run([PYTHON, "-c", "import sys; sys.path.insert(0, %r); import atheris" % deps], capture_output=True)
    if probe.returncode != 0:
        return {"available": False, "note": "atheris not importable (setup.sh installs it into .deps from the offline wheelhouse); stage skipped"}
    jobs = []
    for i in range(procs):
        out = os.path.join(outdir, "fuzz%d.json" % i)
        log = open(os.path.join(outdir, "fuzz%d.log" % i), "w")
        jobs.append((subprocess.Popen([PYTHON, "-m", "vf.fuzz", pid, "--runs", str(runs), "--seed", str(seed_val * 100 + i + 1),
                                       "--out", out, "--known", ",".join(known)], stdout=log, stderr=subprocess.STDOUT, env=env, cwd=HERE), out, log))
    from vf import engine
    total = engine.Stats().to_json()
    nt = set()
    viols = []
    runs_done = 0
    errors = 0
    for p, out, log in jobs:
        try:
            p.wait(timeout=3600)
        except subprocess.TimeoutExpired:
            p.kill()
        log.close()
        _rm_scratch_of(p.pid)       # libFuzzer leaves through _exit: the campaign cannot clean up after itself
        if not os.path.exists(out):
            continue
        doc = json.load(open(out))
        runs_done += doc["runs"]
        errors += doc.get("harness_errors", 0)
        for k in ("evaluations", "subcases", "excluded_known"):
            total[k] += doc["stats"][k]
        nt.update(doc["stats"]["nontrivial"])
        for c, n in doc["stats"]["classes"].items():
            total["classes"][c] = total["classes"].get(c, 0) + n
        viols += doc["violations"]
    total["nontrivial"] = sorted(nt)
    return {"available": True, "engine": "atheris/libFuzzer over hypothesis.fuzz_one_input, torrentfile instrumented for coverage",
            "campaigns": procs, "libfuzzer_runs_requested_each": runs, "cases_executed": runs_done, "harness_errors": errors,
            "stats": total, "violations": viols}


def write_evidence(prop, pid, tier, seed_val, merged, merged_nt, wall, nviol, nworkers):
    samples = merged["nt_samples"] + merged["samples"]
    cov = {
        "evaluations": merged["evaluations"],
        "distinct_nontrivial": len(merged_nt),
        "rule": prop.RULE,
        "samples": samples[:6] if samples else [],
        "classes": dict(sorted(merged["classes"].items())),
        "subcases": merged["subcases"],
        "excluded_known": merged["excluded_known"],
        "replayed_corpus": merged["replayed"],
        "grid_cases": merged["grid"],
        "budget_exhausted": merged["budget_exhausted"],
        "workers": nworkers,
    }
    if merged.get("fuzz"):
        cov["coverage_guided_stage"] = merged["fuzz"]
    if hasattr(prop, "GRID_DESC") and merged["grid"]:
        cov["grid"] = prop.GRID_DESC.get(tier, "") if isinstance(prop.GRID_DESC, dict) else prop.GRID_DESC
    doc = {
        "property_id": pid, "tier": tier, "seed": seed_val, "level": prop.LEVEL,
        "coverage": cov, "assumptions": list(prop.ASSUMPTIONS), "wall_s": round(wall, 2),
        "violations": nviol,
    }
    os.makedirs(os.path.join(HERE, "evidence"), exist_ok=True)
    with open(os.path.join(HERE, "evidence", "%s.json" % pid), "w") as fd:
        json.dump(doc, fd, indent=1, sort_keys=True, ensure_ascii=True, default=repr)


def replay_one(prop, pid, path):
    from vf import engine, sandbox
    with open(path) as fd:
        doc = json.load(fd)
    case = doc["case"] if "case" in doc else doc
    try:
        if hasattr(prop, "setup_worker"):
            prop.setup_worker()
        out = prop.run_case(case)
        if hasattr(prop, "teardown_worker"):
            prop.teardown_worker()
    except Exception:
        traceback.print_exc()
        print("HARNESS-ERROR property=%s (replay)" % pid)
        return 2
    finally:
        sandbox.cleanup_base()
    if out.violation is not None:
        print("  bucket %s: %s" % (out.violation.sig, out.violation.msg))
        if out.violation.detail:
            print("  detail: %s" % json.dumps(out.violation.detail, default=repr)[:3000])
        print("VIOLATION property=%s replay=%s" % (pid, path))
        return 1
    print("replay holds: property=%s %s" % (pid, path))
    return 0
