"""Access to the code under test (torrentfile from $VERIF_REPO, default /repo).

Everything here runs torrentfile in-process, silenced, and resets the known
process-lifetime state of the package at the top of each case (C09 is the one
property that deliberately does not call reset()).
"""
import contextlib
import logging
import os
import sys

REPO = os.environ.get("VERIF_REPO", "/repo")
if sys.path[0] != REPO:
    sys.path.insert(0, REPO)

import torrentfile  # noqa: E402
import importlib  # noqa: E402

# torrentfile/__init__ rebinds the names `edit`, `recheck`, ... to functions: go through importlib
cli = importlib.import_module("torrentfile.cli")
commands = importlib.import_module("torrentfile.commands")
edit_mod = importlib.import_module("torrentfile.edit")
hasher = importlib.import_module("torrentfile.hasher")
rebuild = importlib.import_module("torrentfile.rebuild")
recheck = importlib.import_module("torrentfile.recheck")
torrent = importlib.import_module("torrentfile.torrent")
utils = importlib.import_module("torrentfile.utils")

assert os.path.realpath(torrentfile.__file__).startswith(os.path.realpath(REPO) + os.sep), (
    "torrentfile imported from %s, not from %s" % (torrentfile.__file__, REPO))


class _Null:
    def write(self, s):
        return len(s)

    def flush(self):
        pass

    def isatty(self):
        return False


@contextlib.contextmanager
def quiet():
    """Silence stdout/stderr and undo `-q`'s process-wide replacement afterwards."""
    so, se = sys.stdout, sys.stderr
    sys.stdout, sys.stderr = _Null(), _Null()
    try:
        yield
    finally:
        sys.stdout, sys.stderr = so, se


_root_handlers = None


def reset():
    """Clear process-lifetime state of torrentfile (see DESIGN §2 Isolation)."""
    global _root_handlers
    ft = getattr(utils, "filelist_total", None)
    cache = getattr(ft, "cache", None)
    if isinstance(cache, dict):
        cache.clear()
    for cls in (rebuild.Metadata, hasher.Hasher, hasher.HasherV2, hasher.HasherHybrid,
                hasher.FileHasher, rebuild.Assembler):
        if "cb" in vars(cls):
            try:
                delattr(cls, "cb")
            except AttributeError:
                pass
    if "_hook" in vars(recheck.Checker):
        recheck.Checker._hook = None
    root = logging.getLogger()
    if _root_handlers is None:
        _root_handlers = list(root.handlers)
    for h in list(root.handlers):
        if h not in _root_handlers:
            root.removeHandler(h)
    root.setLevel(logging.WARNING)
    os.environ["TORRENTFILE_DEBUG"] = "OFF"


def execute(argv):
    """Run the CLI entry point in-process, silenced."""
    with quiet():
        return cli.execute(list(argv))


CREATORS = {
    "TorrentFile": (torrent.TorrentFile, "1"),
    "TorrentFileV2": (torrent.TorrentFileV2, "2"),
    "TorrentFileHybrid": (torrent.TorrentFileHybrid, "3"),
    "Assembler2": (torrent.TorrentAssembler, "2"),
    "Assembler3": (torrent.TorrentAssembler, "3"),
}


def create_lib(creator, path, outfile, **kw):
    """Library-route create; returns outfile path written."""
    cls, ver = CREATORS[creator]
    if kw.pop("_int_version", False):
        ver = int(ver)          # the documented type of the keyword (docstring: `meta_version : int`)
    kw.setdefault("progress", 0)
    with quiet():
        t = cls(path=path, outfile=outfile, meta_version=ver, **kw)
        out, _ = t.write()
    return out


def create_cli(version, path, outfile, extra=(), flags=()):
    argv = list(flags) + ["create", "--meta-version", str(version), "-o", outfile, "--prog", "0"]
    argv += list(extra)
    argv.append(path)
    execute(argv)
    return outfile


def recheck_pct(metafile, content):
    with quiet():
        return recheck.Checker(metafile, content).results()
