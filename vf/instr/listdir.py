"""Harness-owned directory enumeration order (os.listdir / os.scandir, hence Path.iterdir and os.walk).

The order is a pure function of a drawn integer: 0 = sorted, 1 = reverse
sorted, n >= 2 = sorted by SHA-256(n || name).
"""
import hashlib
import os


def order_key(mode):
    if mode == 0:
        return lambda name: (0, name)
    if mode == 1:
        return None  # handled as reverse
    salt = b"%d|" % mode
    return lambda name: hashlib.sha256(salt + os.fsencode(name)).digest()


def arrange(names, mode):
    names = list(names)
    if mode == 1:
        return sorted(names, reverse=True)
    return sorted(names, key=order_key(mode))


class _ScandirList:
    def __init__(self, entries):
        self._it = iter(entries)

    def __iter__(self):
        return self

    def __next__(self):
        return next(self._it)

    def close(self):
        pass

    def __enter__(self):
        return self

    def __exit__(self, *exc):
        return False


class ListdirOrder:
    """with ListdirOrder(mode): directory listings come back in the order chosen by `mode`."""

    def __init__(self, mode):
        self.mode = mode

    def __enter__(self):
        self._listdir = os.listdir
        self._scandir = os.scandir
        real_listdir, real_scandir, mode = os.listdir, os.scandir, self.mode

        def listdir(path="."):
            return arrange(real_listdir(path), mode)

        def scandir(path="."):
            with real_scandir(path) as it:
                entries = list(it)
            by = {e.name: e for e in entries}
            return _ScandirList([by[n] for n in arrange(by, mode)])

        os.listdir = listdir
        os.scandir = scandir
        return self

    def __exit__(self, *exc):
        os.listdir = self._listdir
        os.scandir = self._scandir
        return False
