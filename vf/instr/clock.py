"""Harness-owned clock: replaces the datetime/time names *inside torrentfile modules* (and time.time) with a drawn instant."""
import datetime as _dt
import time as _time


class FrozenClock:
    def __init__(self, modules, instant):
        self.modules = modules
        self.instant = int(instant)
        self._saved = []

    def __enter__(self):
        instant = self.instant

        class FakeDateTime(_dt.datetime):
            @classmethod
            def now(cls, tz=None):
                return cls.fromtimestamp(instant, tz)

            @classmethod
            def utcnow(cls):
                return cls.utcfromtimestamp(instant)

            @classmethod
            def today(cls):
                return cls.fromtimestamp(instant)

        for m in self.modules:
            if hasattr(m, "datetime") and isinstance(getattr(m, "datetime"), type):
                self._saved.append((m, "datetime", m.datetime))
                m.datetime = FakeDateTime
        self._time = _time.time
        _time.time = lambda: float(instant)
        return self

    def __exit__(self, *exc):
        for m, name, val in self._saved:
            setattr(m, name, val)
        _time.time = self._time
        return False
