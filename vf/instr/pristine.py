"""'Fresh interpreter' oracle for C09.

start() forks a server child from the current process *before it has executed any
torrentfile operation*.  The server never runs torrentfile code itself: for every
query it forks a grandchild that performs the operation and reports the observable,
so each query sees the state of an interpreter that has only imported the package.
A real subprocess (fresh `python`) is available for cross-validation.
"""
import json
import os
import pickle
import signal
import struct
import subprocess
import sys


def _send(fd, obj):
    data = pickle.dumps(obj)
    os.write(fd, struct.pack("<I", len(data)))
    view = memoryview(data)
    while view:
        n = os.write(fd, view)
        view = view[n:]


def _recv(fd):
    head = b""
    while len(head) < 4:
        chunk = os.read(fd, 4 - len(head))
        if not chunk:
            raise EOFError("pristine server closed the pipe")
        head += chunk
    (n,) = struct.unpack("<I", head)
    buf = bytearray()
    while len(buf) < n:
        chunk = os.read(fd, min(1 << 20, n - len(buf)))
        if not chunk:
            raise EOFError("pristine server closed the pipe")
        buf += chunk
    return pickle.loads(bytes(buf))


class Pristine:
    def __init__(self, perform):
        """perform(request) -> observable; must be importable state-free code."""
        self.perform = perform
        self.pid = None

    def start(self):
        req_r, req_w = os.pipe()
        res_r, res_w = os.pipe()
        pid = os.fork()
        if pid == 0:
            # server child: never executes torrentfile operations itself
            os.close(req_w)
            os.close(res_r)
            try:
                while True:
                    try:
                        req = _recv(req_r)
                    except EOFError:
                        break
                    if req is None:
                        break
                    r, w = os.pipe()
                    gpid = os.fork()
                    if gpid == 0:
                        os.close(r)
                        try:
                            try:
                                obs = self.perform(req)
                            except BaseException as e:  # noqa: BLE001
                                obs = {"harness-error": "%s: %s" % (type(e).__name__, e)}
                            _send(w, obs)
                        finally:
                            os._exit(0)
                    os.close(w)
                    try:
                        obs = _recv(r)
                    except EOFError:
                        obs = {"harness-error": "grandchild died"}
                    os.close(r)
                    os.waitpid(gpid, 0)
                    _send(res_w, obs)
            finally:
                os._exit(0)
        os.close(req_r)
        os.close(res_w)
        self.pid, self.req_w, self.res_r = pid, req_w, res_r

    def query(self, req):
        _send(self.req_w, req)
        return _recv(self.res_r)

    def stop(self):
        if self.pid is None:
            return
        try:
            _send(self.req_w, None)
        except OSError:
            pass
        try:
            os.close(self.req_w)
            os.close(self.res_r)
        except OSError:
            pass
        try:
            os.kill(self.pid, signal.SIGTERM)
        except OSError:
            pass
        try:
            os.waitpid(self.pid, 0)
        except OSError:
            pass
        self.pid = None


def subprocess_query(module, req, verif_root):
    """Run `module.perform(req)` in a brand-new interpreter; returns the observable."""
    env = dict(os.environ)
    env["PYTHONPATH"] = verif_root + os.pathsep + env.get("PYTHONPATH", "")
    code = ("import sys, json; sys.dont_write_bytecode = True\n"
            "import importlib; m = importlib.import_module(%r)\n"
            "req = json.loads(sys.stdin.read())\n"
            "sys.stdout.write('\\n@@OBS@@' + json.dumps(m.perform(req)))\n" % module)
    p = subprocess.run([sys.executable, "-c", code], input=json.dumps(req).encode(), stdout=subprocess.PIPE,
                       stderr=subprocess.PIPE, env=env, timeout=120)
    out = p.stdout.decode("utf-8", "replace")
    if "@@OBS@@" not in out:
        raise RuntimeError("fresh subprocess failed: rc=%s stderr=%s" % (p.returncode, p.stderr.decode("utf-8", "replace")[-800:]))
    return json.loads(out.rsplit("@@OBS@@", 1)[1])
