"""Harness-owned filesystem mutation layer for fault enumeration (C17).

Inside `with FaultFS(root, plan):` every Python-level filesystem mutation on a
path under `root` is an *operation*: it is appended to `trace` and, when its
index equals the planned one, a fault is injected instead of / around it:

  crash-before        process dies before the operation            (BaseException Crash)
  crash-after         operation completes, then the process dies
  crash-prefix:n      write ops: first n units reach the file, then the process dies
  err:<ERRNO>         operation fails with OSError(errno), nothing done
  err-prefix:<ERRNO>:n  write ops: n units written, then OSError
  short:n             os.write only: n bytes written and n returned (a short write, no error)

After a crash the filesystem is frozen: later intercepted mutations are dropped,
because a dead process runs no cleanup handlers.  Files opened for writing are
unbuffered, so each write() is one operation that reaches the file at once
(worst case for a torn update).
"""
import builtins
import errno
import io
import os
import shutil

ERRNOS = {"EACCES": errno.EACCES, "EIO": errno.EIO, "ENOSPC": errno.ENOSPC}


class Crash(BaseException):
    """The simulated death of the process."""


class _Sink:
    """Stand-in for a file opened after the crash: swallows everything."""

    def __init__(self, text):
        self.closed = False

    def write(self, data):
        return len(data)

    def writelines(self, lines):
        pass

    def read(self, *a):
        return b""

    def flush(self):
        pass

    def truncate(self, *a):
        return 0

    def seek(self, *a):
        return 0

    def tell(self):
        return 0

    def fileno(self):
        raise io.UnsupportedOperation("fileno")

    def close(self):
        self.closed = True

    def __enter__(self):
        return self

    def __exit__(self, *exc):
        self.close()
        return False


class _WProxy:
    """A file opened for writing: write/truncate are operations."""

    def __init__(self, fs, real, rel):
        self._fs = fs
        self._real = real
        self._rel = rel

    def write(self, data):
        act = self._fs._op("write", self._rel, n=len(data))
        if act == "drop":
            return len(data)
        if isinstance(act, tuple):
            tag, n, after = act
            n = min(n, len(data))
            if n:
                self._real.write(data[:n])
                self._real.flush()
            self._fs._finish(after)
        r = self._real.write(data)
        self._real.flush()
        self._fs._post()
        return r

    def writelines(self, lines):
        for ln in lines:
            self.write(ln)

    def truncate(self, *a):
        act = self._fs._op("truncate", self._rel)
        if act == "drop":
            return 0
        r = self._real.truncate(*a)
        self._fs._post()
        return r

    def close(self):
        try:
            self._real.close()
        except Exception:
            if not self._fs.frozen:
                raise

    def __enter__(self):
        return self

    def __exit__(self, *exc):
        self.close()
        return False

    def __iter__(self):
        return iter(self._real)

    def __getattr__(self, name):
        return getattr(self._real, name)


class FaultFS:
    def __init__(self, root, plan=None, refuse_new=False):
        self.root = os.path.realpath(root)
        self.plan = plan          # None or (index, kind)
        # environment, not a fault: the directory does not let this user create, remove or rename entries (a drop folder,
        # a root-owned download directory); existing files stay writable
        self.refuse_new = refuse_new
        self.trace = []
        self.frozen = False
        self.fired = False
        self._fds = {}
        self._pending_after = False
        self._saved = {}

    # ------------------------------------------------------------------ core
    def _rel(self, path):
        if isinstance(path, int):
            return self._fds.get(path)
        try:
            p = os.fspath(path)
        except TypeError:
            return None
        if isinstance(p, bytes):
            p = os.fsdecode(p)
        ap = os.path.abspath(p)
        d = os.path.realpath(os.path.dirname(ap))
        ap = os.path.join(d, os.path.basename(ap))
        if ap == self.root or ap.startswith(self.root + os.sep):
            return os.path.relpath(ap, self.root)
        return None

    def _op(self, name, rel, **info):
        """Register an operation; returns 'do', 'drop' or ('prefix', n, after)."""
        idx = len(self.trace)
        self.trace.append((name, rel, info))
        if self.frozen:
            return "drop"
        if self.plan is not None and self.plan[0] == idx and not self.fired:
            self.fired = True
            kind = self.plan[1]
            if kind == "crash-before":
                self.frozen = True
                raise Crash()
            if kind == "crash-after":
                self._pending_after = True
                return "do"
            parts = kind.split(":")
            if parts[0] == "err":
                raise OSError(ERRNOS[parts[1]], os.strerror(ERRNOS[parts[1]]), rel)
            if parts[0] == "crash-prefix":
                return ("prefix", int(parts[1]), "crash")
            if parts[0] == "err-prefix":
                return ("prefix", int(parts[2]), "err:" + parts[1])
            if parts[0] == "short":
                return ("prefix", int(parts[1]), "short")
            raise ValueError(kind)
        return "do"

    def _finish(self, after):
        if after == "crash":
            self.frozen = True
            raise Crash()
        code = ERRNOS[after.split(":")[1]]
        raise OSError(code, os.strerror(code))

    def _post(self):
        if self._pending_after:
            self._pending_after = False
            self.frozen = True
            raise Crash()

    # ------------------------------------------------------------------ wrappers
    def _wrap_simple(self, name, real, npaths=1):
        def wrapper(*args, **kw):
            rels = [self._rel(a) for a in args[:npaths]]
            if not any(r is not None for r in rels):
                return real(*args, **kw)
            if self.refuse_new and not self.frozen and name not in ("truncate", "chmod"):
                raise PermissionError(errno.EACCES, os.strerror(errno.EACCES), os.fspath(args[0]))
            act = self._op(name, "->".join(str(r) for r in rels))
            if act == "drop":
                return None
            r = real(*args, **kw)
            self._post()
            return r
        return wrapper

    def _open(self, file, mode="r", buffering=-1, encoding=None, errors=None, newline=None, closefd=True, opener=None):
        real_open = self._saved["open"]
        rel = self._rel(file)
        if rel is None:
            return real_open(file, mode, buffering, encoding, errors, newline, closefd, opener)
        writing = any(ch in mode for ch in "wax+")
        if writing and self.refuse_new and not self.frozen and not os.path.lexists(file):
            raise PermissionError(errno.EACCES, os.strerror(errno.EACCES), os.fspath(file))
        if not writing:
            act = self._op("open-read", rel)
            if act == "drop":
                return real_open(file, mode, buffering, encoding, errors, newline, closefd, opener)
            return real_open(file, mode, buffering, encoding, errors, newline, closefd, opener)
        act = self._op("open-write", rel, mode=mode)
        if act == "drop":
            return _Sink("b" not in mode)
        if "b" in mode:
            real = real_open(file, mode, 0, None, None, None, closefd, opener)
        else:
            raw = real_open(file, mode.replace("t", "") + "b", 0, None, None, None, closefd, opener)
            real = io.TextIOWrapper(raw, encoding=encoding, errors=errors, newline=newline, write_through=True)
        try:
            self._post()
        except Crash:
            real.close()
            raise
        return _WProxy(self, real, rel)

    def _os_open(self, path, flags, mode=0o777, *, dir_fd=None):
        real = self._saved["os.open"]
        rel = self._rel(path) if dir_fd is None else None
        if rel is None:
            return real(path, flags, mode, dir_fd=dir_fd)
        mutating = flags & (os.O_WRONLY | os.O_RDWR | os.O_CREAT | os.O_TRUNC | os.O_APPEND)
        if mutating and self.refuse_new and not self.frozen and (flags & os.O_CREAT) and not os.path.lexists(path):
            raise PermissionError(errno.EACCES, os.strerror(errno.EACCES), os.fspath(path))
        if mutating:
            act = self._op("os.open-write", rel)
            if act == "drop":
                return real(os.devnull, os.O_WRONLY)
        fd = real(path, flags, mode)
        if mutating:
            self._fds[fd] = rel
            try:
                self._post()
            except Crash:
                self._saved["os.close"](fd)
                raise
        return fd

    def _os_write(self, fd, data):
        real = self._saved["os.write"]
        rel = self._fds.get(fd)
        if rel is None:
            return real(fd, data)
        act = self._op("os.write", rel, n=len(data))
        if act == "drop":
            return len(data)
        if isinstance(act, tuple):
            n = min(act[1], len(data))
            if n:
                real(fd, bytes(data)[:n])
            if act[2] == "short":
                return n        # a short write: the kernel took only n bytes and reported so (disk filling up)
            self._finish(act[2])
        r = real(fd, data)
        self._post()
        return r

    def _os_close(self, fd):
        self._fds.pop(fd, None)
        return self._saved["os.close"](fd)

    def _os_fsync(self, fd):
        rel = self._fds.get(fd) if isinstance(fd, int) else None
        if rel is None:
            try:
                return self._saved["os.fsync"](fd)
            except OSError:
                if self.frozen:
                    return None
                raise
        act = self._op("fsync", rel)
        if act == "drop":
            return None
        r = self._saved["os.fsync"](fd)
        self._post()
        return r

    # ------------------------------------------------------------------ patching
    def __enter__(self):
        s = self._saved
        s["open"] = builtins.open
        s["io.open"] = io.open
        s["os.open"] = os.open
        s["os.write"] = os.write
        s["os.close"] = os.close
        s["os.fsync"] = os.fsync
        s["sendfile"] = shutil._USE_CP_SENDFILE
        builtins.open = self._open
        io.open = self._open
        os.open = self._os_open
        os.write = self._os_write
        os.close = self._os_close
        os.fsync = self._os_fsync
        shutil._USE_CP_SENDFILE = False
        for name, npaths in (("remove", 1), ("unlink", 1), ("rename", 2), ("replace", 2), ("truncate", 1),
                             ("mkdir", 1), ("rmdir", 1), ("link", 2), ("symlink", 2), ("chmod", 1)):
            s["os." + name] = getattr(os, name)
            setattr(os, name, self._wrap_simple(name, s["os." + name], npaths))
        return self

    def __exit__(self, *exc):
        s = self._saved
        builtins.open = s["open"]
        io.open = s["io.open"]
        os.open = s["os.open"]
        os.write = s["os.write"]
        os.close = s["os.close"]
        os.fsync = s["os.fsync"]
        shutil._USE_CP_SENDFILE = s["sendfile"]
        for name in ("remove", "unlink", "rename", "replace", "truncate", "mkdir", "rmdir", "link", "symlink", "chmod"):
            setattr(os, name, s["os." + name])
        return False


def fault_kinds(op):
    """Fault kinds to enumerate for a recorded operation (name, rel, info)."""
    name, _, info = op
    if name == "open-read":
        return ["err:EACCES", "err:EIO"]
    if name in ("write", "os.write"):
        n = info.get("n", 0)
        kinds = ["crash-before", "err:EIO", "err:ENOSPC"]
        for k in sorted({1, n // 2, n - 1}):
            if 0 < k < n:
                kinds.append("crash-prefix:%d" % k)
        if n > 1:
            kinds.append("err-prefix:ENOSPC:%d" % (n // 2))
            if name == "os.write":
                kinds.append("short:%d" % (n // 2))     # os.write may legitimately return a short count
        kinds.append("crash-after")
        return kinds
    if name in ("chmod",):
        return ["crash-before", "err:EACCES"]
    return ["crash-before", "crash-after", "err:EACCES", "err:EIO"]
