"""Hypothesis driver: seeded, collect-bucket-shrink search; stats; worker protocol."""
import hashlib
import json
import os
import time
import traceback

import hypothesis
from hypothesis import HealthCheck, Phase, Verbosity, given, seed, settings


class Violation:
    def __init__(self, sig, msg, detail=None):
        self.sig = sig
        self.msg = msg
        self.detail = detail

    def to_json(self):
        return {"sig": self.sig, "msg": self.msg, "detail": self.detail}


class Outcome:
    """Result of one executed case."""

    def __init__(self, violation=None, nontrivial=False, classes=(), note=None, subcases=1):
        self.violation = violation
        self.nontrivial = nontrivial
        self.classes = tuple(classes)
        self.note = note
        self.subcases = subcases


class HarnessError(Exception):
    """The machinery (not the code under test) is broken: exit 2."""


class _Found(Exception):
    pass


def _raise_found():
    raise _Found()  # single raise site: Hypothesis keys failures by location


def case_digest(case):
    return hashlib.sha256(json.dumps(case, sort_keys=True, ensure_ascii=True).encode()).hexdigest()[:16]


class Stats:
    def __init__(self):
        self.evaluations = 0
        self.subcases = 0
        self.nontrivial = set()
        self.classes = {}
        self.samples = []
        self.nt_samples = []
        self.excluded_known = 0
        self.budget_exhausted = False
        self.replayed = 0
        self.grid = 0
        self.exhaustive_parts = []

    def record(self, case, out, sample_cap=4):
        self.evaluations += 1
        self.subcases += out.subcases
        for c in out.classes:
            self.classes[c] = self.classes.get(c, 0) + 1
        if out.nontrivial:
            d = case_digest(case)
            if d not in self.nontrivial:
                self.nontrivial.add(d)
                if len(self.nt_samples) < sample_cap:
                    self.nt_samples.append(_shorten(case))
        elif len(self.samples) < 1:
            self.samples.append(_shorten(case))

    def to_json(self):
        return {
            "evaluations": self.evaluations, "subcases": self.subcases,
            "nontrivial": sorted(self.nontrivial), "classes": self.classes,
            "samples": self.samples, "nt_samples": self.nt_samples,
            "excluded_known": self.excluded_known, "budget_exhausted": self.budget_exhausted,
            "replayed": self.replayed, "grid": self.grid, "exhaustive_parts": self.exhaustive_parts,
        }


def _shorten(obj, maxlen=400):
    s = json.dumps(obj, sort_keys=True, ensure_ascii=True)
    if len(s) <= 4000:
        return obj
    return {"truncated_case_json": s[:4000]}


CASE_LIMIT = float(os.environ.get("VERIF_CASE_LIMIT", "180"))   # seconds; ordinary cases take milliseconds to a few seconds


class OperationDidNotReturn(Exception):
    """The code under test did not come back within CASE_LIMIT seconds (an endless loop, not a slow machine)."""


def _on_alarm(signum, frame):
    raise OperationDidNotReturn("no result after %.0f s" % CASE_LIMIT)


def run_one(prop, case, stats, record=True):
    """Execute a case through the property module; returns Outcome.

    A watchdog (SIGALRM) turns an operation that never returns into an outcome instead of a dead worker: property
    modules map exceptions of the code under test to violations, and this one is raised inside that code."""
    import signal
    old = signal.signal(signal.SIGALRM, _on_alarm)
    signal.setitimer(signal.ITIMER_REAL, CASE_LIMIT)
    try:
        out = prop.run_case(case)
    except OperationDidNotReturn as e:
        out = Outcome(Violation("%s:did-not-return" % prop.ID, "the operation did not return: %s" % e), True, ["did-not-return"])
    finally:
        signal.setitimer(signal.ITIMER_REAL, 0)
        signal.signal(signal.SIGALRM, old)
    if record:
        stats.record(case, out)
    return out


def hypothesis_search(prop, tier, seed_val, max_examples, time_cap, stats, known_sigs,
                      shrink_cap=60.0, max_rounds=8):
    """Generate cases; returns {sig: (case, Violation)} for unlisted buckets."""
    found = {}
    t_end = time.time() + time_cap
    strategy = prop.strategy(tier)
    remaining = max_examples
    for rnd in range(max_rounds):
        if remaining <= 0 or time.time() > t_end:
            break
        state = {"target": None, "last": None, "t_fail": None, "cache": {}, "gen": 0}

        def body(case):
            if state["target"] is None:
                if time.time() > t_end:
                    stats.budget_exhausted = True
                    return
                state["gen"] += 1
            else:
                d = case_digest(case)
                if d in state["cache"]:
                    state["last"] = (case, state["cache"][d])
                    _raise_found()
                if time.time() - state["t_fail"] > shrink_cap:
                    return
            out = run_one(prop, case, stats)
            v = out.violation
            if v is None:
                return
            if v.sig in known_sigs or v.sig in found:
                stats.excluded_known += 1
                return
            if state["target"] is None:
                state["target"] = v.sig
                state["t_fail"] = time.time()
                state["first"] = (case, v)
            if v.sig == state["target"]:
                state["cache"][case_digest(case)] = v
                state["last"] = (case, v)
                _raise_found()

        test = given(strategy)(body)
        test = settings(
            max_examples=remaining, database=None, deadline=None, report_multiple_bugs=False,
            derandomize=False, verbosity=Verbosity.quiet, print_blob=False,
            phases=[Phase.generate, Phase.shrink],
            suppress_health_check=[HealthCheck.too_slow, HealthCheck.data_too_large,
                                   HealthCheck.large_base_example],
        )(test)
        test = seed(seed_val * 1000003 + rnd * 7919)(test)
        try:
            test()
        except _Found:
            case, v = state["last"]
            found[v.sig] = (case, v)
            remaining -= state["gen"]
            continue
        except hypothesis.errors.HypothesisException as e:
            flaky = type(e).__name__ in ("Flaky", "FlakyFailure", "FlakyReplay", "FlakyStrategyDefinition")
            if flaky and state.get("first") is not None and type(e).__name__ != "FlakyStrategyDefinition":
                # The oracle did observe a violation, but the same case did not fail again when Hypothesis replayed
                # it: the outcome depends on what the process did before (state leaking between operations).  That
                # is a property violation in its own right; it is reported unshrunk, flagged as history-dependent.
                case, v = state["first"]
                v = Violation(v.sig + ":history-dependent", v.msg + " [not reproducible in isolation: the verdict "
                              "depended on earlier operations in the same process]", v.detail)
                found[v.sig] = (case, v)
                found[state["target"]] = (case, v)
                remaining -= state["gen"]
                continue
            raise HarnessError("hypothesis: %s: %s" % (type(e).__name__, e))
        break
    return found


def write_replay(dirpath, prop_id, case, violation):
    os.makedirs(dirpath, exist_ok=True)
    safe = "".join(ch if ch.isalnum() or ch in "-_." else "_" for ch in violation.sig)[:80]
    path = os.path.join(dirpath, "%s-%s.json" % (safe, case_digest(case)))
    with open(path, "w") as fd:
        json.dump({"property": prop_id, "sig": violation.sig, "msg": violation.msg,
                   "detail": violation.detail, "case": case}, fd, indent=1, sort_keys=True,
                  ensure_ascii=True, default=repr)
    return path
