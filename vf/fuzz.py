"""Coverage-guided stage (atheris / libFuzzer) on top of a property's Hypothesis strategy.

    python -m vf.fuzz <ID> --runs N --seed S --out result.json

libFuzzer mutates the byte string that Hypothesis' `fuzz_one_input` turns into one generated case, with
coverage feedback from the instrumented torrentfile package; every case goes through the property's own
`run_case` oracle.  The target never raises: violations are recorded (bucketed by signature, first case kept)
and the campaign goes on, so one shallow defect does not end it.  Results are flushed to --out periodically,
because libFuzzer leaves through _exit when the runs are used up.
"""
import argparse
import json
import os
import sys
import time

HERE = os.path.dirname(os.path.dirname(os.path.abspath(__file__)))
sys.path.insert(0, HERE)
sys.path.insert(0, os.path.join(HERE, ".deps"))


def main():
    ap = argparse.ArgumentParser()
    ap.add_argument("prop")
    ap.add_argument("--runs", type=int, default=20000)
    ap.add_argument("--seed", type=int, default=1)
    ap.add_argument("--out", required=True)
    ap.add_argument("--known", default="")
    args = ap.parse_args()

    import atheris
    with atheris.instrument_imports(include=["torrentfile"], enable_loader_override=False):
        from vf import target  # noqa: F401  (imports torrentfile from VERIF_REPO, instrumented)
    import importlib

    from hypothesis import HealthCheck, given, settings

    from vf import engine, sandbox
    prop = importlib.import_module("vf.props.%s" % args.prop.lower())
    if hasattr(prop, "setup_worker"):
        prop.setup_worker()
    known = set(x for x in args.known.split(",") if x)
    stats = engine.Stats()
    found = {}
    state = {"n": 0, "t0": time.time(), "errors": 0, "last_error": None}

    def flush():
        doc = {"stats": stats.to_json(), "runs": state["n"], "wall": time.time() - state["t0"],
               "violations": [{"case": c, "violation": v.to_json()} for c, v in found.values()],
               "harness_errors": state["errors"], "last_error": state["last_error"]}
        tmp = args.out + ".tmp"
        with open(tmp, "w") as fd:
            json.dump(doc, fd, default=repr)
        os.replace(tmp, args.out)

    @settings(database=None, deadline=None, suppress_health_check=list(HealthCheck))
    @given(prop.strategy("thorough"))
    def one(case):
        state["n"] += 1
        try:
            out = prop.run_case(case)
        except engine.HarnessError as e:
            state["errors"] += 1
            state["last_error"] = str(e)[:500]
            return
        stats.record(case, out)
        v = out.violation
        if v is not None:
            if v.sig in known:
                stats.excluded_known += 1
            elif v.sig not in found:
                found[v.sig] = (case, v)
                flush()
        if state["n"] % 200 == 0:
            flush()

    corpus = os.path.join(sandbox.base(), "corpus")
    os.makedirs(corpus, exist_ok=True)
    argv = [sys.argv[0], "-runs=%d" % args.runs, "-seed=%d" % (args.seed or 1), "-max_len=8192", "-len_control=0", "-print_final_stats=0",
            "-verbosity=0", corpus]
    flush()
    atheris.Setup(argv, one.hypothesis.fuzz_one_input)
    try:
        atheris.Fuzz()
    finally:
        flush()


if __name__ == "__main__":
    main()
