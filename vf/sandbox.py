"""Scratch directories, deterministic file contents, tree materialiser, snapshots."""
import hashlib
import itertools
import os
import shutil
import stat
import tempfile

_counter = itertools.count()
_base = None


def base():
    """Per-process scratch root (tmpfs when available), never reused across processes."""
    global _base
    if _base is None or _base[0] != os.getpid():
        root = os.environ.get("VERIF_SCRATCH")
        if not root:
            root = "/dev/shm" if os.access("/dev/shm", os.W_OK) else tempfile.gettempdir()
        path = tempfile.mkdtemp(prefix="vf-%d-" % os.getpid(), dir=root)
        _base = (os.getpid(), path)
    return _base[1]


def cleanup_base():
    global _base
    if _base is not None and _base[0] == os.getpid():
        shutil.rmtree(_base[1], ignore_errors=True)
        _base = None


class Scratch:
    """A never-reused scratch directory; removed on exit from the with-block."""

    def __init__(self, tag="c"):
        self.path = os.path.join(base(), "%s%06d" % (tag, next(_counter)))

    def __enter__(self):
        os.makedirs(self.path)
        return self.path

    def __exit__(self, *exc):
        # restore permissions that a test may have changed, then remove
        shutil.rmtree(self.path, ignore_errors=True)
        return False


_XLATE = {}


def content(mode, seed, size):
    """File bytes as a pure function of (mode, seed, size)."""
    if mode == "lit":
        return bytes.fromhex(seed)        # literal content carried in the case itself (seed = hex string)
    if size == 0:
        return b""
    if mode == "zero":
        return bytes(size)
    if mode == "const":
        return bytes([seed % 255 + 1]) * size
    raw = hashlib.shake_256(b"vf:%d" % seed).digest(size)
    if mode == "rnd":
        return raw
    if mode == "nz":
        fill = seed % 255 + 1
        t = _XLATE.get(fill)
        if t is None:
            t = bytes([fill if i == 0 else i for i in range(256)])
            _XLATE[fill] = t
        return raw.translate(t)
    if mode == "ztail":
        keep = size // 2
        return raw[:keep] + bytes(size - keep)
    raise ValueError(mode)


def file_bytes(f):
    return content(f["mode"], f["seed"], f["size"])


def materialize(tree, parent):
    """Create tree under parent; return the content root path (file or directory)."""
    root = os.path.join(parent, tree["name"])
    if tree["single"]:
        with open(root, "wb") as fd:
            fd.write(file_bytes(tree["files"][0]))
        if tree["files"][0].get("x"):
            os.chmod(root, 0o755)
        return root
    os.mkdir(root)
    later = []
    for f in tree["files"]:
        if f.get("via") is not None:
            continue                      # provided by a symbolic link (tree["links"])
        p = os.path.join(root, *f["path"])
        os.makedirs(os.path.dirname(p), exist_ok=True)
        if f.get("hardlink") is not None:
            later.append((f, p))
            continue
        with open(p, "wb") as fd:
            fd.write(file_bytes(f))
        if f.get("x"):
            os.chmod(p, 0o755)
    for f, p in later:
        os.link(os.path.join(root, *tree["files"][f["hardlink"]]["path"]), p)
    for link in tree.get("links", []):
        p = os.path.join(root, *link["path"])
        if not os.path.lexists(p):
            os.symlink(link["target"], p)
    for link in tree.get("dirlinks", []):
        # a symbolic link to a sibling directory (only generated where a property's domain admits it)
        p = os.path.join(root, *link["path"])
        if not os.path.lexists(p) and os.path.isdir(os.path.join(os.path.dirname(p), link["target"])):
            os.symlink(link["target"], p)
    return root


def snapshot(root, digest=True):
    """relpath -> (kind, size, sha256|None, mode) for everything under root (root itself as '.')."""
    out = {}
    if not os.path.lexists(root):
        return out

    def add(path, rel):
        st = os.lstat(path)
        if stat.S_ISDIR(st.st_mode):
            out[rel] = ("dir", 0, None, stat.S_IMODE(st.st_mode))
            for name in sorted(os.listdir(path)):
                add(os.path.join(path, name), name if rel == "." else rel + "/" + name)
        elif stat.S_ISREG(st.st_mode):
            h = None
            if digest:
                with open(path, "rb") as fd:
                    h = hashlib.sha256(fd.read()).hexdigest()
            out[rel] = ("file", st.st_size, h, stat.S_IMODE(st.st_mode))
        elif stat.S_ISLNK(st.st_mode):
            out[rel] = ("link", 0, os.readlink(path), stat.S_IMODE(st.st_mode))
        else:
            out[rel] = ("other", 0, None, stat.S_IMODE(st.st_mode))

    add(root, ".")
    return out


def snapdiff(a, b):
    """Sorted list of (relpath, change) between two snapshots."""
    out = []
    for k in sorted(set(a) | set(b)):
        if k not in a:
            out.append((k, "created"))
        elif k not in b:
            out.append((k, "deleted"))
        elif a[k] != b[k]:
            out.append((k, "changed"))
    return out
