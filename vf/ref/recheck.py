"""Reference piece-by-piece verifier.  Independent of torrentfile and pyben.

verify(meta, root) -> Result with per-piece verdicts and the exact percentage:
share of payload bytes lying in pieces whose on-disk data, with absent data
read as zeros, hashes to the recorded value (v1: pieces of the concatenated
stream, pad entries are zeros; v2 and hybrid: per-file pieces by the BEP 52
piece rule).
"""
import os
from hashlib import sha1

from vf.ref import hashing


class Result:
    def __init__(self):
        self.pieces = []      # (ok, size, label)
        self.total = 0

    @property
    def matched(self):
        return sum(s for ok, s, _ in self.pieces if ok)

    @property
    def percent(self):
        if self.total == 0:
            return None
        return self.matched / self.total * 100

    def verdicts(self):
        return [ok for ok, _, _ in self.pieces]


def _read(path, length):
    """First `length` bytes of path, zero-filled where absent."""
    data = b""
    if os.path.isfile(path):
        with open(path, "rb") as fd:
            data = fd.read(length)
    if len(data) < length:
        data += bytes(length - len(data))
    return data


def is_single(meta, root):
    info = meta.info
    if b"files" in info:
        return False
    if b"length" in info:
        return True
    tree = info.get(b"file tree")
    if isinstance(tree, dict) and len(tree) == 1:
        (k, v), = tree.items()
        return k == info.get(b"name") and isinstance(v, dict) and set(v) == {b""}
    return False


def verify(meta, root):
    info = meta.info
    P = info[b"piece length"]
    res = Result()
    if b"meta version" in info:
        leaves = meta.tree_leaves()
        layers = meta.top.get(b"piece layers", {})
        single = is_single(meta, root) and os.path.isfile(root)
        for comps, length, proot, _ in leaves:
            if length == 0:
                continue
            path = root if single else os.path.join(root, *comps)
            data = _read(path, length)
            res.total += length
            if length > P:
                layer = layers.get(proot, b"")
            else:
                layer = proot or b""
            n = -(-length // P)
            for i in range(n):
                chunk = data[i * P:(i + 1) * P]
                h = hashing.v2_piece_hash(chunk, P, length)
                rec = layer[i * 32:(i + 1) * 32]
                res.pieces.append((h == rec, len(chunk), "/".join(comps) + "#%d" % i))
        return res
    # v1
    if b"length" in info and b"files" not in info:
        stream = _read(root, info[b"length"])
    else:
        parts = []
        for comps, length, pad in meta.v1_entries():
            if pad:
                parts.append(bytes(length))
            else:
                parts.append(_read(os.path.join(root, *comps), length))
        stream = b"".join(parts)
    res.total = len(stream)
    rec = info[b"pieces"]
    mv = memoryview(stream)
    for i in range(0, len(stream), P):
        chunk = mv[i:i + P]
        res.pieces.append((sha1(chunk).digest() == rec[(i // P) * 20:(i // P) * 20 + 20], len(chunk), "piece#%d" % (i // P)))
    return res
