"""Reference metafile encoder (v1 / v2 / hybrid) from a tree spec.  Independent of torrentfile/pyben.

Produces specification-conformant metafiles, with knobs for the legitimate
variety real-world encoders show (v1 file order, alignment pads, hybrid
trailing pad present or not, v2 single file without info.length, extra keys).
"""
from vf import sandbox
from vf.ref import bencode, hashing


def _u(s):
    return s.encode("utf-8") if isinstance(s, str) else bytes(s)


def tree_order(files):
    """Files ordered as a depth-first walk of the v2 file tree (keys in raw-byte order)."""
    return sorted(files, key=lambda f: [_u(c) for c in f["path"]])


def file_tree(tree, P):
    """(file tree dict, piece layers dict) per BEP 52."""
    layers = {}

    def leaf(f):
        if f["size"] == 0:
            return {b"": {b"length": 0}}
        root, layer = hashing.merkle(sandbox.file_bytes(f), P)
        if f["size"] > P:
            layers[root] = layer
        return {b"": {b"length": f["size"], b"pieces root": root}}

    if tree["single"]:
        return {_u(tree["name"]): leaf(tree["files"][0])}, layers
    out = {}
    for f in tree_order(tree["files"]):
        d = out
        for c in f["path"][:-1]:
            d = d.setdefault(_u(c), {})
        d[_u(f["path"][-1])] = leaf(f)
    return out, layers


def v1_stream(tree, P, order, pads, trailing_pad):
    """([entries], [chunks]) of the v1 view.  pads: insert BEP 47 pad files so files start on piece boundaries."""
    entries, chunks = [], []
    off = 0
    # a well-formed metafile has no two entries with the same path: keep pad names clear of real files
    pad_dir = b".pad"
    while any(f["path"] and _u(f["path"][0]) == pad_dir for f in order):
        pad_dir += b"~"
    for i, f in enumerate(order):
        entries.append({b"length": f["size"], b"path": [_u(c) for c in f["path"]]})
        chunks.append(sandbox.file_bytes(f))
        off += f["size"]
        last = i == len(order) - 1
        # pads = True / 1: files start on piece boundaries; pads = k > 1: on multiples of k pieces (BEP 47 fixes no pad length:
        # such a pad is longer than the room left in the piece it starts in)
        gap = -off % (P * int(pads or 1))
        if pads and gap and (not last or trailing_pad):
            entries.append({b"attr": b"p", b"length": gap, b"path": [pad_dir, b"%d" % gap]})
            chunks.append(bytes(gap))
            off += gap
    return entries, chunks


def build(tree, P, version, order=None, align=False, trailing_pad=False, v2_single_length=False,
          top=None, info_extra=None):
    """Return the bencoded metafile bytes.

    version: 1, 2 or 3 (hybrid).  order: list of indices into tree['files'] for the v1 file order
    (v1 only; hybrids must follow the file-tree order).  top: extra/override top-level keys.
    """
    info = {b"name": _u(tree["name"]), b"piece length": P}
    doc = {}
    files = tree["files"]
    if version in (2, 3):
        ft, layers = file_tree(tree, P)
        info[b"file tree"] = ft
        info[b"meta version"] = 2
        doc[b"piece layers"] = layers
        if tree["single"] and v2_single_length and version == 2:
            info[b"length"] = files[0]["size"]
    if version in (1, 3):
        if tree["single"]:
            info[b"length"] = files[0]["size"]
            info[b"pieces"] = hashing.v1_pieces([sandbox.file_bytes(files[0])], P)
        else:
            if version == 3:
                seq = tree_order(files)
                entries, chunks = v1_stream(tree, P, seq, True, trailing_pad)
            else:
                seq = [files[i] for i in order] if order is not None else sorted(
                    files, key=lambda f: [_u(c) for c in f["path"]])
                entries, chunks = v1_stream(tree, P, seq, align, trailing_pad)
            info[b"files"] = entries
            info[b"pieces"] = hashing.v1_pieces(chunks, P)
    if info_extra:
        for k, v in info_extra.items():
            info[_u(k)] = v
    doc[b"info"] = info
    if top:
        for k, v in top.items():
            doc[_u(k)] = v
    return bencode.encode(doc)
