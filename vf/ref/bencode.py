"""Strict reference bencode decoder (with byte spans) and canonical encoder.

Independent of torrentfile and pyben.  Values: int -> int, string -> bytes,
list -> list, dict -> dict with *bytes* keys.  The decoder never raises on a
merely non-canonical document: it records every canonicity problem in
``problems`` so that callers that only need the structure (C07, C11) can use
it on files whose key order is C06's business.  It raises BencodeError on
input that is not bencoding at all.
"""


class BencodeError(Exception):
    pass


class Node:
    """Decoded value with the byte span [start, end) it was read from."""

    __slots__ = ("kind", "value", "start", "end")

    def __init__(self, kind, value, start, end):
        self.kind = kind      # 'int' | 'str' | 'list' | 'dict'
        self.value = value    # int | bytes | [Node] | [(bytes, Node)]
        self.start = start
        self.end = end

    def plain(self):
        if self.kind in ("int", "str"):
            return self.value
        if self.kind == "list":
            return [n.plain() for n in self.value]
        out = {}
        for k, n in self.value:
            out[k] = n.plain()
        return out

    def get(self, key):
        """Child node of a dict by bytes/str key (first occurrence) or None."""
        if isinstance(key, str):
            key = key.encode("utf-8")
        if self.kind != "dict":
            return None
        for k, n in self.value:
            if k == key:
                return n
        return None

    def keys(self):
        return [k for k, _ in self.value] if self.kind == "dict" else []


def _decode(data, pos, problems, path):
    n = len(data)
    if pos >= n:
        raise BencodeError("unexpected end at %d" % pos)
    c = data[pos:pos + 1]
    if c == b"i":
        end = data.find(b"e", pos)
        if end < 0:
            raise BencodeError("unterminated integer at %d" % pos)
        body = data[pos + 1:end]
        digits = body[1:] if body[:1] == b"-" else body
        if not digits or not digits.isdigit() or any(
                ch not in b"0123456789" for ch in digits):
            raise BencodeError("bad integer %r at %d" % (body, pos))
        if body == b"-0":
            problems.append(("neg-zero", path, pos))
        elif len(digits) > 1 and digits[:1] == b"0":
            problems.append(("int-leading-zero", path, pos))
        return Node("int", int(body), pos, end + 1)
    if c in b"0123456789" and c:
        colon = data.find(b":", pos)
        if colon < 0:
            raise BencodeError("unterminated string length at %d" % pos)
        lens = data[pos:colon]
        if not lens or any(ch not in b"0123456789" for ch in lens):
            raise BencodeError("bad string length %r at %d" % (lens, pos))
        if len(lens) > 1 and lens[:1] == b"0":
            problems.append(("strlen-leading-zero", path, pos))
        ln = int(lens)
        start = colon + 1
        end = start + ln
        if end > n:
            raise BencodeError("string overruns input at %d" % pos)
        return Node("str", bytes(data[start:end]), pos, end)
    if c == b"l":
        items = []
        p = pos + 1
        i = 0
        while True:
            if p >= n:
                raise BencodeError("unterminated list at %d" % pos)
            if data[p:p + 1] == b"e":
                return Node("list", items, pos, p + 1)
            node = _decode(data, p, problems, path + (i,))
            items.append(node)
            p = node.end
            i += 1
    if c == b"d":
        items = []
        p = pos + 1
        prev = None
        seen = set()
        while True:
            if p >= n:
                raise BencodeError("unterminated dict at %d" % pos)
            if data[p:p + 1] == b"e":
                return Node("dict", items, pos, p + 1)
            knode = _decode(data, p, problems, path + ("<key>",))
            if knode.kind != "str":
                raise BencodeError("non-string dict key at %d" % p)
            key = knode.value
            if key in seen:
                problems.append(("duplicate-key", path + (key,), p))
            elif prev is not None and key < prev:
                problems.append(("unsorted-key", path + (key,), p))
            seen.add(key)
            prev = key if prev is None or key > prev else prev
            vnode = _decode(data, knode.end, problems, path + (key,))
            items.append((key, vnode))
            p = vnode.end
    raise BencodeError("unexpected byte %r at %d" % (c, pos))


def decode(data):
    """Return (root Node, problems).  problems == [] iff canonical."""
    data = bytes(data)
    problems = []
    node = _decode(data, 0, problems, ())
    if node.end != len(data):
        problems.append(("trailing-data", (), node.end))
    return node, problems


def decode_strict(data):
    node, problems = decode(data)
    if problems:
        raise BencodeError("not canonical: %r" % (problems[:3],))
    return node


def encode(value, sort=True):
    """Canonical encoder (sort=False keeps insertion order: for hostile docs)."""
    out = bytearray()
    _encode(value, out, sort)
    return bytes(out)


def _encode(v, out, sort):
    if isinstance(v, bool):
        raise TypeError("bool is not bencodable")
    if isinstance(v, int):
        out += b"i%de" % v
    elif isinstance(v, (bytes, bytearray)):
        out += b"%d:" % len(v)
        out += v
    elif isinstance(v, str):
        b = v.encode("utf-8")
        out += b"%d:" % len(b)
        out += b
    elif isinstance(v, (list, tuple)):
        out += b"l"
        for x in v:
            _encode(x, out, sort)
        out += b"e"
    elif isinstance(v, dict):
        items = []
        for k, x in v.items():
            kb = k.encode("utf-8") if isinstance(k, str) else bytes(k)
            items.append((kb, x))
        if sort:
            items.sort(key=lambda kv: kv[0])
        out += b"d"
        for kb, x in items:
            out += b"%d:" % len(kb)
            out += kb
            _encode(x, out, sort)
        out += b"e"
    else:
        raise TypeError("cannot bencode %r" % type(v))


def selfcheck():
    doc = {b"b": [1, -5, 0, b"xy", {b"": 7}], b"a": b"", b"info": {b"z": 1, b"y": b"\xff"}}
    enc = encode(doc)
    node, probs = decode(enc)
    assert not probs and node.plain() == doc
    info = node.get("info")
    assert enc[info.start:info.end] == encode(doc[b"info"])
    for bad, tag in ((b"d1:bi1e1:ai2ee", "unsorted-key"), (b"d1:ai1e1:ai2ee", "duplicate-key"),
                     (b"i-0e", "neg-zero"), (b"i03e", "int-leading-zero"),
                     (b"01:a", "strlen-leading-zero"), (b"i1ei2e", "trailing-data")):
        _, p = decode(bad)
        assert p and p[0][0] == tag, (bad, p)
    for junk in (b"", b"i12", b"5:abc", b"l", b"di1ei2ee", b"x", b"i--1e", b"i1.5e"):
        try:
            decode(junk)
        except BencodeError:
            continue
        raise AssertionError("accepted junk %r" % junk)
