"""Reference BEP 3 piece hashing and BEP 52 merkle trees (stdlib hashlib only).

Every quantity is computed in two independent formulations; `*_checked`
functions compare them and raise RefDisagreement (a harness error, exit 2).
"""
from hashlib import sha1, sha256

BLOCK = 16384
ZERO = bytes(32)


class RefDisagreement(Exception):
    pass


# ---------------------------------------------------------------- BEP 3
def v1_pieces_slice(stream, plen):
    """SHA-1 of each successive plen-slice of stream (last may be short)."""
    mv = memoryview(stream)
    return b"".join(sha1(mv[i:i + plen]).digest() for i in range(0, len(stream), plen))


def v1_pieces_feed(chunks, plen):
    """Same, fed incrementally from an iterable of byte chunks."""
    out = bytearray()
    h = sha1()
    fill = 0
    for chunk in chunks:
        mv = memoryview(chunk)
        while len(mv):
            take = min(plen - fill, len(mv))
            h.update(mv[:take])
            fill += take
            mv = mv[take:]
            if fill == plen:
                out += h.digest()
                h = sha1()
                fill = 0
    if fill:
        out += h.digest()
    return bytes(out)


def v1_pieces(chunks, plen):
    chunks = [bytes(c) for c in chunks]
    a = v1_pieces_slice(b"".join(chunks), plen)
    b = v1_pieces_feed(chunks, plen)
    if a != b:
        raise RefDisagreement("v1 slice/feed disagree")
    return a


# ---------------------------------------------------------------- BEP 52
def _next_pow2(n):
    p = 1
    while p < n:
        p <<= 1
    return p


def _leaves(data):
    mv = memoryview(data)
    return [sha256(mv[i:i + BLOCK]).digest() for i in range(0, len(data), BLOCK)]


def merkle_bottom_up(data, plen):
    """(root, piece_layer) for a non-empty file; formulation A.

    Leaves padded with 32 zero bytes to the next power of two, pairwise
    reduction; the piece layer is the layer whose nodes cover plen bytes,
    truncated to ceil(len/plen) hashes (padding-only hashes omitted).
    """
    assert len(data) > 0
    leaves = _leaves(data)
    width = _next_pow2(len(leaves))
    layer = leaves + [ZERO] * (width - len(leaves))
    bpp = plen // BLOCK
    npieces = -(-len(data) // plen)
    piece_layer = None
    span = 1  # blocks covered by one node of `layer`
    while True:
        if span == bpp and len(data) > plen:
            piece_layer = b"".join(layer[:npieces])
        if len(layer) == 1:
            break
        layer = [sha256(layer[i] + layer[i + 1]).digest() for i in range(0, len(layer), 2)]
        span *= 2
    return layer[0], piece_layer


_zero_cache = {0: ZERO}


def _zero_subtree(height):
    if height not in _zero_cache:
        z = _zero_subtree(height - 1)
        _zero_cache[height] = sha256(z + z).digest()
    return _zero_cache[height]


def merkle_top_down(data, plen):
    """Formulation B: recursive, absent subtrees replaced by memoised zero-subtree hashes."""
    assert len(data) > 0
    mv = memoryview(data)
    nblocks = -(-len(data) // BLOCK)
    height = 0
    while (1 << height) < nblocks:
        height += 1
    bpp = plen // BLOCK
    piece_h = bpp.bit_length() - 1
    collected = {}

    def node(h, idx):
        first = idx << h
        if first >= nblocks:
            r = _zero_subtree(h)
        elif h == 0:
            r = sha256(mv[first * BLOCK:(first + 1) * BLOCK]).digest()
        else:
            r = sha256(node(h - 1, 2 * idx) + node(h - 1, 2 * idx + 1)).digest()
        if h == piece_h and first < nblocks:
            collected[idx] = r
        return r

    root = node(height, 0)
    piece_layer = None
    if len(data) > plen:
        piece_layer = b"".join(collected[i] for i in sorted(collected))
    return root, piece_layer


def merkle(data, plen):
    a = merkle_bottom_up(data, plen)
    b = merkle_top_down(data, plen)
    if a != b:
        raise RefDisagreement("merkle formulations disagree for len=%d plen=%d" % (len(data), plen))
    return a


def v2_piece_hash(data, plen, whole_file_len):
    """Hash of one v2 piece (data = the piece's bytes, possibly short).

    For a file no longer than one piece the tree is only as tall as the file
    needs; otherwise the piece subtree is a full plen/BLOCK-leaf tree.
    """
    leaves = _leaves(data) if len(data) else []
    if whole_file_len <= plen:
        width = _next_pow2(max(1, len(leaves)))
    else:
        width = plen // BLOCK
    layer = leaves + [ZERO] * (width - len(leaves))
    while len(layer) > 1:
        layer = [sha256(layer[i] + layer[i + 1]).digest() for i in range(0, len(layer), 2)]
    return layer[0]


def selfcheck():
    import os
    # worked facts of the specification
    one = bytes(range(256)) * 10
    assert merkle(one, 16384) == (sha256(one).digest(), None)
    two = os.urandom(BLOCK) + b"x"
    h0, h1 = sha256(two[:BLOCK]).digest(), sha256(two[BLOCK:]).digest()
    assert merkle(two, 32768)[0] == sha256(h0 + h1).digest()
    three = os.urandom(2 * BLOCK + 5)
    l = _leaves(three)
    exp = sha256(sha256(l[0] + l[1]).digest() + sha256(l[2] + ZERO).digest()).digest()
    assert merkle(three, 65536)[0] == exp
    r, pl = merkle(three, 16384)
    assert r == exp and pl == b"".join(l)
    r, pl = merkle(three, 32768)
    assert r == exp and pl == sha256(l[0] + l[1]).digest() + sha256(l[2] + ZERO).digest()
    # padding leaf is zero bytes, not hash of zeros
    assert _zero_subtree(0) == ZERO and _zero_subtree(1) == sha256(ZERO + ZERO).digest()
    # piece count not a power of two: 3 pieces of 2 blocks
    five = os.urandom(5 * BLOCK)
    r, pl = merkle(five, 32768)
    l = _leaves(five)
    p = [sha256(l[0] + l[1]).digest(), sha256(l[2] + l[3]).digest(), sha256(l[4] + ZERO).digest()]
    assert pl == b"".join(p)
    assert r == sha256(sha256(p[0] + p[1]).digest() + sha256(p[2] + sha256(ZERO + ZERO).digest()).digest()).digest()
    for i, q in enumerate(p):
        assert v2_piece_hash(five[i * 32768:(i + 1) * 32768], 32768, len(five)) == q
    assert v2_piece_hash(three, 65536, len(three)) == exp
    s = os.urandom(100000)
    assert v1_pieces([s[:7], s[7:70000], b"", s[70000:]], 32768) == v1_pieces_slice(s, 32768)
    assert len(v1_pieces([s], 32768)) == 20 * 4
