"""C18 - inspecting commands are read-only; create writes one file; rename never clobbers."""
import argparse
import os
import shutil

from hypothesis import strategies as st

from vf import meta as vmeta, sandbox, target
from vf.engine import Outcome, Violation
from vf.gen import trees
from vf.props import common
from vf.ref import bencode as refbencode, metafile as refmeta

ID = "C18"
LEVEL = "exploration"
TECHNIQUE = "Hypothesis-generated sandboxes (payload intact or damaged, metafiles of all versions, bystander files incl. '.torrent' and '<name>.torrent') x command x spelling, through cli.execute and the library functions; oracle: recursive snapshot diff (names, types, sizes, SHA-256, modes) of the sandbox before/after ; foreign metafiles, occupant kinds for rename, -q -v combinations, shell-pattern names, payloads called *.torrent, over-long names with the rename destination learned from a dry run in a twin directory"
RULE = ("Cases: sandbox directory (also the cwd) holding a payload (intact, byte-flipped, or with a file removed), its metafile (v1/v2/hybrid), "
        "bystander files including the names '.torrent', '<name>.torrent' and files inside an output directory; command in {recheck, check, "
        "info, magnet, m, library Checker/info/magnet, create, new (without -o, -o file, -o existing file, -o dir/, -o a dangling symlink), rename (target free / occupied by junk, a copy, the same info with other trackers, a dangling symlink; info.name with a path separator) (target free / "
        "occupied)} x spellings (-q, -v, none). Oracle: read-only commands leave the snapshot identical; create leaves the payload identical "
        "and exactly one path new-or-changed, the expected output path; rename leaves the bytes identical under the new name, removes the old "
        "name, changes nothing else, and with an occupied target raises and changes nothing. Non-trivial: bystanders present, or the payload "
        "is damaged, or the rename target is occupied. Payloads called *.torrent (create: one new file outside the payload is accepted as the output, whatever its spelling); names whose <name>.torrent exceeds 255 bytes (rename: the destination the tool falls back to is learned from a dry run on a copy in a twin directory, occupied, and must then not be replaced; nothing may be lost). Distinct = distinct canonical case JSON.")
ASSUMPTIONS = [
    "snapshots cover names, types, sizes, SHA-256 digests and permission bits (not timestamps)",
    "create without -o is run with the cwd equal to the payload's parent, where manual ('adjacent to the content') and code (cwd) agree on <name>.torrent",
]
BUDGET = {
    "quick": {"examples": 700, "workers": 8, "time_cap": 70},
    "thorough": {"examples": 12000, "workers": 14, "time_cap": 900},
}
COMMANDS = ["recheck", "check", "info", "magnet", "m", "lib-checker", "lib-info", "lib-magnet", "create", "new", "create", "rename", "rename"]


def strategy(tier):
    @st.composite
    def case(draw):
        P = 16384
        t = draw(trees.tree(P, max_files=4, cli_safe=True, big=False, modes=trees.MODES_NZ, nonempty_total=True))
        cmd = draw(st.sampled_from(COMMANDS))
        c = {"tree": t, "creator": draw(st.sampled_from(["TorrentFile", "Assembler2", "Assembler3"])),
             "cmd": cmd, "flag": draw(st.sampled_from(["", "", "-q", "-v", "-q -v", "-v -q"])),
             "damage": draw(st.sampled_from(["none", "none", "flip", "remove"])),
             "bystanders": draw(st.lists(st.sampled_from([".torrent", "NAME.torrent", "notes.txt", "outdir/.torrent", "outdir/other.torrent",
                                                          "outdir/NAME.torrent", "m.torrent.bak", ".torrent/", "outdir/.torrent/"]), unique=True, max_size=4)),
             "content_path": draw(st.sampled_from(["root", "parent"])),
             "meta_kind": draw(st.sampled_from(["own", "own", "ref"]))}
        if cmd in ("create", "new"):
            c["out_mode"] = draw(st.sampled_from(["none", "file", "existing-file", "dir", "dangling-symlink"]))
            c["version"] = draw(st.sampled_from(["1", "2", "3"]))
            if draw(st.sampled_from([True] + [False] * 5)):
                # a payload that is itself called *.torrent (a single file, or a directory)
                t = dict(t)
                t["name"] = draw(st.sampled_from(["data.torrent", "old.torrent", "x.y.torrent"]))
                c["tree"] = t
        if cmd == "rename":
            if draw(st.sampled_from([True, False, False])):
                # names that are also shell patterns / differ only in case from something: "exists" must mean this exact name
                t = dict(t)
                t["name"] = draw(st.sampled_from(["Title [2020]", "x[1]", "a*b", "what?", "[abc]"]))
                c["tree"] = t
            if draw(st.sampled_from([True] + [False] * 5)):
                # longer than 247 bytes: <name>.torrent does not fit into one path component
                t = dict(c["tree"])
                t["name"] = "L" * 243 + draw(st.sampled_from([" disc 1", " disc 2", "-final!"]))
                c["tree"] = t
            c["occupied"] = draw(st.booleans())
            c["occupant"] = draw(st.sampled_from(["junk", "identical-copy", "same-info-other-trackers", "dangling-symlink"]))
            # a metafile whose info.name is not a single path component: rename must still only change the file's name
            c["hostile_name"] = draw(st.sampled_from([None] * 5 + ["outdir/x", "../x", "./y", "outdir/../z"]))
            c["mf_name"] = draw(st.sampled_from(["m.torrent", "weird name.torrent", "x"]))
        if cmd in ("magnet", "m"):
            c["mv"] = draw(st.sampled_from(["0", "1", "2", "3"]))
        return c
    return case()


def run_case(case):
    target.reset()
    tree = case["tree"]
    name = tree["name"]
    if name in ("m", "new", "edit", "info", "check", "create", "magnet", "rename", "rebuild", "recheck", "outdir", "notes.txt", ".torrent",
                "m.torrent", "x", "m.torrent.bak", "weird name.torrent"):
        return Outcome(None, False, ["name-clash"])
    if name.endswith(".torrent") and case["cmd"] not in ("create", "new"):
        return Outcome(None, False, ["name-clash"])
    classes = ["cmd-" + case["cmd"]]
    hostile = None
    with sandbox.Scratch("c18") as scr:
        box = os.path.join(scr, "box")
        os.makedirs(box)
        root = sandbox.materialize(tree, box)
        mf_name = case.get("mf_name", "m.torrent")
        mf = os.path.join(box, mf_name)
        try:
            if case.get("meta_kind") == "ref":
                # a foreign metafile: no 'created by' / 'creation date', conformant v2 single file without info.length
                ver = {"TorrentFile": 1, "Assembler2": 2, "Assembler3": 3}[case["creator"]]
                mtree = tree
                if case["cmd"] == "rename" and case.get("hostile_name"):
                    mtree = dict(tree, name=case["hostile_name"])
                    hostile = case["hostile_name"]
                    classes.append("name-with-separator")
                with open(mf, "wb") as fd:
                    fd.write(refmeta.build(mtree, 16384, ver, trailing_pad=True))
                classes.append("foreign-metafile")
            else:
                common.create(case["creator"], "lib", root, mf, 16384)
        except Exception as e:
            return Outcome(Violation("C18:setup-exception:%s" % type(e).__name__, "creating the metafile raised %r" % (e,)), False)
        os.makedirs(os.path.join(box, "outdir"), exist_ok=True)
        for b in case["bystanders"]:
            p = os.path.join(box, b.replace("NAME", name))
            if b == "NAME.torrent" and case["cmd"] == "rename":
                continue
            if len(os.path.basename(p).encode("utf-8")) > 255:
                continue
            if b.endswith("/"):
                # a *directory* of that name (the writability probe uses the fixed name .torrent)
                if not os.path.lexists(p.rstrip("/")):
                    os.makedirs(p.rstrip("/"))
                    with open(os.path.join(p, "kept.txt"), "wb") as fd:
                        fd.write(b"bystander")
                continue
            if os.path.isdir(p):
                continue
            with open(p, "wb") as fd:
                fd.write(b"bystander " + b.encode())
        if case["bystanders"]:
            classes.append("bystanders")
        nonempty = [f for f in tree["files"] if f["size"]]
        if case["damage"] != "none" and nonempty and case["cmd"] not in ("create", "new", "rename"):
            f = nonempty[0]
            p = root if tree["single"] else os.path.join(root, *f["path"])
            if case["damage"] == "flip" or tree["single"]:
                with open(p, "r+b") as fd:
                    b0 = fd.read(1)
                    fd.seek(0)
                    fd.write(bytes([b0[0] ^ 0xFF]))
            else:
                os.remove(p)
            classes.append("damaged-payload")
        target_new = os.path.join(box, name + ".torrent")
        too_long = len((name + ".torrent").encode("utf-8")) > 255
        if too_long:
            # the exact target cannot exist; what can is whatever shortened form the tool falls back to - which a rename must not
            # clobber either.  Learn that destination from a dry run in a twin directory, then occupy the same place here.
            classes.append("name-too-long")
            target_new = None
            if case["cmd"] == "rename" and case["occupied"]:
                twin = os.path.join(scr, "twin")
                os.makedirs(twin)
                shutil.copyfile(mf, os.path.join(twin, mf_name))
                try:
                    target.execute(["rename", os.path.join(twin, mf_name)])
                except Exception:  # noqa: BLE001
                    pass
                made = [n for n in os.listdir(twin) if n != mf_name]
                if len(made) == 1 and not os.path.exists(os.path.join(twin, mf_name)):
                    target_new = os.path.join(box, made[0])
                    classes.append("learned-destination")
                target.reset()
        if case["cmd"] == "rename" and case["occupied"] and target_new is not None and hostile is None:
            kind = case.get("occupant", "junk")
            if kind == "dangling-symlink":
                data = None
            elif kind == "junk":
                data = b"occupant"
            else:
                with open(mf, "rb") as fd:
                    data = fd.read()
                if kind == "same-info-other-trackers":
                    # same info dictionary, different outer dictionary (another tracker): still somebody else's file
                    node = vmeta.Meta(data)
                    top = dict(node.top)
                    top[b"announce"] = b"http://other.example/announce"
                    top[b"comment"] = b"occupant"
                    data = refbencode.encode(top)
            if data is None:
                os.symlink("gone-elsewhere.torrent", target_new)      # an existing directory entry all the same
            else:
                with open(target_new, "wb") as fd:
                    fd.write(data)
            classes.append("rename-occupied")
            classes.append("occupant-" + kind)
        with open(mf, "rb") as fd:
            mf_bytes = fd.read()
        before = sandbox.snapshot(box)
        content = root if case["content_path"] == "root" else box
        pre = case["flag"].split() if case["flag"] else []
        cmd = case["cmd"]
        exc = None
        expect_changed = None
        alt_changed = None
        old = os.getcwd()
        os.chdir(box)
        try:
            if cmd in ("recheck", "check"):
                target.execute(pre + [cmd, mf, content])
            elif cmd == "info":
                target.execute(pre + ["info", mf])
            elif cmd in ("magnet", "m"):
                target.execute(pre + [cmd, mf, "--meta-version", case["mv"]])
            elif cmd == "lib-checker":
                target.recheck_pct(mf, content)
            elif cmd == "lib-info":
                with target.quiet():
                    target.commands.info(argparse.Namespace(metafile=mf))
            elif cmd == "lib-magnet":
                with target.quiet():
                    target.commands.magnet(mf)
            elif cmd in ("create", "new"):
                argv = pre + [cmd, "--meta-version", case["version"], "--prog", "0"]
                om = case["out_mode"]
                if om == "none":
                    expect_changed = name + ".torrent"
                elif om == "file":
                    argv += ["-o", os.path.join(box, "outdir", "fresh.torrent")]
                    expect_changed = "outdir/fresh.torrent"
                elif om == "existing-file":
                    argv += ["-o", mf]
                    expect_changed = mf_name
                elif om == "dangling-symlink":
                    # the output path exists as a symbolic link whose target does not: either the link's target comes into being
                    # (written through) or the link gives way to the metafile - one file, not both
                    os.symlink("not-yet.torrent", os.path.join(box, "outdir", "link.torrent"))
                    before = sandbox.snapshot(box)
                    argv += ["-o", os.path.join(box, "outdir", "link.torrent")]
                    expect_changed = "outdir/link.torrent"
                    alt_changed = "outdir/not-yet.torrent"
                else:
                    argv += ["-o", os.path.join(box, "outdir") + "/"]
                    expect_changed = "outdir/" + name + ".torrent"
                classes.append("out-" + om)
                argv.append(root)
                target.execute(argv)
            elif cmd == "rename":
                target.execute(pre + ["rename", mf])
        except Exception as e:  # noqa: BLE001
            exc = e
        finally:
            os.chdir(old)
        after = sandbox.snapshot(box)
        diff = sandbox.snapdiff(before, after)
    nontrivial = bool(case["bystanders"]) or "damaged-payload" in classes or "rename-occupied" in classes
    flag = case["flag"] or "plain"
    if cmd in ("create", "new"):
        if exc is not None:
            return Outcome(Violation("C18:create:exception:%s" % type(exc).__name__, "create raised %r" % (exc,)), True, classes)
        if alt_changed is not None and [p for p, _ in diff] == [alt_changed]:
            expect_changed = alt_changed
        other = [(p, c) for p, c in diff if p != expect_changed]
        if (len(diff) == 1 and diff[0][1] == "created" and name.endswith(".torrent")
                and not (diff[0][0] == name or diff[0][0].startswith(name + "/"))):
            # C18 does not fix how the default file name is spelled for a payload that is already called *.torrent:
            # one new file outside the payload is the output metafile
            classes.append("other-default-name")
            return Outcome(None, nontrivial, classes)
        if other:
            kind = other[0][1]
            which = "bystander" if any(other[0][0] == b.replace("NAME", name) for b in case["bystanders"]) else (
                "payload" if other[0][0] == name or other[0][0].startswith(name + "/") else "other")
            return Outcome(Violation("C18:create:%s-%s:%s" % (which, kind, case["out_mode"]),
                                     "create %s %s besides writing %s" % (kind, other[0][0], expect_changed), {"diff": diff[:6]}), True, classes)
        if not any(p == expect_changed for p, _ in diff):
            if not (case["out_mode"] == "existing-file" and case["version"] == {"TorrentFile": "1", "Assembler2": "2", "Assembler3": "3"}[case["creator"]]):
                pass
            if expect_changed not in after:
                return Outcome(Violation("C18:create:no-output", "create did not write %s" % expect_changed), True, classes)
        return Outcome(None, nontrivial, classes)
    if cmd == "rename" and hostile is not None:
        # refusing is fine; otherwise the file keeps its directory and its bytes
        if exc is not None and not diff:
            return Outcome(None, True, classes + ["refused"])
        created = [p for p, c in diff if c == "created"]
        ok = (sorted(c for _, c in diff) == ["created", "deleted"] and (mf_name, "deleted") in diff and "/" not in created[0]
              and after[created[0]][1:3] == before[mf_name][1:3])
        if not ok:
            return Outcome(Violation("C18:rename:left-its-directory", "rename of a metafile named %r: changes=%r (exception %r)" % (hostile, diff[:4], exc)), True, classes)
        return Outcome(None, True, classes)
    if cmd == "rename":
        new_rel = name + ".torrent"
        if too_long:
            # nothing may be replaced or lost, whatever the tool does about the over-long name (refusing is fine)
            lost = [p for p, c in diff if c in ("deleted", "changed") and p != mf_name]
            if lost or (any(p == mf_name and c == "deleted" for p, c in diff) and not any(c == "created" for p, c in diff)):
                return Outcome(Violation("C18:rename:clobber-long-name", "rename with an over-long name: changes=%r" % (diff[:4],)), True, classes)
            return Outcome(None, nontrivial, classes)
        if case["occupied"] or mf_name == new_rel:
            if exc is None or diff:
                return Outcome(Violation("C18:rename:clobber", "rename onto an existing file: exception=%r, changes=%r" % (exc, diff[:4])), True, classes)
            return Outcome(None, nontrivial, classes)
        if exc is not None:
            return Outcome(Violation("C18:rename:exception:%s" % type(exc).__name__, "rename raised %r" % (exc,)), True, classes)
        want = [(mf_name, "deleted"), (new_rel, "created")]
        if sorted(diff) != sorted(want):
            return Outcome(Violation("C18:rename:side-effects", "rename changed %r, expected %r" % (diff[:6], want)), True, classes)
        if after[new_rel][1:3] != before[mf_name][1:3]:
            return Outcome(Violation("C18:rename:bytes-changed", "renamed metafile differs in content"), True, classes)
        return Outcome(None, nontrivial, classes)
    # read-only commands
    if diff:
        p, c = diff[0]
        which = "metafile" if p == mf_name else ("payload" if p == name or p.startswith(name + "/") else "bystander")
        return Outcome(Violation("C18:%s:%s-%s" % (cmd, which, c), "%s (%s) %s %s" % (cmd, flag, c, p), {"diff": diff[:6]}), True, classes)
    if exc is not None:
        classes.append("raised-" + type(exc).__name__)   # not C18's business: only side effects are judged here
    return Outcome(None, nontrivial, classes)
