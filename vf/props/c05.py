"""C05 - recheck reports exactly 100% for intact content of any well-formed metafile."""
from vf import meta as vmeta, sandbox, target
from vf.engine import HarnessError, Outcome, Violation
from vf.gen import trees
from vf.props import rk
from vf.ref import recheck as refcheck

ID = "C05"
LEVEL = "exploration"
TECHNIQUE = "Hypothesis-generated intact payloads x metafiles from the tool's five creators and from an independent conformant encoder (shuffled v1 order, aligned v1, hybrid with/without trailing pad, v2 single file without info.length) x content path root/parent; oracle: Checker.results() == 100 ; deterministic large-piece grid (2 MiB / 32 MiB pieces)"
RULE = ("Cases: generated tree with non-empty total payload (any content incl. all-zero files, empty files, files ending on piece "
        "boundaries, symlinks, a file whose pieces root / piece string is valid UTF-8) x piece length x metafile source (own: TorrentFile plain or aligned - incl. a payload that really contains a file named like the creator's padding entry -, TorrentAssembler v2/hybrid, TorrentFileV2, TorrentFileHybrid; "
        "ref: reference encoder v1 sorted/shuffled order, aligned to one, two or four piece lengths (pads longer than the room left in their piece), hybrid with/without trailing pad, v2 single file with/without "
        "info.length) x content path in {payload root, its parent, a symlink carrying the name, '.' from inside the root, root/., relative}. The reference verifier must itself report 100% (else harness "
        "error). Oracle: Checker(metafile, path).results() == 100 exactly. Non-trivial: pieces straddle files, or an empty file is "
        "present, or a file ends exactly on a piece boundary, or the metafile is reference-encoded. Distinct = distinct canonical case JSON.")
ASSUMPTIONS = [
    "vf/ref/metafile.py emits specification-conformant metafiles (guarded: vf/ref/recheck.py must report 100% on each before the tool is asked)",
    "the parent directory's own name differs from the payload name (a parent named like the payload is inherently ambiguous for find_root)",
    "file names are valid UTF-8; symbolic links to files and directories inside the tree are generated (the tool follows them: linked content is payload under the link's name); no special files; the content path may itself be a symlink",
]
BUDGET = {
    "quick": {"examples": 450, "workers": 8, "time_cap": 70},
    "thorough": {"examples": 12000, "workers": 14, "time_cap": 900},
}


GRID_DESC = "deterministic large-piece cases: piece length 2 MiB and 32 MiB with files of 1..17 MiB (sizes around 1 MiB / 16 MiB inside one piece), v1/v2/hybrid"


def grid(tier):
    return rk.big_piece_grid(False)


def strategy(tier):
    return rk.case_strategy(tier, trees.MODES_ALL, 0, 0)


def run_case(case):
    target.reset()
    with sandbox.Scratch("c05") as scr:
        try:
            root, parent, mf = rk.build(scr, case)
            m = vmeta.Meta.from_file(mf)
        except Exception as e:
            return Outcome(Violation("C05:setup-exception:%s" % type(e).__name__, "creating the metafile raised %r" % (e,)), False)
        ref = refcheck.verify(m, root)
        if ref.percent != 100:
            if case["meta"]["kind"] == "ref":
                raise HarnessError("reference encoder/verifier disagree on an intact payload: %r" % (case,))
            return Outcome(Violation("C05:own-metafile-wrong", "reference verifier reports %r%% for the tool's own metafile over intact content (C01-C03 territory)" % ref.percent), True)
        classes = rk.shape_classes(case, m)
        pct, exc = rk.tool_recheck(mf, rk.content_of(case, root, parent))
    ver = classes[0]
    src = case["meta"]
    tag = "%s:%s" % (ver, src["kind"])
    if src["kind"] == "ref" and ver == "v2" and case["tree"]["single"] and not src.get("v2_single_length"):
        tag += ":single-no-length"
    if "empty-file" in classes:
        tag += ":empty-file"
    nontrivial = bool({"pieces-straddle-files", "empty-file", "file-ends-on-boundary", "meta-ref"} & set(classes))
    if exc is not None:
        return Outcome(Violation("C05:%s:exception:%s" % (tag, type(exc).__name__), "recheck of intact content raised %r" % (exc,)), True, classes)
    if pct != 100:
        return Outcome(Violation("C05:%s:not-100" % tag, "recheck of intact content reports %r (path=%s)" % (pct, case["content_path"])), True, classes)
    return Outcome(None, nontrivial, classes)
