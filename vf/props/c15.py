"""C15 - piece-aligned v1 metafiles: padding entries account exactly for the pieces."""
import os

from hypothesis import strategies as st

from vf import meta as vmeta, sandbox, target
from vf.engine import Outcome, Violation
from vf.gen import trees
from vf.props import common
from vf.ref import hashing

ID = "C15"
LEVEL = "exploration"
TECHNIQUE = "Hypothesis-generated trees x piece lengths with align requested (library keyword and CLI --align); padded stream rebuilt from info.files and hashed by the BEP 3 reference, gap arithmetic checked per entry ; automatic piece length cases; optional second act"
RULE = ("Cases: generated tree x piece length, v1 with align=True through TorrentFile(align=True) or `create --align`, progress mode 0/1/2. Oracle: the "
        "non-pad entries are exactly the files on disk; every non-pad entry starts at a stream offset that is a multiple of P; each "
        "pad entry has attr p and length exactly (-end_of_preceding_file) mod P, so 0 < len < P; info.pieces = SHA-1 slicing of the "
        "listed stream with pads as zeros, hence the listed lengths account for exactly ceil(total/P) pieces; a pad after the last "
        "file is optional; a single file has no pads and is hashed alone. Non-trivial: some non-last file with size mod P != 0, or a "
        "single file with size mod P != 0. Distinct = distinct canonical case JSON.")
ASSUMPTIONS = [
    "vf/ref/hashing.py SHA-1 slicing (two formulations) and vf/ref/bencode.py",
    "file names are valid UTF-8; symbolic links to files and directories inside the tree are generated (the tool follows them: linked content is payload under the link's name); no special files",
]
BUDGET = {
    "quick": {"examples": 650, "workers": 8, "time_cap": 70},
    "thorough": {"examples": 15000, "workers": 14, "time_cap": 900},
}
GRID_DESC = "two-file directories over boundary sizes (0,1,B+-1,P-1,P,P+1,2P,2P+1,...) x P, and single files over k*P+d"


def strategy(tier):
    @st.composite
    def case(draw):
        P = draw(trees.piece_length(tier))
        route = draw(st.sampled_from(["lib", "lib", "cli"]))
        t = draw(trees.tree(P, max_files=8 if tier == "quick" else 20, cli_safe=(route == "cli")))
        return {"tree": t, "P": None if draw(st.sampled_from([True] + [False] * 9)) else P, "route": route,
                # progress mode is a legitimate create parameter (round 8: a shared option helper lost `align` in mode 2)
                "progress": draw(st.sampled_from([0, 0, 1, 2])), "again": draw(common.second_act())}
    return case()


def grid(tier):
    cases = []
    Ps = [1 << 14, 1 << 15] if tier == "quick" else [1 << 14, 1 << 15, 1 << 16]
    for P in Ps:
        bs = [0, 1, trees.B - 1, P - 1, P, P + 1, 2 * P - 1, 2 * P, 2 * P + 1, 3 * P + 7]
        if tier != "quick":
            bs += [trees.B, trees.B + 1, 3 * P, 5 * P - 1, 5 * P + 1]
        for a in bs:
            cases.append({"tree": {"name": "g", "single": True, "files": [
                {"path": [], "size": a, "mode": "rnd", "seed": a}]}, "P": P, "route": "lib"})
            for b in bs:
                if a + b:
                    cases.append({"tree": {"name": "g", "single": False, "files": [
                        {"path": ["a"], "size": a, "mode": "rnd", "seed": a},
                        {"path": ["b"], "size": b, "mode": "rnd", "seed": b + 1}]}, "P": P, "route": "lib"})
    # automatic piece length (P = None) where the padded stream has more pieces than the payload suggests
    for n in (999, 1001, 1003):
        cases.append({"tree": {"name": "many", "single": False, "files": [
            {"path": ["f%04d" % i], "size": 1 + (i % 3), "mode": "const", "seed": i} for i in range(n)]}, "P": None, "route": "lib"})
    for sizes in ([16383000, 500, 700], [8191000, 8191000, 900, 3]):
        cases.append({"tree": {"name": "thresh", "single": False, "files": [
            {"path": ["g%d" % i], "size": sz, "mode": "const", "seed": 40 + i} for i, sz in enumerate(sizes)]}, "P": None, "route": "lib"})
    return cases


def run_case(case):
    tree = case["tree"]
    P = case["P"]
    target.reset()
    with sandbox.Scratch("c15") as scr:
        root = common.make(scr, tree)
        out = os.path.join(scr, "out", "o.torrent")
        try:
            m = common.create("TorrentFile", case["route"], root, out, P, case.get("progress", 0), extra_kw={"align": True},
                              extra_cli=["--align"])
        except Exception as e:
            return Outcome(Violation("C15:exception:%s" % type(e).__name__, "create raised %r" % (e,)), True, ["exception"])
        first = judge(m, tree, P)
        if first.violation is not None or not case.get("again"):
            return first
        tree2 = common.apply_second_act(tree, root, case["again"])
        if tree2 is None:
            return first
        try:
            m2 = common.create("TorrentFile", case["route"], root, os.path.join(scr, "out", "again.torrent"), P,
                               case.get("progress", 0), extra_kw={"align": True}, extra_cli=["--align"])
        except Exception as e:
            return Outcome(Violation("C15:again:exception:%s" % type(e).__name__, "second create raised %r" % (e,)), True)
        second = judge(m2, tree2, P)
        if second.violation is not None:
            v = second.violation
            return Outcome(Violation("C15:again:" + v.sig.split(":", 1)[1], "second create in the same process after rewriting one file in place: " + v.msg),
                           True, list(first.classes) + ["second-act"])
        return Outcome(None, first.nontrivial, list(first.classes) + ["second-act"])


def judge(m, tree, P):
    info = m.info
    spec = common.by_path(tree)
    classes = set()
    if P is None:
        # automatic choice: everything is judged against the piece length the metafile records
        P = info.get(b"piece length")
        classes.add("auto-piece-length")
        if not isinstance(P, int) or P < 16384 or P & (P - 1):
            return Outcome(Violation("C15:auto-piece-length", "recorded piece length %r" % (P,)), True)
    if info.get(b"piece length") != P:
        return Outcome(Violation("C15:piece-length", "recorded %r requested %d" % (info.get(b"piece length"), P)), True)
    pieces = info.get(b"pieces")
    if not isinstance(pieces, bytes):
        return Outcome(Violation("C15:no-pieces", "no piece string"), True)
    if tree["single"]:
        f = tree["files"][0]
        classes.add("single-short" if f["size"] % P else "single-exact")
        if b"files" in info or info.get(b"length") != f["size"]:
            return Outcome(Violation("C15:single:shape", "single file must be described by info.length alone"), True, classes)
        ref = hashing.v1_pieces([sandbox.file_bytes(f)], P)
        if pieces != ref:
            return Outcome(Violation("C15:single:pieces", "single-file align: pieces are not the hashing of the file alone (size %d, P %d)" % (
                f["size"], P)), True, classes)
        return Outcome(None, bool(f["size"] % P), sorted(classes))
    try:
        entries = m.v1_entries()
    except vmeta.MetaError as e:
        return Outcome(Violation("C15:malformed", str(e)), True)
    if entries is None:
        return Outcome(Violation("C15:multi:no-files", "directory without info.files"), True)
    real = sorted(("/".join(c), ln) for c, ln, pad in entries if not pad)
    if real != sorted((k, f["size"]) for k, f in spec.items()):
        return Outcome(Violation("C15:multi:files-vs-disk", "non-pad entries differ from the files on disk"), True)
    off = 0
    chunks = []
    prev_pad = False
    nontrivial = False
    nreal = sum(1 for e in entries if not e[2])
    seen_real = 0
    for comps, ln, pad in entries:
        if pad:
            gap = -off % P
            if prev_pad or seen_real == 0:
                return Outcome(Violation("C15:multi:pad-placement", "pad entry not directly after a payload file"), True, classes)
            if ln != gap or gap == 0:
                shape = "after-empty" if last_len == 0 else ("size<P" if last_len < P else ("size==kP" if last_len % P == 0 else "size>P"))
                return Outcome(Violation("C15:multi:pad-length:%s" % shape,
                                         "pad after a %d-byte file is %d bytes, gap to the next boundary is %d (P=%d)" % (
                                             last_len, ln, gap, P)), True, classes)
            chunks.append(bytes(ln))
            classes.add("pad")
        else:
            if off % P:
                return Outcome(Violation("C15:multi:unaligned", "file %r starts at offset %d, not a multiple of P=%d" % (comps, off, P)), True, classes)
            f = spec["/".join(comps)]
            chunks.append(sandbox.file_bytes(f))
            seen_real += 1
            last_len = ln
            if ln == 0:
                classes.add("empty-file")
            elif ln % P == 0:
                classes.add("file==k*P")
            elif ln > P:
                classes.add("size>P-with-remainder")
            else:
                classes.add("size<P")
            if ln % P and seen_real < nreal:
                nontrivial = True
        prev_pad = pad
        off += ln
    if entries and entries[-1][2]:
        classes.add("trailing-pad")
    ref = hashing.v1_pieces(chunks, P)
    if len(pieces) != len(ref):
        return Outcome(Violation("C15:multi:piece-count", "listed lengths account for %d pieces, %d recorded" % (
            len(ref) // 20, len(pieces) // 20)), True, classes)
    if pieces != ref:
        return Outcome(Violation("C15:multi:pieces", "pieces != SHA-1 slicing of the listed stream with pads as zeros"), True, classes)
    return Outcome(None, nontrivial, sorted(classes))
