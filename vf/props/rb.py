"""Shared generator / builder for the rebuild properties C13, C14."""
import os

from hypothesis import strategies as st

from vf import meta as vmeta, sandbox, target
from vf.gen import trees
from vf.instr import listdir
from vf.props import common

CREATORS = ["TorrentFile", "TorrentFile", "Assembler2", "Assembler3", "TorrentFileV2", "TorrentFileHybrid"]
DIRPOOL = ["x", "y", "z", "deep", "a"]


@st.composite
def placement(draw, nsearch):
    return {"dir": draw(st.integers(0, nsearch - 1)),
            "sub": draw(st.lists(st.sampled_from(DIRPOOL), min_size=0, max_size=3))}


@st.composite
def rebuild_case(draw, tier, prepopulate=False, partial_decoys=False):
    ntor = draw(st.sampled_from([1, 1, 1, 2, 3]))
    nsearch = draw(st.integers(1, 3))
    torrents = []
    for ti in range(ntor):
        P = draw(st.sampled_from([16384, 16384, 32768]))
        t = draw(trees.tree(P, max_files=5 if tier == "quick" else 9, modes=trees.MODES_NZ, big=False, nonempty_total=True))
        t = dict(t)
        t["name"] = "%s-t%d" % (t["name"], ti)
        creator = draw(st.sampled_from(CREATORS))
        # the tool's own `--align` output (v1 with BEP 47 padding entries): padding is zeros, never a file to look for
        align = creator == "TorrentFile" and not t["single"] and draw(st.sampled_from([True, False, False]))
        if draw(st.sampled_from([True] + [False] * 14)):
            for f in t["files"]:
                f["size"] = 0          # a torrent of empty files only (no piece at all in v1)
        if not t["single"] and len(t["files"]) == 1:
            if t["files"][0]["path"] == [t["name"]]:
                t["files"][0]["path"] = [t["name"] + "~f"]
            if creator in ("TorrentFile", "Assembler3", "TorrentFileHybrid") and draw(st.booleans()):
                # "directory x holding only file x": unambiguous for v1 and hybrid (they have info.files)
                t["files"][0]["path"] = [t["name"]]
        files = []
        for f in t["files"]:
            e = {"place": draw(placement(nsearch)), "decoy": None, "pre": "none"}
            if f["size"] > 0 and draw(st.sampled_from([True] + [False] * 2)):
                e["decoy"] = draw(placement(nsearch))
                # the decoy (or the intact copy) may sit exactly where the torrent itself would put the file:
                # <search dir>/<torrent name>/<relative path> - a stale earlier download next to the good copy elsewhere (round 8)
                where = draw(st.sampled_from(["decoy", "decoy", "real", None, None, None, None, None]))
                if where == "decoy":
                    e["decoy"] = dict(e["decoy"], inplace=True)
                elif where == "real":
                    e["place"] = dict(e["place"], inplace=True)
                # 'all': every byte differs (C14's decoy); the partial kinds agree with the real file in some pieces
                e["decoy_kind"] = draw(st.sampled_from(["all", "all", "all", "same-first-piece", "same-tail", "one-byte"])) if partial_decoys else "all"
            if prepopulate:
                e["pre"] = draw(st.sampled_from(["none", "none", "correct", "wrong-full", "shorter", "shorter-wrong", "sparse-full", "dir-in-the-way", "symlink-to-unrelated"]))
                if e["decoy"] is not None:
                    # the intact copy may be missing altogether: only the decoy carries the name (C14 must hold then, too)
                    e["real_absent"] = draw(st.sampled_from([True] + [False] * 3))
            files.append(e)
        if prepopulate and not t["single"] and len(t["files"]) >= 2 and draw(st.sampled_from([True] + [False] * 7)):
            # one base name recorded with two different lengths in the same run, while the search directories hold an intact copy
            # of only one of them (anything remembered per *name* instead of per name and length goes wrong here)
            a, b = t["files"][0], t["files"][1]
            b["path"] = ["twin-dir", a["path"][-1]]
            if b["size"] == a["size"]:
                b["size"] = a["size"] + 1 + draw(st.integers(0, 3))
            if a["size"] > 0:
                files[0]["decoy"] = files[0]["decoy"] or draw(placement(nsearch))
                files[0].setdefault("decoy_kind", "all")
                files[0]["real_absent"] = True
        if prepopulate and not t["single"] and len(t["files"]) >= 2 and draw(st.sampled_from([True] + [False] * 7)):
            # a listed file named like a staging / backup sibling of another listed file (X and X.part, X.tmp, X~ ...): the sibling
            # already complete in the destination, X still to be placed, no other copy of the sibling among the sources (round 8)
            a, b = t["files"][-2], t["files"][-1]
            newpath = a["path"][:-1] + [a["path"][-1] + draw(st.sampled_from([".part", ".tmp", "~", ".bak", ".new", ".!qB", ".1"]))]
            if a["size"] > 0 and b["size"] > 0 and all(f["path"] != newpath for f in t["files"]) and len(newpath[-1]) < 200:
                b["path"] = newpath
                files[-1].update({"pre": "correct", "real_absent": True, "decoy": None})
                files[-2]["pre"] = "none"
        torrents.append({"tree": t, "P": P, "creator": creator, "files": files, "align": align})
    unrelated = draw(st.lists(st.tuples(placement(nsearch), trees.name_component(), st.integers(0, 3000)), max_size=3))
    case = {"torrents": torrents, "nsearch": nsearch,
            "unrelated": [{"place": p, "name": n, "size": s} for p, n, s in unrelated],
            "order": draw(st.sampled_from([0, 1, 2, 3, 5, 8])),
            "metafiles_as_dir": draw(st.booleans()),
            "dest_via_symlink": draw(st.sampled_from([False, False, False, True])),
            # how the destination is named on the call: absolute, relative to its parent, or "." from inside it
            "dest_spelling": draw(st.sampled_from(["abs", "abs", "abs", "abs", "rel", "dot"]))}
    if prepopulate:
        case["repeats"] = draw(st.integers(1, 3))
        # between two rebuilds: a source file is replaced in place by its every-byte-different decoy (same size, old
        # timestamps restored) and the copy already placed in the destination is deleted by the user
        case["swap_between"] = draw(st.sampled_from([None, None, {"torrent": draw(st.integers(0, 2)), "file": draw(st.integers(0, 8))}]))
        case["dest_unrelated"] = draw(st.lists(st.tuples(trees.name_component(), st.integers(0, 2000)), max_size=2))
    return case


def decoy_bytes(data, kind="all", P=16384):
    other = bytes(b ^ 0x55 for b in data)
    if kind == "same-first-piece" and len(data) > P:
        return data[:P] + other[P:]
    if kind == "same-tail" and len(data) > P:
        return other[:len(data) - P] + data[len(data) - P:]
    if kind == "one-byte" and len(data) > 1:
        i = len(data) // 2
        return data[:i] + other[i:i + 1] + data[i + 1:]
    return other


def basename_of(tree, f):
    return tree["name"] if tree["single"] else f["path"][-1]


def _resolve(place, tree, f):
    """Placement with the sub-directory the torrent itself would use, if asked for."""
    if place.get("inplace"):
        return dict(place, sub=[] if tree["single"] else [tree["name"]] + list(f["path"][:-1]))
    return place


def _place(base_dirs, place, name, data, taken):
    d = os.path.join(base_dirs[place["dir"]], *place["sub"])
    k = 0
    p = os.path.join(d, name)
    while p in taken or os.path.isdir(p) or _blocked(d, base_dirs[place["dir"]]):
        k += 1
        d = os.path.join(base_dirs[place["dir"]], "n%d" % k, *place["sub"])
        p = os.path.join(d, name)
    os.makedirs(d, exist_ok=True)
    with open(p, "wb") as fd:
        fd.write(data)
    taken.add(p)
    return p


def _blocked(d, base):
    """True if some path component of d (below base) exists as a file."""
    cur = base
    for part in os.path.relpath(d, base).split(os.sep):
        if part == ".":
            continue
        cur = os.path.join(cur, part)
        if os.path.isfile(cur):
            return True
    return False


def build(scr, case):
    """Create metafiles (from pristine payload copies that are then deleted), scatter files; returns layout dict."""
    orig = os.path.join(scr, "orig")
    mdir = os.path.join(scr, "metafiles [to re-seed] *")      # a folder name that is also a shell pattern
    os.makedirs(orig)
    os.makedirs(mdir)
    search = [os.path.join(scr, "search%d" % i) for i in range(case["nsearch"])]
    for s in search:
        os.makedirs(s)
    metas = []
    taken = set()
    sources = {}   # basename -> list of bytes available in the search dirs (real copies only)
    placed_at = {}   # (torrent index, file index) -> path of the real copy in the search dirs
    placed_at_idx = {}
    decoys = []    # (basename, bytes)
    partial = []   # (basename, bytes) of decoys that share some pieces with the real file
    for ti, tor in enumerate(case["torrents"]):
        tree = tor["tree"]
        root = sandbox.materialize(tree, orig)
        mf = os.path.join(mdir, "t%d.torrent" % ti)
        common.create(tor["creator"], "lib", root, mf, tor["P"], extra_kw={"align": True} if tor.get("align") else None)
        metas.append(mf)
    import shutil
    shutil.rmtree(orig)
    for ti, tor in enumerate(case["torrents"]):
        tree = tor["tree"]
        for f, e in zip(tree["files"], tor["files"]):
            name = basename_of(tree, f)
            data = sandbox.file_bytes(f)
            idx = len(placed_at_idx.setdefault(ti, []))
            placed_at_idx[ti].append(1)
            if not e.get("real_absent"):
                placed_at[(ti, idx)] = _place(search, _resolve(e["place"], tree, f), name, data, taken)
                sources.setdefault(name, []).append(data)
            if e["decoy"] is not None:
                kind = e.get("decoy_kind", "all")
                dd = decoy_bytes(data, kind, tor["P"])
                _place(search, _resolve(e["decoy"], tree, f), name, dd, taken)
                if dd == decoy_bytes(data):
                    decoys.append((name, dd))          # every byte differs
                else:
                    partial.append((name, dd))         # agrees with the real file somewhere
    for u in case["unrelated"]:
        _place(search, u["place"], u["name"], sandbox.content("rnd", u["size"], u["size"]), taken)
    return {"metafiles": metas, "metadir": mdir, "search": search, "sources": sources, "decoys": decoys, "partial": partial, "placed_at": placed_at}


def run_rebuild(layout, case, dest):
    """Run Assembler under the drawn enumeration order; returns (count, exception)."""
    mfs = [layout["metadir"]] if case["metafiles_as_dir"] else list(layout["metafiles"])
    asm = None
    old_cwd = os.getcwd()
    sp = case.get("dest_spelling", "abs")
    if sp == "dot":
        os.chdir(dest)
        dest = "."
    elif sp == "rel":
        os.chdir(os.path.dirname(dest))
        dest = os.path.basename(dest)
    try:
        with target.quiet(), listdir.ListdirOrder(case["order"]):
            asm = target.rebuild.Assembler(mfs, list(layout["search"]), dest)
            return asm.assemble_torrents(), None
    except Exception as e:  # noqa: BLE001
        # drop the frames (and whatever huge structures they hold) before going on: a runaway loop in the code under
        # test that ended in MemoryError must not starve the harness afterwards
        e.__traceback__ = None
        asm = None
        import gc
        gc.collect()
        return None, e
    finally:
        os.chdir(old_cwd)


def listed_files(m):
    """[(relative path under dest incl. name, length)] for every non-pad file a metafile lists."""
    name = m.name()
    out = []
    if m.is_v2():
        leaves = m.tree_leaves()
        single = len(leaves) == 1 and leaves[0][0] == [name] and b"files" not in m.info
        for comps, ln, _, _ in leaves:
            out.append((os.path.join(*comps) if single else os.path.join(name, *comps), ln))
        return out
    es = m.v1_entries()
    if es is None:
        return [(name, m.info[b"length"])]
    return [(os.path.join(name, *c), ln) for c, ln, pad in es if not pad]


def make_dest(scr, case):
    """The destination directory; optionally reached through a symbolic link in its parent path."""
    real = os.path.join(scr, "dest-real")
    os.makedirs(os.path.join(real, "d"))
    if case.get("dest_via_symlink"):
        os.symlink(real, os.path.join(scr, "dest-link"))
        return os.path.join(scr, "dest-link", "d")
    return os.path.join(real, "d")
