"""C13 - rebuild restores the complete torrent when intact copies are available."""
import os

from vf import meta as vmeta, sandbox, target
from vf.engine import Outcome, Violation
from vf.props import rb
from vf.ref import recheck as refcheck

ID = "C13"
LEVEL = "exploration"
TECHNIQUE = "Hypothesis-generated scattered sources (1..3 torrents over 1..3 search directories at depths 0..3, decoys, unrelated files, harness-owned enumeration order) rebuilt into a fresh destination; oracle: independent reference verification of the destination, presence/length of every listed file, returned count ; decoys that agree with the real file in some pieces; destination reached through a symlink"
RULE = ("Cases: 1..3 torrents (tree of non-zero bytes x P x creator incl. v1, v2, hybrid; own default metafiles) whose files are scattered "
        "under their own names over 1..3 search directories at drawn depths, next to unrelated files and decoys (same name, same size, "
        "every byte different, or agreeing with the real file in its first piece / its tail / all but one byte; decoy or intact copy optionally exactly at <search dir>/<torrent name>/<relative path>, where a stale earlier download would sit) with the directory enumeration order forced (sorted / reverse / hashed) so the decoy is met before or "
        "after the real file; metafiles passed as a list or as their directory; fresh destination named absolutely, relatively or as '.'; files whose pieces root is valid UTF-8; plus a grid case with ten same-named 3-byte files and six empty files sharing one piece. Oracle after Assembler(...)."
        "assemble_torrents(): reference verifier reports 100% for every metafile against dest/<name>; every listed path exists with "
        "its exact length (absent empty files are reported in their own bucket); returned count <= number of listed files present in "
        "the destination. Non-trivial: >=2 files with a file ending exactly on a piece boundary, or several files in one directory, or "
        "a decoy present, or v2/hybrid. Distinct = distinct canonical case JSON.")
ASSUMPTIONS = [
    "vf/ref/recheck.py reference verifier; own metafiles are correct per C01-C03",
    "payload bytes are non-zero (or the whole torrent consists of empty files); metafiles are the tool's own output, plain or aligned (--align)",
    "BEP 52 cannot tell a directory holding one same-named file from a single file: such trees are not generated",
]
BUDGET = {
    "quick": {"examples": 300, "workers": 8, "time_cap": 80},
    "thorough": {"examples": 6000, "workers": 14, "time_cap": 900},
}


def strategy(tier):
    return rb.rebuild_case(tier, prepopulate=False, partial_decoys=True)


GRID_DESC = {
    "quick": "one v1 torrent with ten same-named, same-sized 3-byte files (d00..d09/index.txt) and six empty p0x/__init__.py, all sharing one "
             "piece, intact copy under the same directory names: the candidate search must not explode combinatorially",
    "thorough": "same",
}


def grid(tier):
    files, places = [], []
    for i in range(10):
        files.append({"path": ["d%02d" % i, "index.txt"], "size": 3, "mode": "nz", "seed": 900 + i})
        places.append({"place": {"dir": 0, "sub": ["d%02d" % i]}, "decoy": None, "pre": "none"})
    for i in range(6):
        files.append({"path": ["p%02d" % i, "__init__.py"], "size": 0, "mode": "nz", "seed": 0})
        places.append({"place": {"dir": 0, "sub": ["p%02d" % i]}, "decoy": None, "pre": "none"})
    files.append({"path": ["z-last.bin"], "size": 20000, "mode": "nz", "seed": 77})
    places.append({"place": {"dir": 0, "sub": []}, "decoy": None, "pre": "none"})
    tree = {"name": "pkg-t0", "single": False, "files": files}
    cases = [{"torrents": [{"tree": tree, "P": 16384, "creator": "TorrentFile", "files": places}], "nsearch": 1, "unrelated": [],
              "order": 0, "metafiles_as_dir": False, "dest_via_symlink": False, "dest_spelling": "abs"}]
    # the same with the distinguishing directory one level further up: pkg/mNN/docs/index.txt (every immediate parent is "docs")
    files2, places2 = [], []
    for i in range(9):
        files2.append({"path": ["m%02d" % i, "docs", "index.txt"], "size": 3, "mode": "nz", "seed": 800 + i})
        places2.append({"place": {"dir": 0, "sub": ["m%02d" % i, "docs"]}, "decoy": None, "pre": "none"})
    files2.append({"path": ["z-last.bin"], "size": 20000, "mode": "nz", "seed": 78})
    places2.append({"place": {"dir": 0, "sub": []}, "decoy": None, "pre": "none"})
    cases.append({"torrents": [{"tree": {"name": "doc-t0", "single": False, "files": files2}, "P": 16384, "creator": "TorrentFile", "files": places2}],
                  "nsearch": 1, "unrelated": [], "order": 0, "metafiles_as_dir": False, "dest_via_symlink": False, "dest_spelling": "abs"})
    return cases


def classes_of(case):
    cls = set()
    for tor in case["torrents"]:
        t, P = tor["tree"], tor["P"]
        cls.add("v1" if tor["creator"] == "TorrentFile" else ("hybrid" if tor["creator"] in ("Assembler3", "TorrentFileHybrid") else "v2"))
        if t["single"]:
            cls.add("single-file")
        sizes = [f["size"] for f in t["files"]]
        if len(sizes) >= 2 and any(s and s % P == 0 for s in sizes):
            cls.add("file-ends-on-boundary")
        if any(s == 0 for s in sizes):
            cls.add("empty-file")
        dirs = [tuple(f["path"][:-1]) for f in t["files"]]
        if len(dirs) != len(set(dirs)):
            cls.add("several-files-in-one-dir")
        if any(e["decoy"] is not None for e in tor["files"]):
            cls.add("decoy")
    if len(case["torrents"]) > 1:
        cls.add("multi-torrent")
    return cls


def run_case(case):
    target.reset()
    cls = classes_of(case)
    nontrivial = bool(cls & {"file-ends-on-boundary", "several-files-in-one-dir", "decoy", "v2", "hybrid"})
    with sandbox.Scratch("c13") as scr:
        try:
            layout = rb.build(scr, case)
        except Exception as e:
            return Outcome(Violation("C13:setup-exception:%s" % type(e).__name__, "creating metafiles raised %r" % (e,)), False)
        dest = rb.make_dest(scr, case)
        if case.get("dest_via_symlink"):
            cls.add("dest-via-symlink")
        if layout["partial"]:
            cls.add("partial-decoy")
        count, exc = rb.run_rebuild(layout, case, dest)
        vtag = "+".join(sorted(cls & {"v1", "v2", "hybrid"}))
        if exc is not None:
            return Outcome(Violation("C13:%s:exception:%s" % (vtag, type(exc).__name__), "rebuild raised %r" % (exc,)), True, sorted(cls))
        present = 0
        for mf, tor in zip(layout["metafiles"], case["torrents"]):
            m = vmeta.Meta.from_file(mf)
            ver = "v1" if tor["creator"] == "TorrentFile" else ("hybrid" if tor["creator"] in ("Assembler3", "TorrentFileHybrid") else "v2")
            shape = "single" if tor["tree"]["single"] else "dir"
            missing_nonempty, missing_empty, wrong_len = [], [], []
            for rel, ln in rb.listed_files(m):
                p = os.path.join(dest, rel)
                if os.path.isfile(p):
                    present += 1
                    if os.path.getsize(p) != ln:
                        wrong_len.append(rel)
                    elif layout["partial"] and ver == "v1":
                        with open(p, "rb") as fd:
                            got = fd.read()
                        if any(n == os.path.basename(rel) and d == got for n, d in layout["partial"]):
                            # known finding (KNOWN_FINDINGS.txt): v1 rebuild keeps the first candidate that verified ONE piece of the file
                            return Outcome(Violation("C13:v1:partial-decoy-placed",
                                                     "v1 rebuild placed a same-named same-sized file that agrees with the real one in some pieces only (%s), "
                                                     "although the intact copy is available" % rel), True, sorted(cls))
                elif ln == 0:
                    missing_empty.append(rel)
                else:
                    missing_nonempty.append(rel)
            if missing_nonempty or wrong_len:
                extra = ""
                if "decoy" in cls:
                    extra = ":decoy"
                elif "file-ends-on-boundary" in cls and ver == "v1":
                    extra = ":boundary"
                return Outcome(Violation("C13:%s:%s:missing-files%s" % (ver, shape, extra),
                                         "after rebuild %d listed file(s) are missing and %d have the wrong length under the destination (e.g. %r); count returned %r" % (
                                             len(missing_nonempty), len(wrong_len), (missing_nonempty + wrong_len)[:2], count)), True, sorted(cls))
            root = os.path.join(dest, tor["tree"]["name"])
            ref = refcheck.verify(m, root)
            if ref.percent is not None and ref.percent != 100:
                return Outcome(Violation("C13:%s:%s:not-verifying" % (ver, shape), "destination verifies only %.3f%% against the metafile" % ref.percent), True, sorted(cls))
            if missing_empty:
                return Outcome(Violation("C13:%s:%s:missing-empty-only" % (ver, shape), "empty file(s) %r were not recreated" % (missing_empty[:3],)), True, sorted(cls))
        if not isinstance(count, int) or count > present:
            return Outcome(Violation("C13:%s:count" % vtag, "rebuild counted %r files, only %d listed files are present in the destination" % (count, present)), True, sorted(cls))
    return Outcome(None, nontrivial, sorted(cls))
