"""C16 - recheck percentage is the exact share of bytes in verifying pieces."""
from vf import meta as vmeta, sandbox, target
from vf.engine import HarnessError, Outcome, Violation
from vf.gen import trees
from vf.props import rk
from vf.props.c04 import damage_classes
from vf.ref import recheck as refcheck

ID = "C16"
LEVEL = "exploration"
TECHNIQUE = "Hypothesis-generated payloads of non-zero bytes x own/reference metafiles x 0..5 damages; differential of Checker.results() and of the per-piece verdict stream of Checker.iter_hashes() against an independent reference verifier ; optional prime run; deterministic large-piece grid"
RULE = ("Cases: as C04 (non-zero payload bytes, so no absent region is all-zero) with 0..5 damages. Oracle: reference verifier (v1: "
        "pieces of the virtual stream with pads and absent bytes as zeros; v2/hybrid: per-file pieces hashed by the BEP 52 piece rule); "
        "|Checker.results() - 100*sum(size of verifying pieces)/total| <= 1e-9, and the multiset of (verdict, size) pairs yielded by "
        "Checker.iter_hashes() equals the reference's, so damage confined to one piece changes no other verdict. Non-trivial: "
        "0 < reference < 100 with an intact piece downstream of a damaged or missing one. Distinct = distinct canonical case JSON.")
ASSUMPTIONS = [
    "payload bytes are non-zero (the domain the property states: no absent region is all-zero)",
    "vf/ref/recheck.py reference verifier (BEP 52 piece rule from vf/ref/hashing.py, self-checked); vf/ref/metafile.py",
    "floating-point: both sides evaluate matched/total*100 in IEEE doubles; tolerance 1e-9 absolute",
]
BUDGET = {
    "quick": {"examples": 450, "workers": 8, "time_cap": 70},
    "thorough": {"examples": 12000, "workers": 14, "time_cap": 900},
}


GRID_DESC = "deterministic large-piece cases: piece length 2 MiB and 32 MiB with files of 1..17 MiB (sizes around 1 MiB / 16 MiB inside one piece), v1/v2/hybrid"


def grid(tier):
    return rk.big_piece_grid(True)


def strategy(tier):
    return rk.case_strategy(tier, trees.MODES_NZ, 0, 5)


def run_case(case):
    target.reset()
    with sandbox.Scratch("c16") as scr:
        try:
            root, parent, mf = rk.build(scr, case)
            m = vmeta.Meta.from_file(mf)
        except Exception as e:
            return Outcome(Violation("C16:setup-exception:%s" % type(e).__name__, "creating the metafile raised %r" % (e,)), False)
        if case.get("prime"):
            rk.tool_recheck(mf, rk.content_of(case, root, parent))     # first use, on the intact payload
        changed = rk.apply_damage(root, case["tree"], case["damage"], keep_mtime=bool(case.get("prime")))
        ref = refcheck.verify(m, root)
        if ref.percent is None:
            raise HarnessError("empty payload generated: %r" % (case,))
        if not changed and ref.percent != 100:
            raise HarnessError("reference verifier reports %r for intact content: %r" % (ref.percent, case))
        classes = rk.shape_classes(case, m) + damage_classes(case, changed)
        content = parent if case["content_path"] == "parent" else root
        pct, exc = rk.tool_recheck(mf, rk.content_of(case, root, parent))
        stream = None
        if exc is None:
            try:
                with target.quiet():
                    chk = target.recheck.Checker(mf, content)
                    it = chk.iter_hashes()
                    peek = [next(it, None) for _ in range(2)]      # a front end that looks at the first results and gives up
                    del it
                    stream = [(bytes(a) == bytes(b), size) for a, b, _, size in chk.iter_hashes()]
                    again = chk.results()                          # the same object asked once more
            except Exception as e:  # noqa: BLE001
                exc = e
    ver = classes[0]
    tag = "%s:%s" % (ver, case["meta"]["kind"])
    if "empty-file" in classes:
        tag += ":empty-file"
    verdicts = ref.verdicts()
    downstream_ok = any((not a) and any(verdicts[i + 1:]) for i, a in enumerate(verdicts))
    nontrivial = 0 < ref.percent < 100 and downstream_ok
    if nontrivial:
        classes.append("intact-piece-downstream-of-damage")
    classes.append("ref=100" if ref.percent == 100 else ("ref=0" if ref.percent == 0 else "0<ref<100"))
    if exc is not None:
        return Outcome(Violation("C16:%s:exception:%s" % (tag, type(exc).__name__), "recheck raised %r" % (exc,)), True, classes)
    if abs(pct - ref.percent) > 1e-9:
        direction = "too-high" if pct > ref.percent else "too-low"
        return Outcome(Violation("C16:%s:pct-%s" % (tag, direction), "recheck reports %r, exact share of bytes in verifying pieces is %r (%d of %d pieces verify)" % (
            pct, ref.percent, sum(verdicts), len(verdicts))), True, classes)
    if exc is None and abs(again - ref.percent) > 1e-9:
        return Outcome(Violation("C16:%s:reused-checker" % tag, "a Checker object asked a second time reports %r, the exact share is %r" % (again, ref.percent)), True, classes)
    want = sorted((ok, size) for ok, size, _ in ref.pieces)
    if sorted(stream) != want:
        return Outcome(Violation("C16:%s:verdict-stream" % tag, "iter_hashes() verdict/size stream differs from the reference although the percentage agrees"), True, classes)
    return Outcome(None, nontrivial, classes)
