"""Shared generator / builder for the recheck properties C04, C05, C16."""
import os

from hypothesis import strategies as st

from vf import meta as vmeta, sandbox, target
from vf.gen import trees
from vf.props import common
from vf.ref import metafile as refmeta

PARENT = "parent-dir-of-the-payload-under-verification"   # longer than any generated name: never equals the payload name
OWN = ["TorrentFile", "Assembler2", "Assembler3", "TorrentFileV2", "TorrentFileHybrid"]


@st.composite
def meta_source(draw, nfiles, single):
    if draw(st.booleans()):
        src = {"kind": "own", "creator": draw(st.sampled_from(OWN))}
        if src["creator"] == "TorrentFile" and not single and draw(st.booleans()):
            src["align"] = True          # the tool's own `--align` output: v1 with BEP 47 padding entries
        return src
    version = draw(st.sampled_from([1, 1, 2, 3]))
    src = {"kind": "ref", "version": version, "order": None, "align": False, "trailing_pad": False,
           "v2_single_length": False}
    if version == 1 and not single:
        if draw(st.booleans()):
            src["order"] = list(draw(st.permutations(list(range(nfiles)))))
        # True: aligned to the piece length; 2 / 4: to a multiple of it (pads longer than the room left in their piece, round 8)
        src["align"] = draw(st.sampled_from([False, False, True, True, 2, 4]))
        src["trailing_pad"] = draw(st.booleans())
    if version == 3:
        src["trailing_pad"] = draw(st.booleans())
    if version == 2 and single:
        src["v2_single_length"] = draw(st.sampled_from([False, False, True]))
    return src


@st.composite
def damage_list(draw, tree, min_size=1, max_size=4):
    nonempty = [i for i, f in enumerate(tree["files"]) if f["size"] > 0]
    if not nonempty:
        return []
    ops = ["flip", "flip", "trunc", "remove"] if not tree["single"] else ["flip", "flip", "trunc"]
    out = []
    if min_size <= 1 and draw(st.sampled_from([True] + [False] * 3)):
        # focused damage: one deep truncation of the largest file (the lost tail lies beyond the first piece-sized read;
        # with periodic content a reader that recycles its buffer sees "the same" bytes again)
        fi = max(nonempty, key=lambda i: tree["files"][i]["size"])
        size = tree["files"][fi]["size"]
        lo = min(size - 1, 16384 + draw(st.integers(0, 40000)))
        return [{"op": "trunc", "file": fi, "keep": draw(st.sampled_from([size - 1, lo, (lo + size) // 2]))}]
    n = draw(st.integers(min_size, max_size))
    for _ in range(n):
        op = draw(st.sampled_from(ops))
        fi = draw(st.sampled_from(nonempty))
        size = tree["files"][fi]["size"]
        if op == "flip":
            where = draw(st.sampled_from(["first", "last", "any", "any"]))
            off = 0 if where == "first" else (size - 1 if where == "last" else draw(st.integers(0, size - 1)))
            out.append({"op": "flip", "file": fi, "off": off, "mask": draw(st.integers(1, 255))})
        elif op == "trunc":
            keep = draw(st.one_of(st.sampled_from([0, size - 1]), st.integers(0, size - 1)))
            out.append({"op": "trunc", "file": fi, "keep": keep})
        else:
            out.append({"op": "remove", "file": fi})
    return out


def case_strategy(tier, modes, damage_min, damage_max, max_files=None):
    @st.composite
    def case(draw):
        P = draw(trees.piece_length(tier))
        t = draw(trees.tree(P, max_files=max_files or (7 if tier == "quick" else 16), modes=modes, nonempty_total=True))
        src = draw(meta_source(len(t["files"]), t["single"]))
        if draw(st.sampled_from([True] + [False] * 14)):
            # the tool's aligned output names its padding entries .pad/<length>: a payload that really contains a file of
            # that very name (say, left behind by a client that materialises padding) meets its own padding entry
            P = 32768
            mode = "nz" if "nz" in modes else modes[0]
            t = {"name": t["name"], "single": False, "files": [
                {"path": [".pad", "16384"], "size": 16384, "mode": mode, "seed": draw(st.integers(0, 999))},
                {"path": ["a.bin"], "size": draw(st.sampled_from([1, 16384, 40000])), "mode": mode, "seed": draw(st.integers(0, 999))}]}
            src = {"kind": "own", "creator": "TorrentFile", "align": True}
        if damage_max and "nz" in modes and draw(st.sampled_from([True] + [False] * 14)):
            # a two-piece v1 torrent whose whole piece string is valid UTF-8 with multi-byte characters (a lenient decoder hands it
            # back as text: fewer characters than bytes); the damage below then sits in the trailing piece
            P = 16384
            t = {"name": t["name"], "single": False, "files": [
                {"path": ["p1"], "size": 16384, "mode": "nz", "seed": draw(st.sampled_from([68539, 330530]))},
                dict(zip(("size", "seed"), draw(st.sampled_from([(7, 188267), (100, 13065), (5000, 64089)]))), path=["p2"], mode="nz")]}
            src = {"kind": "own", "creator": "TorrentFile"}
        dmg = draw(damage_list(t, damage_min, damage_max)) if damage_max else []
        return {"tree": t, "P": P, "meta": src, "content_path": draw(st.sampled_from(["root", "parent", "root", "parent", "root-symlink", "root-dot", "root-slash-dot", "root-rel", "link-dotdot"])), "damage": dmg,
                # "prime": the same process first rechecks the intact payload; the damage is then applied in place with the
                # old timestamps restored (bit rot, cp -p), so anything remembered per file from the first run is stale
                "prime": draw(st.sampled_from([False, False, True])) if dmg else False}
    return case()


def build(scr, case):
    """Materialise payload + metafile; returns (root path, parent path, metafile path)."""
    tree, P, src = case["tree"], case["P"], case["meta"]
    parent = os.path.join(scr, PARENT)
    os.makedirs(parent)
    os.makedirs(os.path.join(scr, "out"))
    root = sandbox.materialize(tree, parent)
    out = os.path.join(scr, "out", "m.torrent")
    if src["kind"] == "own":
        common.create(src["creator"], "lib", root, out, P, extra_kw={"align": True} if src.get("align") else None)
    else:
        data = refmeta.build(tree, P, src["version"], order=src.get("order"), align=src.get("align", False),
                             trailing_pad=src.get("trailing_pad", False),
                             v2_single_length=src.get("v2_single_length", False))
        with open(out, "wb") as fd:
            fd.write(data)
    if case.get("content_path") == "root-symlink":
        # the payload lives under another name; the path the user gives is a symbolic link that carries the torrent's name
        real = os.path.join(parent, "stored-as-" + tree["name"])
        os.rename(root, real)
        os.symlink(os.path.basename(real), root)
    return root, parent, out


def apply_damage(root, tree, damage, keep_mtime=False):
    """Apply the damage list to the on-disk copy; returns set of file indices actually changed."""
    changed = set()
    stamps = {}
    if keep_mtime:
        for f in tree["files"]:
            p = root if tree["single"] else os.path.join(root, *f["path"])
            if os.path.exists(p):
                stamps[p] = os.stat(p)
    try:
        return _apply_damage(root, tree, damage, changed)
    finally:
        for p, st0 in stamps.items():
            if os.path.exists(p):
                os.utime(p, ns=(st0.st_atime_ns, st0.st_mtime_ns))


def _apply_damage(root, tree, damage, changed):
    for d in damage:
        f = tree["files"][d["file"]]
        path = root if tree["single"] else os.path.join(root, *f["path"])
        if d["op"] == "remove":
            if os.path.exists(path):
                os.remove(path)
                changed.add(d["file"])
        elif d["op"] == "trunc":
            if os.path.exists(path) and os.path.getsize(path) > d["keep"]:
                os.truncate(path, d["keep"])
                changed.add(d["file"])
        else:
            if os.path.exists(path) and os.path.getsize(path) > d["off"]:
                with open(path, "r+b") as fd:
                    fd.seek(d["off"])
                    b = fd.read(1)
                    fd.seek(d["off"])
                    fd.write(bytes([b[0] ^ d["mask"]]))
                changed.add(d["file"])
    # damages can cancel (the same flip twice): keep only files that really differ now
    real = set()
    for fi in changed:
        f = tree["files"][fi]
        path = root if tree["single"] else os.path.join(root, *f["path"])
        if not os.path.exists(path):
            real.add(fi)
            continue
        with open(path, "rb") as fd:
            if fd.read() != sandbox.file_bytes(f):
                real.add(fi)
    return real


def content_of(case, root, parent):
    """The content argument for the drawn spelling: a path, or (path, working directory) for the relative spellings."""
    cp = case["content_path"]
    if cp == "parent":
        return parent
    if cp == "root-dot" and os.path.isdir(root):
        return (".", root)                      # `cd payload; torrentfile recheck x.torrent .`
    if cp == "root-slash-dot" and os.path.isdir(root):
        return root + "/."
    if cp == "root-rel":
        return (os.path.basename(root), parent)
    if cp == "link-dotdot" and os.path.isdir(root) and not os.path.islink(root):
        # a spelling the operating system resolves, not string arithmetic: <link to the payload>/.. is the payload's parent
        lnk = os.path.join(os.path.dirname(parent), "lnk")
        if not os.path.lexists(lnk):
            os.symlink(root, lnk)
        return lnk + "/.."
    return root


def tool_recheck(metafile, content):
    """(percentage | None, exception | None)."""
    old = os.getcwd()
    try:
        if isinstance(content, tuple):
            os.chdir(content[1])
            content = content[0]
        return target.recheck_pct(metafile, content), None
    except Exception as e:  # noqa: BLE001 - the caller decides what an exception means
        return None, e
    finally:
        os.chdir(old)


def shape_classes(case, meta):
    tree, P = case["tree"], case["P"]
    cls = []
    ver = 3 if (meta.is_v2() and meta.has_v1()) else (2 if meta.is_v2() else 1)
    cls.append("v%d" % ver)
    cls.append("meta-" + case["meta"]["kind"])
    if tree["single"]:
        cls.append("single-file")
    sizes = [f["size"] for f in tree["files"]]
    if any(s == 0 for s in sizes):
        cls.append("empty-file")
    if any(s and s % P == 0 for s in sizes):
        cls.append("file-ends-on-boundary")
    if ver == 1 and len(sizes) > 1 and any(s % P for s in sizes[:-1]):
        cls.append("pieces-straddle-files")
    cls.append("path-" + case["content_path"])
    return cls


def big_piece_grid(with_damage):
    """A few deterministic large-piece cases (piece length 2 MiB and 32 MiB: larger than any plausible read buffer).

    The file sizes relate to 1 MiB / 16 MiB boundaries inside one piece; contents are constant bytes (cheap to make, non-zero)."""
    cases = []
    MiB = 1 << 20
    shapes = [
        (1 << 21, [3 * MiB, 100]), (1 << 21, [2 * MiB + MiB // 2, MiB, 5]), (1 << 21, [MiB + 7, 3 * MiB]),
        (1 << 25, [(1 << 24) + 5]), (1 << 25, [17 * MiB, 3]),
    ]
    for P, sizes in shapes:
        single = len(sizes) == 1
        files = [{"path": [] if single else ["f%d" % i], "size": s, "mode": "const", "seed": 11 + i} for i, s in enumerate(sizes)]
        tree = {"name": "big", "single": single, "files": files}
        for creator in ("TorrentFile", "Assembler2", "Assembler3"):
            if P == 1 << 25 and creator != "TorrentFile":
                continue
            for cp in ("root", "parent"):
                dmg = []
                if with_damage:
                    dmg = [{"op": "flip", "file": 0, "off": 0, "mask": 1}]
                cases.append({"tree": tree, "P": P, "meta": {"kind": "own", "creator": creator}, "content_path": cp, "damage": dmg})
        cases.append({"tree": tree, "P": P, "meta": {"kind": "ref", "version": 1, "order": None, "align": False, "trailing_pad": False,
                                                      "v2_single_length": False}, "content_path": "root",
                      "damage": [{"op": "flip", "file": 0, "off": sizes[0] - 1, "mask": 255}] if with_damage else []})
    return cases
