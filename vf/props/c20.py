"""C20 - a create option means the same via flag, configuration file or keyword."""
import locale
import os

from hypothesis import strategies as st

from vf import meta as vmeta, sandbox, target
from vf.engine import Outcome, Violation
from vf.gen import trees

ID = "C20"
LEVEL = "exploration"
TECHNIQUE = "Hypothesis-generated option subsets and values supplied through three routes (CLI flags in permuted order with the content path in any position, configuration file with the manual's key names, library keywords); the three strict-decoded metafiles must be equal minus the creation date and every option must sit in its documented field ; warm-up invocation of every route with other options, content path spellings, out inside the payload, decoy torrentfile.ini in the cwd; thorough tier adds a coverage-guided (atheris/libFuzzer) stage"
RULE = ("Cases: tree x subset and values of {announce (1-3 urls), web-seed, http-seed, private, source, comment, piece-length, meta-version, "
        "align} plus out, supplied (1) as CLI flags in a drawn order with the content path first / between / last, including directly after a "
        "list-valued flag, long and short spellings; (2) in an ini file under [config] with the long option names of the manual (announce or "
        "tracker, web-seed, http-seed, private, source, comment, piece-length, meta-version, align, out) and `create --config --config-path f "
        "<content>`; (3) as keywords to the class the CLI would choose. Oracle: each route writes its metafile exactly where `out` says; the "
        "three decoded metafiles are equal after removing 'creation date'; announce -> announce + announce-list, web-seed -> url-list, "
        "http-seed -> httpseeds, private -> info.private = 1, source/comment -> info, piece-length -> info['piece length'], meta-version -> "
        "structure, align -> piece-aligned files. Non-trivial: >= 2 options besides out, or a list-valued flag directly before the content path. "
        "Distinct = distinct canonical case JSON.")
ASSUMPTIONS = [
    "values avoid what an ini file cannot carry literally (newlines, edge whitespace, leading #/;); non-ASCII comment/source values are judged in UTF-8 locales only (the ini file is read in the locale's encoding) and a leading '-' on the command line",
    "`out` is always supplied (the default location is documented differently in manual and code and is not judged)",
    "vf/ref/bencode.py strict decoder",
]
FUZZ_RUNS = 40000   # thorough tier: libFuzzer runs per campaign of the coverage-guided stage (vf/fuzz.py)
BUDGET = {
    "quick": {"examples": 400, "workers": 8, "time_cap": 70},
    "thorough": {"examples": 10000, "workers": 14, "time_cap": 900},
}
URLS = ["http://tracker.example/announce", "udp://t2.example:6969", "https://a.b/c?d=e&f=g", "http://h:1/a;b", "u", "wss://t/#frag",
        # percent-encoded bytes: passkeys and paths carry them all the time
        "http://t.example/announce?passkey=a%2Fb", "http://w.example/my%20files/"]


def value_text():
    # comment / source are free text: the words true / false / yes / on / 1 are text there too (`--comment true` records "true")
    return st.one_of(st.sampled_from(["c", "a comment", "x=y&z", "MyTracker", "with : colon", "0", "k = v", "Season 2 #3 ; remastered", "a ;b", "x #y",
                                      "true", "false", "True", "FALSE", "yes", "on", "1", "none", "caf\u00e9 \u2615", "\u65e5\u672c\u8a9e",
                                      "100% legal", "%(source)s"]),
                     st.text(alphabet="abc XYZ09_=&+:;[]", min_size=1, max_size=12)).filter(
        lambda t: t.strip() == t and t and t[0] not in "#;-")


def url():
    # free URLs carry a scheme so that none of them can name an existing filesystem path
    return st.one_of(st.sampled_from(URLS), st.text(alphabet="abcdefg0123:/.?&=+_~", min_size=1, max_size=14).map(lambda t: "h://" + t))


def strategy(tier):
    @st.composite
    def case(draw):
        P = 16384
        version = draw(st.sampled_from(["1", "1", "2", "3"]))
        t = draw(trees.tree(P, max_files=4, cli_safe=True, big=False))
        opts = {}
        names = draw(st.lists(st.sampled_from(["announce", "web-seed", "http-seed", "private", "source", "comment", "piece-length",
                                               "meta-version", "align"]), unique=True, max_size=6))
        for n in names:
            if n in ("announce", "web-seed", "http-seed"):
                opts[n] = draw(st.lists(url(), min_size=1, max_size=3))
            elif n in ("private", "align"):
                opts[n] = True
            elif n in ("source", "comment"):
                opts[n] = draw(value_text())
            elif n == "piece-length":
                opts[n] = draw(st.sampled_from(["14", "15", "16384", "32768", "16"]))
            elif n == "meta-version":
                opts[n] = version
        order = draw(st.permutations(sorted(opts)))
        return {"tree": t, "opts": opts, "cli_order": list(order),
                "content_pos": draw(st.integers(0, len(opts) + 1)),
                "short_flags": draw(st.booleans()),
                "tracker_alias": draw(st.sampled_from([False, False, True])),
                "out_dir_form": draw(st.sampled_from([False, False, False, True])),
                "content_spelling": draw(st.sampled_from(["abs", "abs", "trailing-sep", "dot-rel", "double-sep"])),
                "out_inside_content": draw(st.sampled_from([False, False, False, True])),
                "decoy_ini_in_cwd": draw(st.sampled_from([False, False, True])),
                "relative_out": draw(st.sampled_from([False, False, True])),
                # the library keyword meta_version as the documented int instead of the string the CLI passes
                "lib_int_version": draw(st.sampled_from([False, False, True]))}
    return case()


FLAGS = {"announce": ("--announce", "-a"), "web-seed": ("--web-seed", "--web-seed"), "http-seed": ("--http-seed", "--http-seed"),
         "private": ("--private", "-p"), "source": ("--source", "-s"), "comment": ("--comment", "-c"),
         "piece-length": ("--piece-length", "--piece-length"), "meta-version": ("--meta-version", "--meta-version"),
         "align": ("--align", "--align")}


def cli_argv(case, content, out):
    opts = case["opts"]
    groups = []
    for n in case["cli_order"]:
        flag = FLAGS[n][1 if case["short_flags"] else 0]
        if n == "announce" and case["tracker_alias"]:
            flag = "--tracker"
        v = opts[n]
        if v is True:
            groups.append([flag])
        elif isinstance(v, list):
            groups.append([flag] + list(v))
        else:
            groups.append([flag, v])
    groups.append(["--out" if not case["short_flags"] else "-o", out])
    pos = min(case["content_pos"], len(groups))
    # the documented recovery of a swallowed content path needs >= 2 values after --announce; do not place the
    # path directly after a list flag that would otherwise hold a single url for announce
    groups.insert(pos, [content])
    swallowed = pos > 0 and len(groups[pos - 1]) >= 2 and groups[pos - 1][0] in ("--announce", "-a", "--tracker", "--web-seed", "--http-seed")
    argv = ["create"]
    for g in groups:
        argv += g
    return argv, swallowed


def config_text(case, out):
    opts = case["opts"]
    lines = ["[config]"]
    for n in case["cli_order"]:
        v = opts[n]
        key = "tracker" if (n == "announce" and case["tracker_alias"]) else n
        if v is True:
            lines.append("%s = true" % key)
        elif isinstance(v, list):
            lines.append("%s =" % key)
            lines += ["    " + u for u in v]
        else:
            lines.append("%s = %s" % (key, v))
    lines.append("out = %s" % out)
    return "\n".join(lines) + "\n"


def lib_kwargs(case, content, out):
    opts = case["opts"]
    kw = {"path": content, "outfile": out}
    m = {"announce": "announce", "web-seed": "url_list", "http-seed": "httpseeds", "private": "private", "source": "source",
         "comment": "comment", "align": "align"}
    for n, v in opts.items():
        if n in m:
            kw[m[n]] = list(v) if isinstance(v, list) else v
        elif n == "piece-length":
            kw["piece_length"] = int(v)
        elif n == "meta-version":
            kw["meta_version"] = v
    kw.setdefault("meta_version", "1")
    return kw


def expected_out(out, name):
    return out + name + ".torrent" if out.endswith("/") else out


def check_fields(m, case, P_default=None):
    """None or (sig, msg): every option sits in its documented field."""
    opts = case["opts"]
    top, info = m.top, m.info

    def enc(lst):
        return [u.encode() for u in lst]
    if "announce" in opts:
        if top.get(b"announce") != opts["announce"][0].encode() or top.get(b"announce-list") != [enc(opts["announce"])]:
            return "announce", "announce/announce-list = %r / %r, expected %r" % (top.get(b"announce"), top.get(b"announce-list"), opts["announce"])
    elif b"announce" in top or b"announce-list" in top:
        return "announce-unset", "announce present although not requested"
    for n, key in (("web-seed", b"url-list"), ("http-seed", b"httpseeds")):
        if n in opts:
            if top.get(key) != enc(opts[n]):
                return n, "%s = %r, expected %r" % (key.decode(), top.get(key), opts[n])
        elif key in top:
            return n + "-unset", "%s present although not requested" % key.decode()
    if ("private" in opts) != (info.get(b"private") == 1) or (b"private" in info and info[b"private"] != 1):
        return "private", "info.private = %r, requested %r" % (info.get(b"private"), "private" in opts)
    for n in ("source", "comment"):
        if n in opts:
            if info.get(n.encode()) != opts[n].encode():
                return n, "info.%s = %r, expected %r" % (n, info.get(n.encode()), opts[n])
        elif n.encode() in info:
            return n + "-unset", "info.%s present although not requested" % n
    if "piece-length" in opts:
        v = int(opts["piece-length"])
        want = 2 ** v if v < 64 else v
        if info.get(b"piece length") != want:
            return "piece-length", "info['piece length'] = %r, expected %d" % (info.get(b"piece length"), want)
    ver = opts.get("meta-version", "1")
    has_v2, has_v1 = b"meta version" in info, b"pieces" in info
    if (ver == "1" and (has_v2 or not has_v1)) or (ver == "2" and (has_v1 or not has_v2)) or (ver == "3" and not (has_v1 and has_v2)):
        return "meta-version", "requested version %s, structure has v1=%s v2=%s" % (ver, has_v1, has_v2)
    if "align" in opts and ver == "1" and b"files" in info:
        off = 0
        P = info[b"piece length"]
        for comps, ln, pad in m.v1_entries():
            if not pad and off % P:
                return "align", "align requested but %r starts at offset %d" % (comps, off)
            off += ln
    return None


def run_case(case):
    target.reset()
    tree = case["tree"]
    if locale.getpreferredencoding(False).lower().replace("-", "") != "utf8" and any(
            not str(v).isascii() for v in case["opts"].values() if isinstance(v, str)):
        # the tool reads torrentfile.ini in the locale's encoding: non-ASCII values are only comparable in a UTF-8 locale
        return Outcome(None, False, ["non-ascii-value-in-non-utf8-locale"])
    with sandbox.Scratch("c20") as scr:
        os.makedirs(os.path.join(scr, "src"))
        content = sandbox.materialize(tree, os.path.join(scr, "src"))
        sp = case.get("content_spelling", "abs")
        if sp == "trailing-sep" and not tree["single"]:
            content = content + "/"
        elif sp == "dot-rel":
            content = "./" + os.path.relpath(content, scr)      # every route runs with cwd = scr
        elif sp == "double-sep":
            content = os.path.dirname(content) + "//" + os.path.basename(content)
        metas = {}
        swallowed = False
        # warm-up: every route is first used once with a *different*, maximal option set, so that options which leak from
        # one invocation into the next (a parser or default object shared between calls) show up inside a single case
        warm = {"tree": tree, "opts": {"announce": ["http://warm.example/a", "http://warm.example/b"], "web-seed": ["http://warm.example/w"],
                                       "http-seed": ["http://warm.example/h"], "private": True, "source": "WARM", "comment": "warm up",
                                       "piece-length": "17", "meta-version": "3" if case["opts"].get("meta-version", "1") != "3" else "2"},
                "cli_order": ["announce", "web-seed", "http-seed", "private", "source", "comment", "piece-length", "meta-version"],
                "content_pos": 99, "short_flags": False, "tracker_alias": False, "out_dir_form": False}
        if case.get("warm_up", True):
            try:
                wdir = os.path.join(scr, "warm")
                os.makedirs(wdir)
                old = os.getcwd()
                os.chdir(scr)
                try:
                    target.execute(cli_argv(warm, content, os.path.join(wdir, "cli.torrent"))[0])
                    with open(os.path.join(scr, "warm.ini"), "w", encoding="ascii") as fd:
                        fd.write("[DEFAULT]\nsource = FROM-DEFAULT-SECTION\nprivate = true\n" + config_text(warm, os.path.join(wdir, "config.torrent")))
                    target.execute(["create", "--config", "--config-path", os.path.join(scr, "warm.ini"), content])
                    kw = lib_kwargs(warm, content, os.path.join(wdir, "lib.torrent"))
                    with target.quiet():
                        target.torrent.TorrentAssembler(**kw).write()
                finally:
                    os.chdir(old)
            except (Exception, SystemExit):  # noqa: BLE001 - the warm-up's own outcome is not judged
                pass
        for route in ("cli", "config", "lib"):
            odir = os.path.join(scr, "out-" + route)
            os.makedirs(odir)
            out = odir + "/" if case["out_dir_form"] else os.path.join(odir, "res.torrent")
            route_content = content
            if case.get("out_inside_content") and not tree["single"] and not case["out_dir_form"] and tree["name"].isascii() \
                    and not any(ch in tree["name"] for ch in "%#;=:[]") and tree["name"].strip() == tree["name"]:
                # `out` points into the payload directory: every route gets its own byte-identical copy of the payload,
                # so that no route hashes a metafile written by another one
                import shutil
                croot = os.path.join(scr, "copy-" + route)
                os.makedirs(croot)
                shutil.copytree(os.path.join(scr, "src", tree["name"]), os.path.join(croot, tree["name"]), symlinks=True)
                route_content = os.path.join(croot, tree["name"])
                odir = route_content
                out = os.path.join(route_content, "res-inside.torrent")
            want = expected_out(out, tree["name"])
            if case.get("relative_out") and odir != route_content:
                out = os.path.relpath(out, scr) + ("/" if out.endswith("/") else "")     # relative to the cwd of every route
            if route == "config":
                os.makedirs(os.path.join(scr, "confdir"), exist_ok=True)
                cfg = os.path.join(scr, "confdir", "conf.ini")                          # not in the working directory
                with open(cfg, "w", encoding="utf-8") as fd:
                    fd.write(config_text(case, out))
                if case.get("decoy_ini_in_cwd"):
                    # a general defaults file in the working directory must not override the explicit --config-path
                    with open(os.path.join(scr, "torrentfile.ini"), "w", encoding="ascii") as fd:
                        fd.write(config_text(warm, os.path.join(scr, "decoy-default.torrent")))
            old = os.getcwd()
            os.chdir(scr)
            try:
                if route == "cli":
                    argv, swallowed = cli_argv(case, route_content, out)
                    target.execute(argv)
                elif route == "config":
                    target.execute(["create", "--config", "--config-path", cfg, route_content])
                else:
                    kw = lib_kwargs(case, route_content, out)
                    cls = target.torrent.TorrentFile if kw["meta_version"] == "1" else target.torrent.TorrentAssembler
                    if case.get("lib_int_version"):
                        kw["meta_version"] = int(kw["meta_version"])
                    with target.quiet():
                        cls(**kw).write()
            except SystemExit as e:
                os.chdir(old)
                return Outcome(Violation("C20:%s:exit" % route, "route %s: command line rejected (SystemExit %r)" % (route, e.code)), True)
            except Exception as e:  # noqa: BLE001
                os.chdir(old)
                return Outcome(Violation("C20:%s:exception:%s" % (route, type(e).__name__), "route %s raised %r" % (route, e)), True)
            finally:
                os.chdir(old)
            if case["out_dir_form"] and odir != route_content:
                # `out` names a directory: which file name the tool picks inside it is not C20's business
                inside = [x for x in os.listdir(odir) if os.path.isfile(os.path.join(odir, x))]
                if len(inside) == 1:
                    want = os.path.join(odir, inside[0])
            if not os.path.isfile(want):
                stray = [p for p in sandbox.snapshot(scr) if p.endswith(".torrent")]
                return Outcome(Violation("C20:%s:out-ignored" % route, "route %s did not write the metafile where `out` says (%s); .torrent files now: %r" % (
                    route, os.path.relpath(want, scr), stray[:4])), True)
            try:
                metas[route] = vmeta.Meta.from_file(want)
            except vmeta.MetaError as e:
                return Outcome(Violation("C20:%s:undecodable" % route, "route %s wrote a file that is not a bencoded metafile: %s" % (route, e)), True)
    classes = ["opts=%d" % len(case["opts"])] + sorted("opt-" + n for n in case["opts"])
    if swallowed:
        classes.append("content-after-list-flag")
    if case["out_dir_form"]:
        classes.append("out-dir-form")
    classes.append("content-" + case.get("content_spelling", "abs"))
    base = metas["cli"].without("creation date")
    for route in ("config", "lib"):
        if metas[route].without("creation date") != base:
            a, b = metas["cli"], metas[route]
            keys = sorted(k.decode("latin-1") for k in set(a.top) | set(b.top) if a.top.get(k) != b.top.get(k) and k not in (b"creation date", b"info"))
            keys += sorted("info." + k.decode("latin-1") for k in set(a.info) | set(b.info) if a.info.get(k) != b.info.get(k))
            return Outcome(Violation("C20:%s-vs-cli:%s" % (route, keys[0] if keys else "?"), "route %s and the CLI route disagree on %r" % (route, keys)), True, classes)
    for route, m in metas.items():
        bad = check_fields(m, case)
        if bad:
            return Outcome(Violation("C20:%s:field:%s" % (route, bad[0]), "route %s: %s" % (route, bad[1])), True, classes)
    nontrivial = len(case["opts"]) >= 2 or swallowed
    return Outcome(None, nontrivial, classes)
