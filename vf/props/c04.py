"""C04 - recheck never reports 100% for damaged or incomplete content."""
from vf import meta as vmeta, sandbox, target
from vf.engine import HarnessError, Outcome, Violation
from vf.gen import trees
from vf.props import rk
from vf.ref import recheck as refcheck

ID = "C04"
LEVEL = "exploration"
TECHNIQUE = "Hypothesis-generated payloads of non-zero bytes x own/reference metafiles x damage sets (byte flips, truncations, removals anywhere); oracle: the virtual stream changed, so Checker.results() must be < 100 ; optional prime run (intact recheck first, damage applied with timestamps restored); deterministic large-piece grid"
RULE = ("Cases: generated tree of non-zero bytes (so every damaged or absent region differs from the described bytes) x piece length x "
        "metafile source (five own creators; reference encoder incl. shuffled/aligned v1, hybrid with/without trailing pad, v2 single "
        "file without info.length) x content path root/parent x non-empty damage set drawn over all non-empty files: flip one byte at "
        "(file, first/last/any offset) with a non-zero mask, truncate a file to a shorter length (incl. 0), remove a file; 1..4 damages. "
        "The reference verifier must report < 100 (else harness error). Oracle: Checker.results() < 100; any exception is a violation "
        "(a crash is not '< 100'). Every case is non-trivial (damage is effective); classes record where the damage lies. Distinct = "
        "distinct canonical case JSON.")
ASSUMPTIONS = [
    "payload bytes are non-zero, so 'absent data read as zeros' always differs from the described data",
    "vf/ref/recheck.py reference verifier; vf/ref/metafile.py reference encoder",
    "damage never removes the payload root itself (a missing root is a documented FileNotFoundError)",
]
BUDGET = {
    "quick": {"examples": 450, "workers": 8, "time_cap": 70},
    "thorough": {"examples": 12000, "workers": 14, "time_cap": 900},
}


GRID_DESC = "deterministic large-piece cases: piece length 2 MiB and 32 MiB with files of 1..17 MiB (sizes around 1 MiB / 16 MiB inside one piece), v1/v2/hybrid"


def grid(tier):
    return rk.big_piece_grid(True)


def strategy(tier):
    return rk.case_strategy(tier, trees.MODES_NZ, 1, 4)


def damage_classes(case, changed):
    tree = case["tree"]
    files = tree["files"]
    cls = set()
    order = sorted(range(len(files)), key=lambda i: [c.encode() for c in files[i]["path"]])
    pos = {fi: k for k, fi in enumerate(order)}
    nonempty = [i for i in order if files[i]["size"]]
    for d in case["damage"]:
        if d["file"] not in changed:
            continue
        cls.add("dmg-" + d["op"])
        if nonempty and d["file"] == nonempty[-1]:
            cls.add("dmg-in-last-file")
        if nonempty and d["file"] == nonempty[0]:
            cls.add("dmg-in-first-file")
        k = pos[d["file"]]
        if (k > 0 and files[order[k - 1]]["size"] == 0) or (k + 1 < len(order) and files[order[k + 1]]["size"] == 0):
            cls.add("dmg-next-to-empty-file")
        if d["op"] == "flip" and d["off"] >= files[d["file"]]["size"] - (files[d["file"]]["size"] % case["P"] or case["P"]):
            cls.add("dmg-in-final-piece-of-file")
    if len(changed) > 1:
        cls.add("multi-damage")
    return sorted(cls)


def run_case(case):
    target.reset()
    with sandbox.Scratch("c04") as scr:
        try:
            root, parent, mf = rk.build(scr, case)
            m = vmeta.Meta.from_file(mf)
        except Exception as e:
            return Outcome(Violation("C04:setup-exception:%s" % type(e).__name__, "creating the metafile raised %r" % (e,)), False)
        if case.get("prime"):
            rk.tool_recheck(mf, rk.content_of(case, root, parent))     # first use, on the intact payload
        changed = rk.apply_damage(root, case["tree"], case["damage"], keep_mtime=bool(case.get("prime")))
        if not changed:
            return Outcome(None, False, ["no-effective-damage"])
        ref = refcheck.verify(m, root)
        if ref.percent is None or ref.percent >= 100:
            raise HarnessError("reference verifier reports %r for damaged non-zero content: %r" % (ref.percent, case))
        classes = rk.shape_classes(case, m) + damage_classes(case, changed)
        pct, exc = rk.tool_recheck(mf, rk.content_of(case, root, parent))
    ver = classes[0]
    tag = "%s:%s" % (ver, case["meta"]["kind"])
    if "empty-file" in classes:
        tag += ":empty-file"
    kinds = "+".join(sorted({d["op"] for d in case["damage"] if d["file"] in changed}))
    if exc is not None:
        return Outcome(Violation("C04:%s:exception:%s" % (tag, type(exc).__name__), "recheck of damaged content raised %r" % (exc,)), True, classes)
    if not (pct < 100):
        return Outcome(Violation("C04:%s:reports-100" % tag, "recheck reports %r although %d file(s) are damaged (%s); reference: %.4f%%" % (
            pct, len(changed), kinds, ref.percent)), True, classes)
    return Outcome(None, True, classes)
