"""C11 - magnet URI carries the true info-hash(es), name, trackers and web seeds."""
import hashlib
import os
from urllib.parse import unquote_to_bytes

from hypothesis import strategies as st

from vf import meta as vmeta, sandbox, target
from vf.engine import Outcome, Violation
from vf.gen import edits, trees
from vf.props import common
from vf.props.c07 import EXTRA_INFO, EXTRA_TOP, apply_edit
from vf.ref import metafile as refmeta

ID = "C11"
LEVEL = "exploration"
TECHNIQUE = "Hypothesis-generated metafiles (tool-made, tool-made then edited, reference-encoded with extra keys and hostile names/URLs) x version request; URI parsed at byte level and compared with hashes of the raw info span located by the strict decoder ; thorough tier adds a coverage-guided (atheris/libFuzzer) stage over the same strategy"
RULE = ("Cases: metafile source (own creators all versions with options; own then 1-2 edits, optionally followed by the interactive editor with or without a change; reference-encoded v1/v2/hybrid with extra "
        "keys incl. non-UTF-8 byte strings in info and at top level, names and URLs containing space & = % + # ? / : ; and non-ASCII, "
        "announce only / single-tier / multi-tier announce-list / none, url-list as list / string / absent; in reference-encoded metafiles tracker and web-seed URLs may contain inner spaces) x version request (0; "
        "1,2,3 for hybrids; 2 for v2-only; 1 for v1) x route (magnet() / CLI `magnet`, `m`). Oracle: URI starts with magnet:?; xt "
        "multiset = btih:SHA-1(raw info span) when v1 content is wanted, btmh:1220+SHA-256(raw info span) when v2 content is wanted; "
        "dn, tr, ws percent-decode (byte level, + as space) to the name, all tracker URLs in order (announce-list flattened, else "
        "announce), all web-seed URLs in order (a string url-list is one URL). Non-trivial: a reserved or non-ASCII character in some "
        "decoded value, or a hybrid with an explicit version, or a reference-encoded metafile with extra info keys. Distinct = distinct "
        "canonical case JSON.")
ASSUMPTIONS = [
    "vf/ref/bencode.py locates the raw info span; vf/ref/metafile.py builds the foreign metafiles (canonical bencoding)",
    "names and URLs are valid UTF-8; when both announce and announce-list exist, announce is the first URL of the list (BEP 12 precedence is then unambiguous)",
]
FUZZ_RUNS = 40000   # thorough tier: libFuzzer runs per campaign of the coverage-guided stage (vf/fuzz.py)
BUDGET = {
    "quick": {"examples": 800, "workers": 8, "time_cap": 70},
    "thorough": {"examples": 25000, "workers": 14, "time_cap": 900},
}
RESERVED = set(" &=%+#?/:;@$,!'()*[]")


def hostile_name():
    return st.one_of(
        trees.name_component(),
        st.text(alphabet="ab &=%+#?:;é丂@$,!'()*[]~.-_", min_size=1, max_size=12).filter(
            lambda n: n not in (".", "..") and n.strip(" ") != ""),
    )


def foreign_url():
    """URL as another client may have stored it: the quantifier includes spaces (round 8: a string url-list was tokenised)."""
    spaced = st.text(alphabet="ab /:.?&=%+#é", min_size=3, max_size=24).filter(
        lambda u: " " in u.strip() and u.strip() == u)
    return st.one_of(edits.url(), edits.url(), spaced,
                     st.sampled_from(["http://seed.example/my files/", "http://t.example/an nounce?k=a b", "a b  c"]))


def foreign_url_list():
    return st.lists(foreign_url(), min_size=1, max_size=3)


def strategy(tier):
    own = st.fixed_dictionaries({
        "kind": st.just("own"),
        "creator": st.sampled_from(["TorrentFile", "Assembler2", "Assembler3", "TorrentFileV2", "TorrentFileHybrid"]),
        "opts": edits.create_options(),
        "edits": st.lists(edits.edit_request(routes=("lib",)), min_size=0, max_size=2),
        # "edited here" also means the interactive editor: nothing changed ("done" at once) or the comment changed
        "interactive": st.sampled_from([None, None, None, "noop", "comment"]),
    })
    ref = st.fixed_dictionaries({
        "kind": st.just("ref"),
        "version": st.sampled_from([1, 2, 3]),
        "name": hostile_name(),
        "top": st.lists(st.sampled_from(sorted(EXTRA_TOP)), unique=True, max_size=3),
        "info": st.lists(st.sampled_from(sorted(EXTRA_INFO)), unique=True, max_size=4),
        "tiers": st.one_of(st.none(), st.lists(foreign_url_list(), min_size=1, max_size=3)),
        "announce_only": st.booleans(),
        "url_list": st.one_of(st.none(), foreign_url_list(), foreign_url()),
    })

    @st.composite
    def case(draw):
        src = draw(st.one_of(own, ref))
        t = draw(trees.tree(16384, max_files=3, big=False, nonempty_total=draw(st.sampled_from([True, True, True, False]))))
        if draw(st.sampled_from([True] + [False] * 9)):
            t = {"name": t["name"], "single": draw(st.booleans()), "files": [{"path": [], "size": 0, "mode": "rnd", "seed": 0}]}
            if not t["single"]:
                t["files"][0]["path"] = ["empty.bin"]
        return {"tree": t, "source": src, "version": draw(st.sampled_from([0, 0, 1, 2, 3])),
                "route": draw(st.sampled_from(["lib", "cli", "cli-m"]))}
    return case()


def build(scr, case):
    tree = dict(case["tree"])
    src = case["source"]
    out = os.path.join(scr, "out", "m.torrent")
    P = 16384
    if src["kind"] == "own":
        root = common.make(scr, tree)
        common.create(src["creator"], "lib", root, out, P, extra_kw=dict(src["opts"]))
        for req in src["edits"]:
            apply_edit(req, out)
        if src.get("interactive"):
            _interactive_edit(out, src["interactive"])
    else:
        os.makedirs(os.path.join(scr, "out"), exist_ok=True)
        tree["name"] = src["name"]
        top = {k: EXTRA_TOP[k] for k in src["top"]}
        if src["tiers"]:
            top["announce"] = src["tiers"][0][0].encode()
            if not src["announce_only"]:
                top["announce-list"] = [[u.encode() for u in tier] for tier in src["tiers"]]
        if src["url_list"] is not None:
            ul = src["url_list"]
            top["url-list"] = ul.encode() if isinstance(ul, str) else [u.encode() for u in ul]
        data = refmeta.build(tree, P, src["version"], top=top, info_extra={k: EXTRA_INFO[k] for k in src["info"]},
                             trailing_pad=True)
        with open(out, "wb") as fd:
            fd.write(data)
    return out


def _interactive_edit(path, what):
    """Drive interactive.edit_action by answering its prompts."""
    import builtins
    import importlib
    inter = importlib.import_module("torrentfile.interactive")
    answers = [path] + (["1", "edited interactively"] if what == "comment" else []) + ["done"]
    it = iter(answers)
    real_input = builtins.input
    builtins.input = lambda *_a: next(it)
    try:
        with target.quiet():
            inter.edit_action()
    finally:
        builtins.input = real_input


def parse(uri):
    if not uri.startswith("magnet:?"):
        return None
    params = []
    for part in uri[len("magnet:?"):].split("&"):
        if part == "":
            continue
        k, _, v = part.partition("=")
        params.append((k, unquote_to_bytes(v.replace("+", " "))))
    return params


def run_case(case):
    target.reset()
    with sandbox.Scratch("c11") as scr:
        try:
            path = build(scr, case)
            m = vmeta.Meta.from_file(path)
        except Exception as e:
            return Outcome(Violation("C11:setup-exception:%s" % type(e).__name__, "building the metafile raised %r" % (e,)), False)
        has_v2 = b"meta version" in m.info
        has_v1 = b"pieces" in m.info
        hybrid = has_v1 and has_v2
        version = case["version"]
        if not hybrid:
            version = 0 if version not in (0, 1 if has_v1 else 2) else version
        try:
            if case["route"] == "lib":
                with target.quiet():
                    uri = target.commands.magnet(path, version=version)
            else:
                uri = target.execute([("m" if case["route"] == "cli-m" else "magnet"), path, "--meta-version", str(version)])
        except Exception as e:
            return Outcome(Violation("C11:exception:%s" % type(e).__name__, "magnet raised %r" % (e,)), True)
    if not isinstance(uri, str):
        return Outcome(Violation("C11:not-a-string", "magnet returned %r" % (uri,)), True)
    params = parse(uri)
    if params is None:
        return Outcome(Violation("C11:prefix", "URI does not start with magnet:?"), True)
    want_v1 = has_v1 and (not hybrid or version in (0, 1, 3))
    want_v2 = has_v2 and (not hybrid or version in (0, 2, 3))
    exp_xt = []
    if want_v1:
        exp_xt.append(b"urn:btih:" + hashlib.sha1(m.info_span).hexdigest().encode())
    if want_v2:
        exp_xt.append(b"urn:btmh:1220" + hashlib.sha256(m.info_span).hexdigest().encode())
    got_xt = [v.lower() for k, v in params if k == "xt"]
    kindtag = "hybrid" if hybrid else ("v2" if has_v2 else "v1")
    if sorted(got_xt) != sorted(exp_xt):
        return Outcome(Violation("C11:xt:%s:req%d" % (kindtag, version), "xt parameters %r != expected %r" % (got_xt, exp_xt)), True)
    name = m.info.get(b"name")
    got_dn = [v for k, v in params if k == "dn"]
    if got_dn != [name]:
        return Outcome(Violation("C11:dn", "dn decodes to %r, name is %r" % (got_dn, name)), True)
    top = m.top
    if b"announce-list" in top:
        exp_tr = [u for tier in top[b"announce-list"] for u in tier]
    elif b"announce" in top:
        exp_tr = [top[b"announce"]]
    else:
        exp_tr = []
    got_tr = [v for k, v in params if k == "tr"]
    if got_tr != exp_tr:
        shape = "multi-tier" if len(top.get(b"announce-list", [])) > 1 else ("list" if b"announce-list" in top else "announce-only")
        return Outcome(Violation("C11:tr:%s" % shape, "tr decodes to %r, trackers are %r" % (got_tr[:5], exp_tr[:5])), True)
    ul = top.get(b"url-list")
    exp_ws = [] if ul is None else ([ul] if isinstance(ul, bytes) else list(ul))
    got_ws = [v for k, v in params if k == "ws"]
    if got_ws != exp_ws:
        return Outcome(Violation("C11:ws:%s" % ("string" if isinstance(ul, bytes) else "list"),
                                 "ws decodes to %r, web seeds are %r" % (got_ws[:5], exp_ws[:5])), True)
    other = [k for k, _ in params if k not in ("xt", "dn", "tr", "ws")]
    values = [name] + exp_tr + exp_ws
    special = any(any(ch in RESERVED or ord(ch) > 127 for ch in v.decode("utf-8", "replace")) for v in values)
    classes = [kindtag]
    if special:
        classes.append("reserved-or-nonascii")
    if hybrid and version:
        classes.append("hybrid-explicit-version")
    src = case["source"]
    if src["kind"] == "ref" and src["info"]:
        classes.append("foreign-extra-info-keys")
    if src["kind"] == "own" and src["edits"]:
        classes.append("edited")
    if src["kind"] == "own" and src.get("interactive"):
        classes.append("edited-interactively")
    if other:
        classes.append("extra-params")
    nontrivial = special or (hybrid and version != 0) or (src["kind"] == "ref" and bool(src["info"]))
    return Outcome(None, nontrivial, classes)
