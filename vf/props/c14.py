"""C14 - rebuild only adds verified copies; it never damages sources or existing files."""
import hashlib
import os

from vf import meta as vmeta, sandbox, target
from vf.engine import Outcome, Violation
from vf.props import rb
from vf.props.c13 import classes_of

ID = "C14"
LEVEL = "exploration"
TECHNIQUE = "Hypothesis-generated rebuilds (as C13) into pre-populated destinations (correct, wrong-content-full-length, shorter and unrelated files), repeated 1..3 times; oracle: full before/after snapshots of search directories, metafiles and destination ; a source swapped for its decoy between two rebuilds"
RULE = ("Cases: as C13 plus, per listed file, a pre-existing destination file that is correct / wrong content with the full length / "
        "shorter (prefix) / shorter with wrong content / sparse with the full length / absent / an unrelated directory sitting at the file's path, unrelated files in the destination, a listed file named like a staging sibling of another listed file (X and X.part / X.tmp / X~ ...; the sibling complete in the destination and absent from the sources), and 1..3 repeated rebuilds. "
        "Oracle after every rebuild (snapshots before/after): search directories and metafiles are name-for-name, byte-for-byte "
        "identical; every pre-existing destination file that had its full recorded length is byte-identical; no pre-existing "
        "destination file has disappeared; every file that is new or changed lies at a path some metafile assigns, has that entry's "
        "recorded length, and is byte-identical to a search-directory file with the same base name; no placed file equals an "
        "every-byte-different decoy. Non-trivial: the destination was pre-populated, or a decoy is present, or a second rebuild ran. "
        "Distinct = distinct canonical case JSON.")
ASSUMPTIONS = [
    "snapshots compare names, types, sizes and SHA-256 digests",
    "the destination is disjoint from the search directories and the metafile directory",
    "payload bytes are non-zero; decoys differ from the real file in every byte",
]
BUDGET = {
    "quick": {"examples": 300, "workers": 8, "time_cap": 80},
    "thorough": {"examples": 6000, "workers": 14, "time_cap": 900},
}


def strategy(tier):
    return rb.rebuild_case(tier, prepopulate=True)


def _sha(b):
    return hashlib.sha256(b).hexdigest()


def run_case(case):
    target.reset()
    cls = classes_of(case)
    with sandbox.Scratch("c14") as scr:
        try:
            layout = rb.build(scr, case)
        except Exception as e:
            return Outcome(Violation("C14:setup-exception:%s" % type(e).__name__, "creating metafiles raised %r" % (e,)), False)
        dest = rb.make_dest(scr, case)
        assigned = {}     # rel path under dest -> (length, basename)
        real_digest = {}  # rel path under dest -> digest of the bytes the metafile describes there
        pre = False
        for mf, tor in zip(layout["metafiles"], case["torrents"]):
            m = vmeta.Meta.from_file(mf)
            for rel, ln in rb.listed_files(m):
                assigned[os.path.normpath(rel)] = (ln, os.path.basename(rel))
            tree = tor["tree"]
            for f in tree["files"]:
                rel0 = tree["name"] if tree["single"] else os.path.join(tree["name"], *f["path"])
                real_digest[os.path.normpath(rel0)] = _sha(sandbox.file_bytes(f))
            for f, e in zip(tree["files"], tor["files"]):
                if e["pre"] == "none":
                    continue
                rel = tree["name"] if tree["single"] else os.path.join(tree["name"], *f["path"])
                data = sandbox.file_bytes(f)
                if e["pre"] == "dir-in-the-way":
                    # an unrelated directory sits at the path the metafile assigns to this file, holding a same-named file
                    p = os.path.join(dest, rel)
                    if os.path.lexists(p):
                        continue
                    os.makedirs(p)
                    with open(os.path.join(p, os.path.basename(rel)), "wb") as fd:
                        fd.write(b"unrelated " * (len(data) // 5 + 3))
                    with open(os.path.join(p, "notes.txt"), "wb") as fd:
                        fd.write(b"unrelated")
                    pre = True
                    cls.add("pre-dir-in-the-way")
                    continue
                if e["pre"] == "symlink-to-unrelated":
                    # the file's path is occupied by a symbolic link to an unrelated, shorter file elsewhere in the destination
                    p = os.path.join(dest, rel)
                    if os.path.lexists(p) or not data:
                        continue
                    os.makedirs(os.path.dirname(p), exist_ok=True)
                    tgt = os.path.join(dest, "unrelated-target-%d.bin" % len(assigned))
                    with open(tgt, "wb") as fd:
                        fd.write(b"u" * (len(data) // 2))
                    os.symlink(tgt, p)
                    pre = True
                    cls.add("pre-symlink-to-unrelated")
                    continue
                if e["pre"] == "wrong-full":
                    data = bytes(b ^ 0x2A for b in data)
                elif e["pre"] == "sparse-full":
                    data = None       # full recorded length, no blocks allocated (a client that pre-allocates by seeking)
                elif e["pre"] == "shorter":
                    if not data:
                        continue
                    data = data[:len(data) // 2]
                elif e["pre"] == "shorter-wrong":
                    if not data:
                        continue
                    data = bytes(b ^ 0x2A for b in data[:max(0, len(data) - 1)])
                p = os.path.join(dest, rel)
                os.makedirs(os.path.dirname(p), exist_ok=True)
                with open(p, "wb") as fd:
                    if data is None:
                        fd.truncate(f["size"])
                    else:
                        fd.write(data)
                pre = True
                cls.add("pre-" + e["pre"])
        for name, size in case.get("dest_unrelated", []):
            p = os.path.join(dest, name)
            if not os.path.exists(p):
                with open(p, "wb") as fd:
                    fd.write(sandbox.content("rnd", size, size))
                pre = True
                cls.add("dest-unrelated")
        src_digests = {}
        for name, datas in layout["sources"].items():
            src_digests[name] = {_sha(d) for d in datas}
        decoy_digests = {(n, _sha(d)) for n, d in layout["decoys"]}
        # every file under the search dirs by basename (unrelated ones too): what a copy may legitimately equal
        avail = {}
        for s in layout["search"]:
            for r, _, fs in os.walk(s):
                for x in fs:
                    with open(os.path.join(r, x), "rb") as fd:
                        avail.setdefault(x, set()).add(_sha(fd.read()))
        outside_roots = layout["search"] + [layout["metadir"]]
        repeats = case.get("repeats", 1)
        if repeats > 1:
            cls.add("repeat")
        nontrivial = pre or "decoy" in cls or repeats > 1
        for rep in range(repeats):
            if rep == 1 and case.get("swap_between"):
                sw = case["swap_between"]
                ti = sw["torrent"] % len(case["torrents"])
                tor = case["torrents"][ti]
                fi = sw["file"] % len(tor["tree"]["files"])
                f = tor["tree"]["files"][fi]
                src = layout["placed_at"].get((ti, fi))
                if src and f["size"] > 0:
                    data = sandbox.file_bytes(f)
                    st0 = os.stat(src)
                    with open(src, "r+b") as fd:
                        fd.write(rb.decoy_bytes(data))
                    os.utime(src, ns=(st0.st_atime_ns, st0.st_mtime_ns))
                    name = rb.basename_of(tor["tree"], f)
                    decoy_digests.add((name, _sha(rb.decoy_bytes(data))))
                    avail.setdefault(name, set()).add(_sha(rb.decoy_bytes(data)))
                    rel = tor["tree"]["name"] if tor["tree"]["single"] else os.path.join(tor["tree"]["name"], *f["path"])
                    if os.path.isfile(os.path.join(dest, rel)):
                        os.remove(os.path.join(dest, rel))
                    cls.add("source-swapped-with-decoy")
            before_out = [sandbox.snapshot(r) for r in outside_roots]
            before = sandbox.snapshot(dest)
            count, exc = rb.run_rebuild(layout, case, dest)
            after_out = [sandbox.snapshot(r) for r in outside_roots]
            for r, a, b in zip(outside_roots, before_out, after_out):
                d = sandbox.snapdiff(a, b)
                if d:
                    where = "search" if r in layout["search"] else "metafiles"
                    return Outcome(Violation("C14:%s-modified:%s" % (where, d[0][1]), "rebuild %s %s under %s" % (d[0][1], d[0][0], where)), True, sorted(cls))
            after = sandbox.snapshot(dest)
            for rel, change in sandbox.snapdiff(before, after):
                kind = (after.get(rel) or before.get(rel))[0]
                if kind == "dir":
                    if change == "deleted":
                        return Outcome(Violation("C14:dest-dir-deleted", "rebuild removed directory %s" % rel), True, sorted(cls))
                    continue
                nrel = os.path.normpath(rel)
                if change == "deleted":
                    return Outcome(Violation("C14:dest-file-deleted", "rebuild removed pre-existing destination file %s" % rel), True, sorted(cls))
                if change == "changed" and nrel in assigned and before[rel][1] == assigned[nrel][0]:
                    return Outcome(Violation("C14:full-length-file-altered", "rebuild altered %s which already had its full recorded length" % rel), True, sorted(cls))
                if nrel not in assigned:
                    return Outcome(Violation("C14:wrote-unassigned-path:%s" % change, "rebuild %s %s, a path no metafile assigns" % (change, rel)), True, sorted(cls))
                ln, base = assigned[nrel]
                _, size, digest, _ = after[rel]
                if size != ln:
                    return Outcome(Violation("C14:placed-wrong-length", "placed %s with %d bytes, recorded length %d" % (rel, size, ln)), True, sorted(cls))
                # (a decoy of one file may coincide with the real bytes of another same-named file - 1-byte files: that is a correct copy)
                if (base, digest) in decoy_digests and digest != real_digest.get(nrel):
                    return Outcome(Violation("C14:placed-decoy", "placed the every-byte-different decoy as %s" % rel), True, sorted(cls))
                if digest not in avail.get(base, set()):
                    return Outcome(Violation("C14:placed-not-a-copy", "%s is not a byte-identical copy of any search-directory file named %s" % (rel, base)), True, sorted(cls))
            if exc is not None and not isinstance(exc, (FileNotFoundError,)):
                # an exception is not a C14 matter by itself (C13 demands completion); safety was checked above
                cls.add("rebuild-raised")
    return Outcome(None, nontrivial, sorted(cls))
