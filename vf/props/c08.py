"""C08 - info-hash depends only on payload, piece length, version and info options."""
import os
import shutil

from hypothesis import strategies as st

from vf import meta as vmeta, sandbox, target
from vf.engine import HarnessError, Outcome, Violation
from vf.gen import edits, trees
from vf.props import common
from vf.instr import clock, listdir, pristine
from vf.ref import bencode

ID = "C08"
LEVEL = "exploration"
TECHNIQUE = "Hypothesis-generated metamorphic pairs: one payload/configuration created in a canonical environment and in a variant environment (path spelling, cwd, byte-identical copy elsewhere, harness-owned enumeration order, trackers/seeds/outfile, progress/quiet mode, harness-owned clock); info bytes must be equal ; output file inside the payload directory ; history variant (unrelated create first) compared with a pristine forked interpreter"
RULE = ("Cases: base configuration (tree, piece length, creator among all five, route library/CLI, private/source/comment) created once in a "
        "canonical environment and once in a variant that differs in any subset of: path spelling (absolute, relative to a drawn cwd, './', "
        "inner 'x/../', doubled separators, trailing '/', trailing '/.', 'sub/..', cwd inside the payload with path '.'), cwd, a "
        "byte-identical copy of the tree under another parent, directory enumeration order (os.listdir/os.scandir shim: sorted, reverse, "
        "hashed), trackers / web seeds / http seeds / output file name, progress 0/1/2 and -q, clock instant, process history (an unrelated create with another creator / piece length runs first; the variant's info bytes are then also compared with the canonical create performed by a pristine interpreter - a server forked before any torrentfile operation forks one grandchild per query). Oracle: canonical re-encoding "
        "of the strict-decoded info dictionaries is identical; when nothing but the clock differs the whole metafiles are identical after "
        "deleting 'creation date'; when only trackers/seeds (and clock) differ the files differ only in announce, announce-list, url-list, "
        "httpseeds, creation date. Non-trivial: the variant differs in at least one dimension and either the spelling differs or some "
        "directory has >= 2 entries (enumeration order observable). Distinct = distinct canonical case JSON.")
ASSUMPTIONS = [
    "path spellings are lexical variants of one real path (no symlinked parents); symlinks inside the tree are generated, and their dereferenced copy counts as the same payload only when the tool lists the same files for both",
    "the clock shim replaces the datetime class inside torrentfile modules and time.time; creation date itself is excluded from every comparison",
    "output files are written to an explicit path (outside the payload, or inside it under a name that does not exist while the payload is hashed)",
]
BUDGET = {
    "quick": {"examples": 700, "workers": 8, "time_cap": 70},
    "thorough": {"examples": 12000, "workers": 14, "time_cap": 900},
}
SPELLINGS = ["abs", "rel", "dot-rel", "inner-dotdot", "double-sep", "trailing-sep", "trailing-dot", "sub-dotdot", "cwd-dot"]
CWDS = ["scratch", "parent", "elsewhere"]
CLI_CREATORS = {"TorrentFile": "1", "Assembler2": "2", "Assembler3": "3"}


def strategy(tier):
    @st.composite
    def case(draw):
        creator = draw(st.sampled_from(["TorrentFile", "TorrentFile", "Assembler2", "Assembler3", "TorrentFileV2", "TorrentFileHybrid"]))
        route = draw(st.sampled_from(["lib", "cli"])) if creator in CLI_CREATORS else "lib"
        P = draw(st.sampled_from([16384, 32768]))
        t = draw(trees.tree(P, max_files=6, cli_safe=True, big=False))
        info_opts = {}
        if draw(st.booleans()):
            info_opts["private"] = True
        if draw(st.booleans()):
            info_opts["source"] = draw(edits.text(cli_safe=True))
        if draw(st.booleans()):
            info_opts["comment"] = draw(edits.text(cli_safe=True))
        dims = draw(st.lists(st.sampled_from(["spelling", "cwd", "copy", "order", "order", "trackers", "progress", "clock", "outname", "history"]),
                             unique=True, min_size=draw(st.sampled_from([0, 1, 1, 1, 1, 1])), max_size=4))
        var = {"spelling": "abs", "cwd": "scratch", "copy": False, "order": 0, "announce": None, "url_list": None, "httpseeds": None,
               "progress": 0, "quiet": False, "clock": 1600000000, "outname": "o.torrent"}
        if "spelling" in dims:
            var["spelling"] = draw(st.sampled_from(SPELLINGS[1:]))
        if "cwd" in dims:
            var["cwd"] = draw(st.sampled_from(CWDS[1:]))
        if "copy" in dims:
            var["copy"] = True
        if "order" in dims:
            var["order"] = draw(st.sampled_from([1, 2, 3, 7]))
        if "trackers" in dims:
            var["announce"] = draw(st.one_of(st.none(), edits.url_list(cli_safe=True)))
            var["url_list"] = draw(st.one_of(st.none(), edits.url_list(cli_safe=True)))
            var["httpseeds"] = draw(st.one_of(st.none(), edits.url_list(cli_safe=True)))
        if "progress" in dims:
            var["progress"] = draw(st.sampled_from([1, 2]))
            var["quiet"] = draw(st.booleans())
        if "clock" in dims:
            var["clock"] = draw(st.integers(0, 4000000000))
        if "history" in dims:
            # the variant run comes after an unrelated create (other payload, creator, piece length) in the same process
            var["history"] = draw(common.warmup().filter(lambda w: w is not None))
        if "outname" in dims:
            var["outname"] = draw(st.sampled_from(["other.torrent", "x", "sub-out.torrent", "INSIDE-CONTENT"]))
        return {"tree": t, "P": P, "creator": creator, "route": route, "info_opts": info_opts, "variant": var}
    return case()


GRID_DESC = {
    "quick": "automatic piece length: payload of 18,000,000 bytes (above the 16,384,000-byte step) of which one half is reached through a "
             "symbolic link to a sibling directory, vs. its dereferenced byte-identical copy elsewhere, five creators x library/CLI",
    "thorough": "same, plus totals around the 32,768,000-byte step",
}
GRID_DESC = {k: v + "; a payload containing a symbolic link cycle (loop -> .) addressed directly and through a symlinked parent directory: "
             "refused both ways or described identically" for k, v in GRID_DESC.items()}


def grid(tier):
    cases = []
    steps = [9000000] if tier == "quick" else [9000000, 17000000]
    for half in steps:
        for creator in ("TorrentFile", "Assembler2", "Assembler3", "TorrentFileV2", "TorrentFileHybrid"):
            for route in (("lib", "cli") if creator in CLI_CREATORS else ("lib",)):
                var = dict(BASE_ENV, copy=True)
                tree = {"name": "auto", "single": False,
                        "files": [{"path": ["disc1", "b.bin"], "size": half, "mode": "const", "seed": 5}],
                        "dirlinks": [{"path": ["disc2"], "target": "disc1"}]}
                cases.append({"tree": tree, "P": None, "creator": creator, "route": route, "info_opts": {}, "variant": var})
    for creator in ("TorrentFile", "TorrentFileV2", "Assembler3"):
        cases.append({"kind": "cycle", "creator": creator})
    return cases


def run_cycle(case):
    """payload/{f, loop -> .}: the kernel ends the walk after 40 links *counted over the whole path*, so how deep a cycle is
    followed depends on how many links the spelled prefix already contains.  Either spelling must give the same answer."""
    target.reset()
    with sandbox.Scratch("c08c") as scr:
        real = os.path.join(scr, "real")
        pay = os.path.join(real, "payload")
        os.makedirs(pay)
        with open(os.path.join(pay, "f"), "wb") as fd:
            fd.write(b"x" * 20000)
        os.symlink(".", os.path.join(pay, "loop"))
        os.symlink("real", os.path.join(scr, "alias"))
        res = []
        for i, spelled in enumerate((pay, os.path.join(scr, "alias", "payload"))):
            out = os.path.join(scr, "o%d.torrent" % i)
            try:
                target.create_lib(case["creator"], spelled, out, piece_length=16384)
                res.append(("ok", vmeta.Meta.from_file(out).info_span))
            except Exception as e:  # noqa: BLE001 - refusing a cycle is fine, as long as it does not depend on the spelling
                res.append(("raised", type(e).__name__))
    classes = ["symlink-cycle", "cycle-" + res[0][0]]
    if res[0] != res[1]:
        return Outcome(Violation("C08:cycle:spelling-dependent", "a payload with a symlink cycle gives %s directly and %s through a symlinked parent directory" % (
            res[0][0] if res[0][0] == "raised" else "%d info bytes" % len(res[0][1]), res[1][0] if res[1][0] == "raised" else "%d info bytes" % len(res[1][1]))), True, classes)
    return Outcome(None, True, classes)


def spell(kind, root, cwd, tree):
    """Return (path string, cwd to use) or None when the spelling does not apply."""
    parent, name = os.path.split(root)
    isdir = not tree["single"]
    if kind == "abs":
        return root, cwd
    if kind == "rel":
        return os.path.relpath(root, cwd), cwd
    if kind == "dot-rel":
        return "./" + os.path.relpath(root, cwd), cwd
    if kind == "inner-dotdot":
        return os.path.join(parent, "..", os.path.basename(parent), name), cwd
    if kind == "double-sep":
        return parent + "//" + name, cwd
    if not isdir:
        return None
    if kind == "trailing-sep":
        return root + "/", cwd
    if kind == "trailing-dot":
        return root + "/.", cwd
    if kind == "sub-dotdot":
        subs = sorted({f["path"][0] for f in tree["files"] if len(f["path"]) > 1})
        if not subs:
            return None
        return os.path.join(root, subs[0], ".."), cwd
    if kind == "cwd-dot":
        return ".", root
    raise ValueError(kind)


class OutOfDomain(Exception):
    pass


def create(case, env, root, scr, tag):
    """Create the metafile in the given environment; returns Meta."""
    cwds = {"scratch": scr, "parent": os.path.dirname(root), "elsewhere": os.path.join(scr, "elsewhere")}
    os.makedirs(cwds["elsewhere"], exist_ok=True)
    cwd = cwds[env["cwd"]]
    sp = spell(env["spelling"], root, cwd, case["tree"])
    if sp is None:
        sp = (root, cwd)
    path, cwd = sp
    outdir = os.path.join(scr, "out-" + tag)
    os.makedirs(outdir, exist_ok=True)
    out = os.path.join(outdir, env["outname"])
    if env["outname"] == "INSIDE-CONTENT" and not case["tree"]["single"]:
        # the metafile is written into the payload directory itself (it does not exist while the payload is hashed)
        out = os.path.join(root, case["tree"]["name"] + "-inside.torrent")
    opts = dict(case["info_opts"])
    for k in ("announce", "url_list", "httpseeds"):
        if env[k]:
            opts[k] = list(env[k])
    if case["route"] == "cli" and any(os.path.exists(os.path.join(cwd, u)) for k in ("announce", "url_list", "httpseeds") for u in opts.get(k, [])):
        # a "url" that names an existing path: the documented recovery of a swallowed content path would pick it up - not a url
        raise OutOfDomain()
    old = os.getcwd()
    os.chdir(cwd)
    try:
        with listdir.ListdirOrder(env["order"]), clock.FrozenClock([target.torrent], env["clock"]):
            if case["route"] == "cli":
                argv = (["-q"] if env["quiet"] else []) + ["create", "--meta-version", CLI_CREATORS[case["creator"]], "-o", out,
                                                            "--prog", str(env["progress"])]
                if case["P"] is not None:
                    argv += ["--piece-length", str(case["P"])]
                argv += edits.options_to_cli(opts)
                argv.append(path)
                target.execute(argv)
            else:
                target.create_lib(case["creator"], path, out, piece_length=case["P"], progress=env["progress"], **opts)
    finally:
        os.chdir(old)
    return vmeta.Meta.from_file(out)


_server = None
BASE_ENV = {"spelling": "abs", "cwd": "scratch", "copy": False, "order": 0, "announce": None, "url_list": None, "httpseeds": None,
            "progress": 0, "quiet": False, "clock": 1600000000, "outname": "o.torrent"}


def perform(req):
    """Runs in a grandchild of the pristine server: the canonical create in an interpreter that has done nothing else."""
    try:
        m = create(req["case"], BASE_ENV, req["root"], req["scr"], "fresh")
    except Exception as e:  # noqa: BLE001
        return {"exception": type(e).__name__}
    return {"info": m.info_span.hex()}


def setup_worker():
    global _server
    if _server is None:
        _server = pristine.Pristine(perform)
        _server.start()


def teardown_worker():
    global _server
    if _server is not None:
        _server.stop()
        _server = None


def _skip_broken_links(directory, names):
    # (copytree's own ignore_dangling_symlinks resolves relative link targets against the cwd)
    return [n for n in names if os.path.islink(os.path.join(directory, n)) and not os.path.exists(os.path.join(directory, n))]


def run_case(case):
    if case.get("kind") == "cycle":
        return run_cycle(case)
    target.reset()
    tree = case["tree"]
    var = case["variant"]
    base = {"spelling": "abs", "cwd": "scratch", "copy": False, "order": 0, "announce": None, "url_list": None, "httpseeds": None,
            "progress": 0, "quiet": False, "clock": 1600000000, "outname": "o.torrent"}
    with sandbox.Scratch("c08") as scr:
        os.makedirs(os.path.join(scr, "pA"))
        root = sandbox.materialize(tree, os.path.join(scr, "pA"))
        root2 = root
        if var["copy"]:
            os.makedirs(os.path.join(scr, "other", "deeper", "pB"))
            root2 = os.path.join(scr, "other", "deeper", "pB", tree["name"])
            if tree["single"]:
                shutil.copyfile(root, root2)
            else:
                shutil.copytree(root, root2, ignore=_skip_broken_links)          # links are dereferenced ...
                for link in tree.get("links", []):                               # ... except a broken one, which stays a broken link
                    lp = os.path.join(root2, *link["path"])
                    if not os.path.lexists(lp):
                        os.symlink(link["target"], lp)
        try:
            mb = create(case, base, root, scr, "base")
        except OutOfDomain:
            return Outcome(None, False, ["url-names-an-existing-path"])
        except Exception as e:
            return Outcome(Violation("C08:base-exception:%s" % type(e).__name__, "create in the canonical environment raised %r" % (e,)), False)
        target.reset()
        fresh = None
        if var.get("history"):
            if _server is not None:
                fresh = _server.query({"case": case, "root": root, "scr": scr})
                if "harness-error" in fresh:
                    raise HarnessError("pristine side failed: %s" % fresh["harness-error"])
            common.apply_warmup(scr, var["history"])
        applied = spell(var["spelling"], root2, scr, tree) is not None
        try:
            mv = create(case, var, root2, scr, "var")
        except OutOfDomain:
            return Outcome(None, False, ["url-names-an-existing-path"])
        except Exception as e:
            return Outcome(Violation("C08:variant-exception:%s:%s" % (var["spelling"] if applied else "abs", type(e).__name__),
                                     "create in the variant environment raised %r" % (e,)), True)
    dims = sorted(k for k in base if var[k] != base[k] and not (k == "spelling" and not applied))
    if var.get("history"):
        dims = sorted(dims + ["history"])
    classes = ["dim-" + d for d in dims] or ["identical-rerun"]
    if applied and var["spelling"] != "abs":
        classes.append("spelling-" + var["spelling"])
    if var["copy"] and (tree.get("dirlinks") or tree.get("links")):
        # the copy is dereferenced: it is the same payload only as long as the tool publishes what links point to under the
        # link's name (it does).  Should it list other files for the two trees, they are different payloads - not judged.
        def listed(m):
            try:
                if b"file tree" in m.info:
                    return sorted(("/".join(p), n) for p, n, _ in m.tree_leaves())
                ent = m.v1_entries()
                return None if ent is None else sorted(("/".join(p), n) for p, n, pad in ent if not pad)
            except Exception:  # noqa: BLE001
                return None
        if listed(mb) != listed(mv):
            return Outcome(None, False, classes + ["copy-of-links-lists-other-files"])
        classes.append("links-vs-dereferenced-copy")
    if fresh is not None:
        classes.append("vs-fresh-interpreter")
        if fresh.get("info") != mv.info_span.hex():
            return Outcome(Violation("C08:info-differs:history-vs-fresh-interpreter", "info dictionary created after an unrelated create (%r) in a long-lived "
                                     "process differs from the one an interpreter that has done nothing else creates (%s)" % (
                                         var["history"], fresh.get("exception") or "other bytes")), True, classes)
    ib = bencode.encode(mb.info)
    iv = bencode.encode(mv.info)
    if ib != iv or mb.info_span != mv.info_span:
        keys = sorted(k.decode("latin-1") for k in set(mb.info) | set(mv.info) if mb.info.get(k) != mv.info.get(k))
        if not keys:
            keys = ["<encoding>"]
        cause = "+".join(d for d in dims)
        if "spelling" in dims:
            cause = "spelling:" + var["spelling"]
        return Outcome(Violation("C08:info-differs:%s:%s" % (keys[0], cause), "info dictionary differs in %r between the canonical and the variant environment (%s)" % (
            keys, ", ".join("%s=%r" % (d, var[d]) for d in dims))), True, classes)
    if not (set(dims) & {"announce", "url_list", "httpseeds"}):
        if mb.without("creation date") != mv.without("creation date"):
            keys = sorted(k.decode("latin-1") for k in set(mb.top) | set(mv.top) if mb.top.get(k) != mv.top.get(k) and k != b"creation date")
            return Outcome(Violation("C08:file-differs:%s" % (keys[0] if keys else "?"), "metafiles differ beyond the creation date in %r (%s)" % (keys, dims)), True, classes)
    else:
        drop = ("creation date", "announce", "announce-list", "url-list", "httpseeds")
        if mb.without(*drop) != mv.without(*drop):
            keys = sorted(k.decode("latin-1") for k in set(mb.top) | set(mv.top) if mb.top.get(k) != mv.top.get(k) and k.decode("latin-1") not in drop)
            return Outcome(Violation("C08:file-differs-outside-trackers:%s" % (keys[0] if keys else "?"), "tracker/seed variant changed %r" % (keys,)), True, classes)
    multi_entry = False
    if not tree["single"]:
        seen = {}
        for f in tree["files"]:
            for i in range(len(f["path"])):
                seen.setdefault(tuple(f["path"][:i]), set()).add(f["path"][i])
        multi_entry = any(len(v) >= 2 for v in seen.values())
    nontrivial = bool(dims) and (("spelling" in dims) or multi_entry)
    return Outcome(None, nontrivial, classes)
