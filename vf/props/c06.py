"""C06 - every metafile written is canonical, structurally valid bencoding."""
import os

from hypothesis import strategies as st

from vf import meta as vmeta, sandbox, target
from vf.engine import Outcome, Violation
from vf.gen import edits, trees
from vf.props import common
from vf.props import c07
from vf.props.c07 import apply_edit

ID = "C06"
LEVEL = "exploration"
TECHNIQUE = "Hypothesis-generated create (tree x version x options x route) followed by generated edit sequences; the raw bytes after every write go through a strict canonical bencode decoder and a per-version structure check ; thorough tier adds a coverage-guided (atheris/libFuzzer) stage over the same strategy"
RULE = ("Cases: tree (1..6 files, several larger than the piece length so piece-layer key order is observable) x creator (all five "
        "classes; CLI for TorrentFile/TorrentAssembler) x options (trackers, web/http seeds, comment, source, private) followed by "
        "0..5 edit requests (library or CLI). After each write: keys unique and strictly ascending as raw bytes at every nesting "
        "level, integers and string lengths without redundant digits, nothing after the top-level dictionary; v1: name, piece length, "
        "length xor files, pieces of 20-byte hashes; v2: meta version 2, file tree, top-level piece layers with 32-byte keys and values "
        "that are multiples of 32; hybrid: all of these. Non-trivial: >=2 files larger than P in a v2/hybrid metafile, or an edit that "
        "adds a key that was absent. Distinct = distinct canonical case JSON.")
ASSUMPTIONS = [
    "vf/ref/bencode.py strict decoder (self-checked against hand-made non-canonical documents at start)",
    "file names are valid UTF-8",
]
FUZZ_RUNS = 40000   # thorough tier: libFuzzer runs per campaign of the coverage-guided stage (vf/fuzz.py)
BUDGET = {
    "quick": {"examples": 600, "workers": 8, "time_cap": 70},
    "thorough": {"examples": 15000, "workers": 14, "time_cap": 900},
}
CLI_CREATORS = {"TorrentFile", "Assembler2", "Assembler3"}


def strategy(tier):
    @st.composite
    def case(draw):
        creator = draw(st.sampled_from(["TorrentFile", "Assembler2", "Assembler3", "TorrentFileV2", "TorrentFileHybrid",
                                        "Assembler2", "Assembler3"]))
        route = draw(st.sampled_from(["lib", "cli"])) if creator in CLI_CREATORS else "lib"
        cli = route == "cli"
        P = draw(st.sampled_from([16384, 16384, 32768]))
        t = draw(trees.tree(P, max_files=6, cli_safe=cli, big=False, modes=["rnd", "nz"]))
        c = {"tree": t, "P": P, "creator": creator, "route": route, "flag": draw(st.sampled_from(["", "", "-v", "-q"])),
             "opts": draw(edits.create_options(cli_safe=cli)),
             "edits": draw(st.lists(edits.edit_request(), min_size=0, max_size=5))}
        if draw(st.sampled_from([True] + [False] * 4)):
            # a foreign, canonical metafile with unknown (nested) keys, then edited: what edit writes must be canonical too
            c["foreign"] = draw(c07.source_strategy().filter(lambda s: s["kind"] == "ref"))
            c["edits"] = draw(st.lists(edits.edit_request(), min_size=1, max_size=5))
        return c
    return case()


def structure(m, version):
    """Return None or (sig, msg)."""
    info = m.info
    if not isinstance(info.get(b"name"), bytes) or not info[b"name"]:
        return "name", "info.name missing"
    pl = info.get(b"piece length")
    if not isinstance(pl, int) or pl <= 0:
        return "piece-length", "piece length missing"
    if version in (1, 3):
        pieces = info.get(b"pieces")
        if not isinstance(pieces, bytes) or len(pieces) % 20:
            return "pieces", "pieces missing or not a multiple of 20 bytes"
        if (b"length" in info) == (b"files" in info):
            return "length-xor-files", "exactly one of length / files required (length=%s files=%s)" % (b"length" in info, b"files" in info)
        if b"files" in info:
            try:
                es = m.v1_entries()
            except vmeta.MetaError as e:
                return "files", str(e)
            if not es or any(not c or ln < 0 for c, ln, _ in es):
                return "files", "empty files list or malformed entry"
        elif not isinstance(info[b"length"], int) or info[b"length"] < 0:
            return "length", "bad length"
    if version in (2, 3):
        if info.get(b"meta version") != 2:
            return "meta-version", "meta version != 2"
        try:
            m.tree_leaves()
        except vmeta.MetaError as e:
            return "file-tree", str(e)
        layers = m.top.get(b"piece layers")
        if not isinstance(layers, dict):
            return "piece-layers", "top-level piece layers missing"
        for k, v in layers.items():
            if len(k) != 32 or not isinstance(v, bytes) or len(v) % 32 or not v:
                return "piece-layers", "piece layers entry with key of %d bytes / value of %r bytes" % (len(k), len(v) if isinstance(v, bytes) else v)
    else:
        if b"meta version" in info or b"file tree" in info:
            return "v1-has-v2-keys", "v1 metafile carries v2 keys"
    return None


def check_file(path, version, stage):
    with open(path, "rb") as fd:
        data = fd.read()
    try:
        m = vmeta.Meta(data)
    except vmeta.MetaError as e:
        return None, Violation("C06:%s:undecodable" % stage, "file written by %s does not decode: %s" % (stage, e))
    if m.problems:
        kind, where, pos = m.problems[0]
        loc = "/".join(x.decode("latin-1") if isinstance(x, bytes) and len(x) < 20 else ("<%d bytes>" % len(x) if isinstance(x, bytes) else str(x))
                       for x in where[:-1]) or "<top>"
        return m, Violation("C06:%s:%s:%s" % (stage, kind, loc.split("/")[0] if loc else ""),
                            "file written by %s is not canonical: %s in dictionary %s (%d problems)" % (stage, kind, loc, len(m.problems)),
                            {"problems": repr(m.problems[:5])})
    s = structure(m, version)
    if s:
        return m, Violation("C06:%s:structure:%s" % (stage, s[0]), "file written by %s: %s" % (stage, s[1]))
    return m, None


def run_case(case):
    if case.get("kind") == "optimised":
        return run_optimised(case)
    tree, P = case["tree"], case["P"]
    version = {"TorrentFile": 1, "Assembler2": 2, "TorrentFileV2": 2, "Assembler3": 3, "TorrentFileHybrid": 3}[case["creator"]]
    target.reset()
    with sandbox.Scratch("c06") as scr:
        root = common.make(scr, tree)
        out = os.path.join(scr, "out", "o.torrent")
        if "foreign" in case:
            try:
                src = c07.build_source(os.path.join(scr, "foreign"), {"tree": tree, "source": case["foreign"]})
                import shutil
                shutil.copyfile(src, out)
                version = case["foreign"]["version"]
                P = 16384
            except Exception as e:
                return Outcome(Violation("C06:setup-exception:%s" % type(e).__name__, "building the foreign metafile raised %r" % (e,)), False)
            m, v = check_file(out, version, "foreign-input")
            if v:
                from vf.engine import HarnessError
                raise HarnessError("reference encoder produced a non-canonical metafile: %s" % v.msg)
        else:
            try:
                common.create(case["creator"], case["route"], root, out, P, extra_kw=dict(case["opts"]),
                              extra_cli=edits.options_to_cli(case["opts"]), flags=[case["flag"]] if case.get("flag") else [])
                if case.get("flag") == "-v":
                    import logging
                    logging.getLogger().setLevel(logging.DEBUG)      # what -v leaves behind for library callers, too
            except Exception as e:
                return Outcome(Violation("C06:create-exception:%s" % type(e).__name__, "create raised %r" % (e,)), True)
            m, v = check_file(out, version, "create")
        big = sum(1 for f in tree["files"] if f["size"] > P)
        classes = []
        nontrivial = version != 1 and big >= 2
        if nontrivial:
            classes.append("multi-layer-v2")
        if v:
            return Outcome(v, True, classes)
        for i, req in enumerate(case["edits"]):
            before = set(m.top) | {b"info." + k for k in m.info}
            try:
                apply_edit(req, out)
            except Exception as e:
                return Outcome(Violation("C06:edit-exception:%s" % type(e).__name__, "edit step %d raised %r" % (i, e)), True, classes)
            m, v = check_file(out, version, "edit")
            if m is not None:
                after = set(m.top) | {b"info." + k for k in m.info}
                if after - before:
                    nontrivial = True
                    classes.append("edit-adds-key")
                if before - after:
                    classes.append("edit-removes-key")
            if v:
                return Outcome(v, True, classes)
        return Outcome(None, nontrivial, sorted(set(classes)))


GRID_DESC = "create + edit run by an optimised interpreter (python -O / -OO) in a subprocess, v1/v2/hybrid, strict decode of what was written"


def grid(tier):
    return [{"kind": "optimised", "version": v, "opt": o} for v in ("1", "2", "3") for o in (("-O",) if tier == "quick" else ("-O", "-OO"))]


def run_optimised(case):
    """`python -O -m torrentfile create` then `edit`: assert statements are compiled out; the written bytes must be canonical."""
    import subprocess
    import sys
    with sandbox.Scratch("c06o") as scr:
        pay = os.path.join(scr, "pay")
        os.makedirs(pay)
        for i, n in enumerate((20000, 40000, 5)):
            with open(os.path.join(pay, "f%d" % i), "wb") as fd:
                fd.write(sandbox.content("rnd", i, n))
        out = os.path.join(scr, "o.torrent")
        env = dict(os.environ, PYTHONPATH=target.REPO, PYTHONDONTWRITEBYTECODE="1")
        version = int(case["version"])
        for stage, argv in (("create", ["create", "--meta-version", case["version"], "-o", out, "--prog", "0", "--piece-length", "14", "--comment", "c", pay]),
                            ("edit", ["edit", out, "--comment", "", "--source", "s"]),
                            ("edit", ["edit", out, "--tracker", "http://t/a"])):
            p = subprocess.run([sys.executable, case["opt"], "-m", "torrentfile"] + argv, capture_output=True, env=env, cwd=scr, timeout=120)
            if p.returncode != 0:
                return Outcome(Violation("C06:optimised:%s-failed" % stage, "python %s -m torrentfile %s exited %d: %s" % (
                    case["opt"], stage, p.returncode, p.stderr.decode("utf-8", "replace")[-300:])), True, ["optimised-interpreter"])
            m, v = check_file(out, version, stage + "-under" + case["opt"])
            if v:
                return Outcome(v, True, ["optimised-interpreter"])
    return Outcome(None, True, ["optimised-interpreter"])
