"""C01 - v1 piece string is the BEP 3 hashing of exactly the files on disk."""
import os

from hypothesis import strategies as st

from vf import meta as vmeta, sandbox, target
from vf.engine import Outcome, Violation
from vf.gen import trees
from vf.props import common
from vf.ref import hashing

ID = "C01"
LEVEL = "exploration"
TECHNIQUE = "Hypothesis-generated trees x piece lengths x routes (+ exhaustive boundary grid) against an independent BEP 3 reference hashing of the written metafile ; optional second act (one file rewritten in place, same process creates again) ; output written inside the content root (new name / over a listed file)"
RULE = ("Cases: generated content tree (1..8 files, quick; sizes biased to 0,1,k*16KiB+-2,k*P+-2, tiny) x piece length "
        "(2^14..2^16 quick, ..2^18 thorough, or automatic) x how P is spelled (int/exponent/str) x route (TorrentFile "
        "library call / CLI create --meta-version 1) x progress mode; plus an enumerated boundary grid. Non-trivial: "
        ">=2 files with some piece holding bytes of >=2 files, or a file whose size is not a multiple of P. Distinct "
        "= distinct canonical case JSON.")
ASSUMPTIONS = [
    "vf/ref/hashing.py (SHA-1 slicing, computed two ways) and vf/ref/bencode.py are correct (self-checked at start)",
    "tmpfs behaves as a POSIX filesystem; no symlinks/special files are generated (excluded by the property)",
    "file names are valid UTF-8 (pyben cannot encode others: a precondition of every caller)",
]
BUDGET = {
    "quick": {"examples": 800, "workers": 8, "time_cap": 70},
    "thorough": {"examples": 20000, "workers": 14, "time_cap": 900},
}
GRID_DESC = {
    "quick": "single file sizes k*B+d, k*P+d (k<=6, d in -1,0,1) x P in 2^14,2^15; two-file 8x8 boundary sizes x P=2^15",
    "thorough": "single file: all k*B+d, k*P+d, k<=17, d in {-1,0,1}, P in 2^14..2^17; two files: 30x30 boundary sizes x 3 P",
}


def strategy(tier):
    @st.composite
    def case(draw):
        P = draw(trees.piece_length(tier))
        route = draw(st.sampled_from(["lib", "lib", "cli"]))
        t = draw(trees.tree(P, max_files=8 if tier == "quick" else 24, cli_safe=(route == "cli"), symlinks=False))
        auto = draw(st.sampled_from([True] + [False] * 9))
        return {
            "tree": t, "P": None if auto else P,
            "P_form": draw(st.sampled_from(["int", "exp", "str", "expstr"])),
            "route": route, "progress": draw(st.sampled_from([0, 0, 1, 2])),
            "spelling": draw(st.sampled_from(["abs", "abs", "rel", "dot-rel"])),
            "again": draw(common.second_act()),
            # where the metafile goes: outside the payload, or - as when a torrent of a folder is saved into that folder,
            # possibly over the previous one - inside the content root (a new name, or on top of a listed payload file)
            "out_at": draw(st.sampled_from(["outside"] * 6 + ["inside-new", "inside-existing"])),
            "out_pick": draw(st.integers(0, 63)),
        }
    return case()


def _sizes(P, kmax):
    s = set()
    for k in range(kmax + 1):
        for d in (-1, 0, 1):
            for unit in (trees.B, P):
                v = k * unit + d
                if v >= 0:
                    s.add(v)
    return sorted(s)


def grid(tier):
    cases = []

    def single(size, P):
        return {"tree": {"name": "g", "single": True, "files": [{"path": [], "size": size, "mode": "rnd", "seed": size}]},
                "P": P, "P_form": "int", "route": "lib", "progress": 0}

    def pair(a, b, P):
        return {"tree": {"name": "g", "single": False, "files": [
            {"path": ["a"], "size": a, "mode": "rnd", "seed": a},
            {"path": ["b"], "size": b, "mode": "rnd", "seed": b + 1}]},
            "P": P, "P_form": "int", "route": "lib", "progress": 0}
    if tier == "quick":
        for P in (1 << 14, 1 << 15):
            for s in _sizes(P, 6):
                cases.append(single(s, P))
        P = 1 << 15
        bs = [0, 1, trees.B - 1, trees.B, P - 1, P, P + 1, 2 * P]
        for a in bs:
            for b in bs:
                if a + b:
                    cases.append(pair(a, b, P))
    else:
        for e in (14, 15, 16, 17):
            P = 1 << e
            for s in _sizes(P, 17):
                cases.append(single(s, P))
        for P in (1 << 14, 1 << 15, 1 << 16):
            bs = _sizes(P, 4)[:30]
            for a in bs:
                for b in bs:
                    if a + b:
                        cases.append(pair(a, b, P))
    return cases


def spell_P(P, form):
    e = P.bit_length() - 1
    return {"int": P, "exp": e, "str": str(P), "expstr": str(e)}[form]


def expected_files(tree):
    if tree["single"]:
        return None
    return sorted(("/".join(f["path"]), f["size"]) for f in tree["files"])


def classify(tree, order_sizes, P):
    """Shape classes from the listed order of sizes."""
    cls = []
    nontrivial = False
    if len(order_sizes) == 1:
        cls.append("single-exact" if order_sizes[0] % P == 0 else "single-short")
        nontrivial = order_sizes[0] % P != 0
    else:
        off = 0
        spans = {}
        for i, s in enumerate(order_sizes):
            if s:
                for p in range(off // P, (off + s - 1) // P + 1):
                    spans.setdefault(p, set()).add(i)
            off += s
        mx = max((len(v) for v in spans.values()), default=0)
        if mx >= 3:
            cls.append("straddle>=3")
        elif mx == 2:
            cls.append("straddle-2")
        if any(s == 0 for s in order_sizes):
            cls.append("empty-file-inside")
        if any(s and s % P == 0 for s in order_sizes):
            cls.append("file==k*P")
        nontrivial = mx >= 2 or any(s % P for s in order_sizes)
    return cls, nontrivial


def run_case(case):
    tree = case["tree"]
    target.reset()
    with sandbox.Scratch("c01") as scr:
        os.mkdir(os.path.join(scr, "src"))
        os.mkdir(os.path.join(scr, "out"))
        root = sandbox.materialize(tree, os.path.join(scr, "src"))
        out = os.path.join(scr, "out", "o.torrent")
        P = case["P"]
        out_at = case.get("out_at", "outside")
        if tree["single"] or any("via" in f or "hardlink" in f for f in tree["files"]):
            out_at = "outside"
        if out_at == "inside-new":
            out = os.path.join(root, "saved here.torrent")
            if os.path.lexists(out):
                out_at = "outside"
                out = os.path.join(scr, "out", "o.torrent")
        elif out_at == "inside-existing":
            f = tree["files"][case.get("out_pick", 0) % len(tree["files"])]
            out = os.path.join(root, *f["path"])
        old_cwd = os.getcwd()
        sp = case.get("spelling", "abs")
        if sp != "abs":
            # the content root given relative to the working directory (its parent)
            os.chdir(os.path.dirname(root))
            root = os.path.basename(root) if sp == "rel" else "./" + os.path.basename(root)
        try:
            if case["route"] == "lib":
                kw = {"progress": case["progress"]}
                if P is not None:
                    kw["piece_length"] = spell_P(P, case["P_form"])
                target.create_lib("TorrentFile", root, out, **kw)
            else:
                extra = ["--prog", str(case["progress"])]
                if P is not None:
                    extra += ["--piece-length", str(spell_P(P, case["P_form"]))]
                target.create_cli(1, root, out, extra)
            m = vmeta.Meta.from_file(out)
            first = judge(m, tree, P)
            if out_at != "outside":
                first.classes = tuple(first.classes) + ("out-" + out_at,)
            if first.violation is None and case.get("again") and out_at == "outside":
                tree2 = common.apply_second_act(tree, os.path.join(scr, "src", tree["name"]), case["again"])
                if tree2 is not None:
                    out2 = os.path.join(scr, "out", "again.torrent")
                    try:
                        if case["route"] == "lib":
                            target.create_lib("TorrentFile", root, out2, **kw)
                        else:
                            target.create_cli(1, root, out2, extra)
                        second = judge(vmeta.Meta.from_file(out2), tree2, P)
                    except Exception as e:
                        return Outcome(Violation("C01:again:exception:%s" % type(e).__name__, "second create raised %r" % (e,)), True)
                    if second.violation is not None:
                        v = second.violation
                        return Outcome(Violation("C01:again:" + v.sig.split(":", 1)[1], "second create in the same process after rewriting one file in place: " + v.msg), True,
                                       list(first.classes) + ["second-act"])
                    return Outcome(None, first.nontrivial, list(first.classes) + ["second-act"])
            return first
        except Exception as e:  # any failure on a valid input is a violation of "a v1 metafile created from any..."
            return Outcome(Violation("C01:exception:%s" % type(e).__name__, "create raised %r" % (e,)), True, ["exception"])
        finally:
            os.chdir(old_cwd)


def judge(m, tree, P_req):
    info = m.info
    rec = info.get(b"piece length")
    if not isinstance(rec, int) or rec <= 0:
        return Outcome(Violation("C01:piece-length-invalid", "recorded piece length %r" % (rec,)), True)
    if P_req is not None and rec != P_req:
        return Outcome(Violation("C01:piece-length-differs", "requested %d recorded %d" % (P_req, rec)), True)
    by_path = {"/".join(f["path"]): f for f in tree["files"]}
    shape = "single" if tree["single"] else "multi"
    if tree["single"]:
        if b"files" in info or info.get(b"length") != tree["files"][0]["size"]:
            return Outcome(Violation("C01:single:length", "single file: length=%r files=%r expected length %d" % (
                info.get(b"length"), b"files" in info, tree["files"][0]["size"])), True)
        if m.name() != tree["name"]:
            return Outcome(Violation("C01:single:name", "name %r != %r" % (m.name(), tree["name"])), True)
        order = [tree["files"][0]]
    else:
        try:
            entries = m.v1_entries()
        except vmeta.MetaError as e:
            return Outcome(Violation("C01:multi:malformed", str(e)), True)
        if entries is None or b"length" in info:
            return Outcome(Violation("C01:multi:no-files", "directory payload without info.files"), True)
        listed = sorted(("/".join(c), ln) for c, ln, pad in entries if not pad)
        exp = expected_files(tree)
        if listed != exp:
            missing = [e for e in exp if e not in listed]
            extra = [e for e in listed if e not in exp]
            return Outcome(Violation("C01:multi:files-mismatch", "files listed != files on disk; missing %r extra %r" % (
                missing[:3], extra[:3])), True)
        if any(pad for _, _, pad in entries):
            return Outcome(Violation("C01:multi:unexpected-pad", "padding entries without --align"), True)
        order = [by_path["/".join(c)] for c, ln, pad in entries]
    chunks = [sandbox.file_bytes(f) for f in order]
    ref = hashing.v1_pieces(chunks, rec)
    got = info.get(b"pieces")
    sizes = [f["size"] for f in order]
    classes, nontrivial = classify(tree, sizes, rec)
    if got != ref:
        kind = "count" if not isinstance(got, bytes) or len(got) != len(ref) else "hash"
        first = None
        if isinstance(got, bytes):
            for i in range(0, min(len(got), len(ref)), 20):
                if got[i:i + 20] != ref[i:i + 20]:
                    first = i // 20
                    break
        return Outcome(Violation("C01:%s:pieces-%s" % (shape, kind),
                                 "piece string differs from reference (P=%d sizes=%r first differing piece %r, got %d ref %d hashes)" % (
                                     rec, sizes[:12], first, len(got) // 20 if isinstance(got, bytes) else -1, len(ref) // 20)),
                       True, classes)
    return Outcome(None, nontrivial, classes)
