"""C07 - edit changes only the named fields; hash-bearing data is untouched."""
import copy
import hashlib
import os

from hypothesis import strategies as st

from vf import meta as vmeta, sandbox, target
from vf.engine import Outcome, Violation
from vf.gen import edits, trees
from vf.props import common
from vf.ref import bencode, metafile as refmeta

ID = "C07"
LEVEL = "exploration"
TECHNIQUE = "Hypothesis-generated edit sequences (library edit_torrent and CLI `edit`) over own and reference-encoded metafiles, checked after every step against a dict model plus raw-span / info-hash invariance ; thorough tier adds a coverage-guided (atheris/libFuzzer) stage over the same strategy"
RULE = ("Cases: metafile (tool-made v1/v2/hybrid with any subset of optional fields, or reference-encoded with unknown extra keys at "
        "top level and in info, optionally a top-level comment as other clients write it) x sequence of 1..6 edit requests; each of the six fields is unnamed / set (string or list) / cleared (library: empty string; command line: an empty argument, also for the list options); "
        "each request goes through edit_torrent or execute(['edit',...]). Oracle after every step: strict-decoded file == model "
        "(original with each named field at its last-written value, removed if cleared); raw byte spans of pieces, files, file tree, "
        "piece layers, piece length, name unchanged; SHA-1/SHA-256 of the raw info span unchanged by any step naming only trackers / "
        "web seeds / http seeds (or nothing). Non-trivial: >=2 requests touching different fields, or a clear after a set, or a CLI "
        "request that does not name --private. Distinct = distinct canonical case JSON.")
ASSUMPTIONS = [
    "vf/ref/bencode.py strict decoder with byte spans; vf/ref/metafile.py reference encoder for the foreign metafiles",
    "string values for list fields are whitespace-separated lists (documented splitting); clearing `announce` leaves announce-list unconstrained",
    "the tool's comment field is info.comment; a foreign top-level `comment` key must survive every edit that does not clear the comment, and a clearing edit removes it as well (it is outside the info dictionary, and the tool has always removed it)",
    "input metafiles are canonical bencoding (C06 is the property about what is written)",
]
FUZZ_RUNS = 40000   # thorough tier: libFuzzer runs per campaign of the coverage-guided stage (vf/fuzz.py)
BUDGET = {
    "quick": {"examples": 800, "workers": 8, "time_cap": 70},
    "thorough": {"examples": 20000, "workers": 14, "time_cap": 900},
}
HASH_KEYS_INFO = [b"pieces", b"files", b"file tree", b"piece length", b"name", b"length", b"meta version"]

EXTRA_TOP = {
    "a-note": b"info",                           # the bytes '4:info' occur before the real info key
    "created by": b"torrentfile_v0.8.9",         # made by an older release of this very tool
    "created  by": b"someone", "encoding": b"GBK", "creation date": 1234567890, "x-bin": b"\xff\xfe\x00",
    "nodes": [[b"host", 6881]], "zz": {b"b": 1, b"a": []}, "azureus_properties": {b"dht_backup_enable": 1},
}
EXTRA_INFO = {"x_cross_seed": b"abc", "unknown-int": -7, "bin": b"\x80\x81", "entropy": [1, [b"x"]], "ssl-cert": b"",
              # info keys that merely share their name with a top-level editable field: part of the info-hash, not "the field"
              "url-list": [b"http://inside.example/info"], "announce": b"http://inside.example/a", "httpseeds": [b"http://inside.example/h"]}


def small_tree():
    return trees.tree(16384, max_files=3, big=False, nonempty_total=True)


def source_strategy(cli_safe_opts=True):
    own = st.fixed_dictionaries({
        "kind": st.just("own"),
        "creator": st.sampled_from(["TorrentFile", "Assembler2", "Assembler3", "TorrentFileV2", "TorrentFileHybrid"]),
        "opts": edits.create_options(),
    })
    ref = st.fixed_dictionaries({
        "kind": st.just("ref"),
        "version": st.sampled_from([1, 2, 3]),
        "top": st.lists(st.sampled_from(sorted(EXTRA_TOP)), unique=True, max_size=4),
        "info": st.lists(st.sampled_from(sorted(EXTRA_INFO)), unique=True, max_size=3),
        "announce": st.one_of(st.none(), edits.url_list()),
        "more_tiers": st.lists(edits.url_list(), max_size=2),
        "url_list": st.one_of(st.none(), edits.url_list()),
        "private": st.booleans(),
        "comment": st.one_of(st.none(), edits.text()),
        # where most other clients put it: a comment at the top level (the tool's own comment field is info.comment)
        "top_comment": st.one_of(st.none(), st.none(), edits.text()),
    })
    return st.one_of(own, ref)


def strategy(tier):
    @st.composite
    def case(draw):
        reqs = draw(st.lists(edits.edit_request(), min_size=1, max_size=6))
        if len(reqs) >= 2 and draw(st.sampled_from([True, False, False])):
            # a library caller that keeps one request dict and sends it again later (after other edits): same request, same effect
            libs = [i for i, r in enumerate(reqs) if r["route"] == "lib"]
            if libs:
                k = draw(st.integers(0, len(libs) - 1))
                again = dict(reqs[libs[k]], resend=k)
                reqs.append(again)
        return {"tree": draw(small_tree()), "source": draw(source_strategy()), "edits": reqs}
    return case()


def build_source(scr, case):
    """Write the initial metafile; returns its path."""
    tree = case["tree"]
    src = case["source"]
    root = common.make(scr, tree)
    out = os.path.join(scr, "out", "m.torrent")
    P = 16384
    if src["kind"] == "own":
        common.create(src["creator"], "lib", root, out, P, extra_kw=dict(src["opts"]))
    else:
        top = {k: EXTRA_TOP[k] for k in src["top"]}
        if src["announce"]:
            top["announce"] = src["announce"][0].encode()
            top["announce-list"] = [[u.encode() for u in src["announce"]]] + [
                [u.encode() for u in tier] for tier in src.get("more_tiers", [])]
        if src["url_list"]:
            top["url-list"] = [u.encode() for u in src["url_list"]]
        if src.get("top_comment"):
            top["comment"] = src["top_comment"].encode()
        info_extra = {k: EXTRA_INFO[k] for k in src["info"]}
        if src["private"]:
            info_extra["private"] = 1
        if src["comment"]:
            info_extra["comment"] = src["comment"].encode()
        data = refmeta.build(tree, P, src["version"], top=top, info_extra=info_extra, trailing_pad=True)
        with open(out, "wb") as fd:
            fd.write(data)
    return out


def spans(m):
    out = {}
    for k in HASH_KEYS_INFO:
        n = m.info_node.get(k)
        out[b"info." + k] = None if n is None else m.data[n.start:n.end]
    n = m.node.get(b"piece layers")
    out[b"piece layers"] = None if n is None else m.data[n.start:n.end]
    return out


def apply_edit(req, path, sent=None):
    """sent: list collecting the dict objects handed to edit_torrent (a caller may send the very same object again)."""
    if req["route"] == "lib":
        if req.get("resend") is not None and sent:
            args = sent[req["resend"] % len(sent)][1]       # the same dict object as in an earlier call
        else:
            args = edits.edit_to_lib_args(req)
        if sent is not None:
            sent.append((req, args))
        with target.quiet():
            target.edit_mod.edit_torrent(path, args)
    else:
        target.execute(edits.edit_to_cli(req, path))


def run_case(case):
    target.reset()
    with sandbox.Scratch("c07") as scr:
        try:
            path = build_source(scr, case)
            m0 = vmeta.Meta.from_file(path)
        except Exception as e:
            return Outcome(Violation("C07:setup-exception:%s" % type(e).__name__, "creating the input metafile raised %r" % (e,)), False)
        model = copy.deepcopy(m0.top)
        span0 = spans(m0)
        prev = m0
        touched = []
        set_fields = set()
        sent = []
        clear_after_set = False
        cli_without_private = False
        for i, req in enumerate(case["edits"]):
            if req["route"] == "lib" and req.get("resend") is not None and sent:
                # the dict object of an earlier library call goes out again: what it asks for is what that request asked for
                req = dict(sent[req["resend"] % len(sent)][0], resend=req["resend"])
            for f, op in req["fields"].items():
                if op["op"] == "clear" and f in set_fields:
                    clear_after_set = True
                if op["op"] == "set":
                    set_fields.add(f)
            if req["route"] == "cli" and "private" not in req["fields"]:
                cli_without_private = True
            touched.append(frozenset(req["fields"]))
            loose = edits.apply_to_model(model, req)
            if req["fields"].get("comment", {}).get("op") == "clear":
                # "removed, if last written empty": a cleared comment is gone from info (where a set comment is written) and
                # from the top level (where other clients keep it, and where the tool has always removed it from)
                model.pop(b"comment", None)
            try:
                apply_edit(req, path, sent)
                m = vmeta.Meta.from_file(path)
            except Exception as e:
                return Outcome(Violation("C07:exception:%s:%s" % (req["route"], type(e).__name__),
                                         "edit step %d raised %r" % (i, e)), True)
            got = m.top
            exp = model
            if loose:
                got = {k: v for k, v in got.items() if k not in loose}
                exp = {k: v for k, v in exp.items() if k not in loose}
                for k in loose:  # whatever the tool left there is the new baseline
                    if k in m.top:
                        model[k] = m.top[k]
                    else:
                        model.pop(k, None)
            if got != exp:
                v = _diff(got, exp, req)
                return Outcome(v, True)
            sp = spans(m)
            for k, b0 in span0.items():
                if sp[k] != b0:
                    return Outcome(Violation("C07:span-changed:%s" % k.decode(), "raw bytes of %s changed by edit step %d" % (k.decode(), i)), True)
            info_named = set(req["fields"]) & {"comment", "source", "private"}
            if not info_named and m.info_span != prev.info_span:
                return Outcome(Violation("C07:infohash-changed:%s" % req["route"],
                                         "edit naming only %r changed the info dictionary bytes (info-hash %s -> %s)" % (
                                             sorted(req["fields"]), hashlib.sha1(prev.info_span).hexdigest()[:12],
                                             hashlib.sha1(m.info_span).hexdigest()[:12])), True)
            prev = m
        distinct_fields = len(set().union(*touched)) if touched else 0
        nontrivial = (len(case["edits"]) >= 2 and distinct_fields >= 2) or clear_after_set or cli_without_private
        classes = []
        if clear_after_set:
            classes.append("clear-after-set")
        if cli_without_private:
            classes.append("cli-without-private")
        if case["source"]["kind"] == "ref":
            classes.append("foreign-metafile")
        if any(r["route"] == "cli" for r in case["edits"]) and any(r["route"] == "lib" for r in case["edits"]):
            classes.append("mixed-routes")
        return Outcome(None, nontrivial, classes)


def _diff(got, exp, req):
    def flat(d, prefix=b""):
        out = {}
        for k, v in d.items():
            if isinstance(v, dict) and k == b"info":
                out.update(flat(v, b"info."))
            else:
                out[prefix + k] = v
        return out
    g, e = flat(got), flat(exp)
    keys = sorted(k for k in set(g) | set(e) if g.get(k) != e.get(k))
    named = set()
    for f in req["fields"]:
        named.add(f.encode())
        named.add(b"info." + f.encode())
        if f == "announce":
            named.add(b"announce-list")
    unnamed = [k for k in keys if k not in named]
    if unnamed:
        return Violation("C07:unnamed-field-changed:%s:%s" % (req["route"], unnamed[0].decode("latin-1")),
                         "edit naming %r changed unnamed field(s) %r" % (sorted(req["fields"]), [k.decode("latin-1") for k in unnamed]),
                         {"got": repr({k: g.get(k) for k in unnamed})[:500], "expected": repr({k: e.get(k) for k in unnamed})[:500]})
    return Violation("C07:named-field-wrong:%s:%s" % (req["route"], keys[0].decode("latin-1")),
                     "edit of %r left %r != last-written value" % (sorted(req["fields"]), [k.decode("latin-1") for k in keys]),
                     {"got": repr({k: g.get(k) for k in keys})[:500], "expected": repr({k: e.get(k) for k in keys})[:500]})
