"""C19 - rebuild never writes outside the destination, whatever the metafile says."""
import contextlib
import os

from hypothesis import strategies as st

from vf import sandbox, target
from vf.engine import Outcome, Violation
from vf.instr import faultfs, listdir
from vf.ref import bencode, hashing

ID = "C19"
LEVEL = "exploration"
TECHNIQUE = "Hypothesis-generated hostile metafiles (reference-encoded v1/v2/hybrid with '..', '.', '', absolute and separator-embedding names/path elements) with matching candidates in the search directories so that copies are attempted; oracle: snapshot of everything outside the destination (inside a sandbox root) before/after ; zero-length entries, duplicate targets, prefix-named siblings of the destination; thorough tier adds a coverage-guided (atheris/libFuzzer) stage"
RULE = ("Cases: reference-encoded v1 / v2 / hybrid metafile whose info.name and path elements are drawn from {'..', '.', '', 'a/../../b', "
        "'<absolute sandbox path>/x', chains of '..' up to 6 deep, benign names}, 1..3 files of non-zero bytes with correct hashes, and "
        "candidate files with the matching base name, size and content in the search directory so the copy is attempted. The destination "
        "sits 8 levels deep in the per-case sandbox so every '..' chain and every absolute path stays inside scratch. Oracle: the "
        "snapshot (names, types, sizes, digests) of the sandbox minus the destination is identical before and after "
        "Assembler(...).assemble_torrents(); raising or skipping is fine. In a quarter of the cases the k-th filesystem operation of the rebuild (k drawn 0..40) fails with ENOSPC, so that error and clean-up paths run too. Non-trivial: some component is hostile and a candidate with the "
        "file's base name and size exists (a copy is attempted unless refused). Distinct = distinct canonical case JSON.")
ASSUMPTIONS = [
    "absolute path elements point into the per-case sandbox (nothing outside scratch can be touched by a failing run)",
    "snapshots compare names, types, sizes and SHA-256 digests of everything in the sandbox outside the destination",
]
FUZZ_RUNS = 40000   # thorough tier: libFuzzer runs per campaign of the coverage-guided stage (vf/fuzz.py)
BUDGET = {
    "quick": {"examples": 1500, "workers": 8, "time_cap": 70},
    "thorough": {"examples": 15000, "workers": 14, "time_cap": 900},
}
# no bare "/" and nothing absolute except ABS (which resolves into the per-case sandbox): a tool that fails this
# property must still not be able to reach anything outside the scratch directory
HOSTILE = ["..", ".", "", "a/../../b", "../x", "ABS", "ABS/sub", "../../..", "a/..", "./..", "..\\..", "x/", "//x"]
MAX_CLIMB = 7     # the destination sits 8 levels below the sandbox root
BENIGN = ["a", "b", "dir", "evil.txt", "f.bin"]
# siblings of the destination whose names merely *start with* the destination's name (string-prefix containment tests accept them)
SIBLINGS = ["dest2", "dest.bak", "dest-old"]


def comp():
    return st.one_of(st.sampled_from(HOSTILE), st.sampled_from(HOSTILE), st.sampled_from(BENIGN), st.sampled_from(SIBLINGS))


def strategy(tier):
    @st.composite
    def case(draw):
        version = draw(st.sampled_from([1, 1, 2, 3]))
        nfiles = draw(st.integers(1, 3))
        single = draw(st.booleans()) and nfiles == 1
        files = []
        for i in range(nfiles):
            dirs = draw(st.lists(comp(), min_size=0, max_size=6))
            # the last element is the lookup key for candidates: mostly a plain name so that a candidate can exist
            last = draw(st.one_of(st.sampled_from(BENIGN), st.sampled_from(BENIGN), comp()))
            files.append({"path": dirs + [last], "size": draw(st.sampled_from([0, 1, 5, 16384, 16385, 20000])), "seed": i + draw(st.integers(0, 50))})
        if nfiles >= 2 and draw(st.sampled_from([True] + [False] * 3)):
            # two entries that denote the same destination path ('f' and './f'), the second one larger
            files[1] = {"path": [draw(st.sampled_from([".", ""]))] + list(files[0]["path"]), "size": files[0]["size"] + 16384, "seed": files[0]["seed"] + 1}
        name = draw(st.one_of(comp(), st.sampled_from(BENIGN), st.lists(st.just(".."), min_size=1, max_size=6).map("/".join)))
        return {"version": version, "name": name, "single": single, "files": files, "P": 16384,
                "order": draw(st.sampled_from([0, 1, 2])), "cwd_root": draw(st.sampled_from([False, False, True])),
                # the destination disk fills up: the k-th filesystem operation of the rebuild fails with ENOSPC (cleanup paths run)
                "diskfull": draw(st.one_of(st.none(), st.none(), st.none(), st.integers(0, 40)))}
    return case()


def _resolve(s, sandbox_root):
    return s.replace("ABS", os.path.join(sandbox_root, "abs-target"))


def _cap_climb(name, comps):
    """Neutralise '..' segments that would take dest/name/comps... above the sandbox root, and absolute segments
    other than ABS.  Returns (name, comps) with the excess '..' replaced by '.'; pure function of its input."""
    depth = 0
    out = []
    for s in [name] + list(comps):
        if "ABS" in s:
            out.append(s)
            depth = -MAX_CLIMB + 1      # join() restarts at <sandbox>/abs-target: one more '..' still stays inside
            continue
        parts = s.split("/")
        new = []
        for i, part in enumerate(parts):
            if part == "" and i == 0 and len(parts) > 1:
                part = "."          # a leading '/' would make the joined path absolute
            if part == "..":
                if depth - 1 < -MAX_CLIMB:
                    part = "."
                else:
                    depth -= 1
            elif part not in ("", "."):
                depth += 1
            new.append(part)
        out.append("/".join(new))
    return out[0], out[1:]


def capped(case):
    """The case with every name/path chain limited so that nothing can leave the sandbox."""
    c = dict(case)
    files = []
    name = case["name"]
    for f in case["files"]:
        name, comps = _cap_climb(case["name"], f["path"])
        files.append(dict(f, path=comps))
    c["name"] = name
    c["files"] = files
    return c


def build_meta(case, sandbox_root):
    """Hostile metafile bytes with correct hashes for the files' contents."""
    P = case["P"]
    name = _resolve(case["name"], sandbox_root).encode()
    files = case["files"]
    datas = [sandbox.content("nz", f["seed"], f["size"]) for f in files]
    if case["version"] in (2, 3) and all(len(d) == 0 for d in datas):
        pass
    info = {b"name": name, b"piece length": P}
    doc = {}
    if case["version"] in (2, 3):
        layers = {}
        tree = {}

        def leaf(data):
            if len(data) == 0:
                return {b"": {b"length": 0}}
            root, layer = hashing.merkle(data, P)
            if len(data) > P:
                layers[root] = layer
            return {b"": {b"length": len(data), b"pieces root": root}}
        if case["single"]:
            tree[name] = leaf(datas[0])
        else:
            for f, data in zip(files, datas):
                d = tree
                comps = [_resolve(c, sandbox_root).encode() for c in f["path"]]
                ok = True
                for c in comps[:-1]:
                    nxt = d.setdefault(c, {})
                    if b"" in nxt:
                        ok = False
                        break
                    d = nxt
                if ok and comps[-1] not in d:
                    d[comps[-1]] = leaf(data)
        info[b"file tree"] = tree
        info[b"meta version"] = 2
        doc[b"piece layers"] = layers
    if case["version"] in (1, 3):
        if case["single"]:
            info[b"length"] = len(datas[0])
            info[b"pieces"] = hashing.v1_pieces([datas[0]], P)
        else:
            entries, chunks = [], []
            for f, data in zip(files, datas):
                entries.append({b"length": len(data), b"path": [_resolve(c, sandbox_root).encode() for c in f["path"]]})
                chunks.append(data)
                if case["version"] == 3 and len(data) % P:
                    pad = -len(data) % P
                    entries.append({b"attr": b"p", b"length": pad, b"path": [b".pad", b"%d" % pad]})
                    chunks.append(bytes(pad))
            info[b"files"] = entries
            info[b"pieces"] = hashing.v1_pieces(chunks, P)
    doc[b"info"] = info
    return bencode.encode(doc), datas


def is_hostile(s):
    return s in ("", ".", "..") or "/" in s or "\\" in s or "ABS" in s


def run_case(case):
    target.reset()
    case = capped(case)
    with sandbox.Scratch("c19") as scr:
        deep = os.path.join(scr, *["l%d" % i for i in range(8)])
        dest = os.path.join(deep, "dest")
        os.makedirs(dest)
        search = os.path.join(scr, "search")
        mdir = os.path.join(scr, "meta")
        os.makedirs(search)
        os.makedirs(mdir)
        os.makedirs(os.path.join(scr, "abs-target"))
        with open(os.path.join(scr, "bystander.txt"), "wb") as fd:
            fd.write(b"bystander")
        data, datas = build_meta(case, scr)
        mf = os.path.join(mdir, "h.torrent")
        with open(mf, "wb") as fd:
            fd.write(data)
        attempted = False
        for i, (f, d) in enumerate(zip(case["files"], datas)):
            key = _resolve(case["name"], scr) if case["single"] else _resolve(f["path"][-1], scr)
            base = os.path.basename(key) if "/" not in key else None
            if base and base not in (".", ".."):
                sub = os.path.join(search, "c%d" % i)
                os.makedirs(sub, exist_ok=True)
                with open(os.path.join(sub, base), "wb") as fd:
                    fd.write(d)
                os.chmod(os.path.join(sub, base), 0o444 if i % 2 else 0o644)
                attempted = True
        hostile = is_hostile(case["name"]) or any(is_hostile(c) for f in case["files"] for c in f["path"])
        before = sandbox.snapshot(scr)
        exc = None
        old_cwd = os.getcwd()
        if case.get("cwd_root"):
            os.chdir("/")       # services and containers start there; path normalisation clamps '..' at the root
        fs = None
        try:
            with contextlib.ExitStack() as stack:
                stack.enter_context(target.quiet())
                stack.enter_context(listdir.ListdirOrder(case["order"]))
                if case.get("diskfull") is not None:
                    fs = stack.enter_context(faultfs.FaultFS(scr, plan=(case["diskfull"], "err:ENOSPC")))
                target.rebuild.Assembler([mf], [search], dest).assemble_torrents()
        except Exception as e:  # noqa: BLE001 - refusing is allowed
            exc = e
        finally:
            os.chdir(old_cwd)
        after = sandbox.snapshot(scr)
        destrel = os.path.relpath(dest, scr)
        diff = [(p, c) for p, c in sandbox.snapdiff(before, after)
                if not (p == destrel or p.startswith(destrel + "/"))]
        classes = ["v%d" % case["version"], "single" if case["single"] else "multi"]
        if hostile:
            classes.append("hostile-component")
        if exc is not None:
            classes.append("raised:" + type(exc).__name__)
        if fs is not None and fs.fired:
            classes.append("ENOSPC-at-" + fs.trace[case["diskfull"]][0])
        inside = [p for p, c in sandbox.snapdiff(before, after) if p.startswith(destrel + "/")]
        if inside:
            classes.append("wrote-inside-dest")
        if diff:
            where = "name" if is_hostile(case["name"]) else "path"
            if fs is not None and fs.fired:
                where = "cleanup-after-ENOSPC"
            return Outcome(Violation("C19:v%d:%s:escape-via-%s" % (case["version"], "single" if case["single"] else "multi", where),
                                     "rebuild %s %s outside the destination (%d changes outside)" % (diff[0][1], diff[0][0], len(diff))), True, classes)
    return Outcome(None, hostile and attempted, classes)
