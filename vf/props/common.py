"""Helpers shared by the property modules."""
import os

from vf import meta as vmeta, sandbox, target
from vf.gen import trees
from vf.ref import hashing

V2_CREATORS = ["TorrentFileV2", "Assembler2", "TorrentFileHybrid", "Assembler3"]
HYBRID_CREATORS = ["TorrentFileHybrid", "Assembler3"]
CLI_VERSION = {"TorrentFile": 1, "Assembler2": 2, "Assembler3": 3}


def make(scr, tree, sub="src"):
    os.makedirs(os.path.join(scr, sub), exist_ok=True)
    os.makedirs(os.path.join(scr, "out"), exist_ok=True)
    return sandbox.materialize(tree, os.path.join(scr, sub))


def create(creator, route, root, out, P=None, progress=0, extra_kw=None, extra_cli=()):
    """Create a metafile through the given creator/route; returns Meta of the written file."""
    if route == "cli":
        extra = ["--prog", str(progress)] + list(extra_cli)
        if P is not None:
            extra += ["--piece-length", str(P)]
        target.create_cli(CLI_VERSION[creator], root, out, extra)
    else:
        kw = dict(extra_kw or {})
        kw["progress"] = progress
        if P is not None:
            kw["piece_length"] = P
        target.create_lib(creator, root, out, **kw)
    return vmeta.Meta.from_file(out)


def by_path(tree):
    if tree["single"]:
        return {tree["name"]: tree["files"][0]}
    return {"/".join(f["path"]): f for f in tree["files"]}


def v2_file_classes(size, P):
    cls = []
    if size == 0:
        return ["empty"]
    if size % trees.B:
        cls.append("short-last-block")
    if size % P:
        cls.append("short-last-piece")
    n = -(-size // P)
    if n & (n - 1):
        cls.append("piece-count-not-pow2")
    if size == P:
        cls.append("size==P")
    if size > P:
        cls.append("multi-piece")
    return cls


_merkle_cache = {}


def ref_merkle(f, P):
    """Reference (root, piece_layer) of a file spec; cached per (mode, seed, size, P) within a process."""
    key = (f["mode"], f["seed"], f["size"], P)
    r = _merkle_cache.get(key)
    if r is None:
        r = hashing.merkle(sandbox.file_bytes(f), P)
        if len(_merkle_cache) > 2000:
            _merkle_cache.clear()
        _merkle_cache[key] = r
    return r
