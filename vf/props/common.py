"""Helpers shared by the property modules."""
import os

from vf import meta as vmeta, sandbox, target
from vf.gen import trees
from vf.ref import hashing

V2_CREATORS = ["TorrentFileV2", "Assembler2", "TorrentFileHybrid", "Assembler3"]
HYBRID_CREATORS = ["TorrentFileHybrid", "Assembler3"]
CLI_VERSION = {"TorrentFile": 1, "Assembler2": 2, "Assembler3": 3}


def make(scr, tree, sub="src"):
    os.makedirs(os.path.join(scr, sub), exist_ok=True)
    os.makedirs(os.path.join(scr, "out"), exist_ok=True)
    return sandbox.materialize(tree, os.path.join(scr, sub))


def create(creator, route, root, out, P=None, progress=0, extra_kw=None, extra_cli=(), flags=()):
    """Create a metafile through the given creator/route; returns Meta of the written file."""
    if route == "cli":
        extra = ["--prog", str(progress)] + list(extra_cli)
        if P is not None:
            extra += ["--piece-length", str(P)]
        target.create_cli(CLI_VERSION[creator], root, out, extra, flags)
    else:
        kw = dict(extra_kw or {})
        kw["progress"] = progress
        if P is not None:
            kw["piece_length"] = P
        target.create_lib(creator, root, out, **kw)
    return vmeta.Meta.from_file(out)


def by_path(tree):
    if tree["single"]:
        return {tree["name"]: tree["files"][0]}
    return {"/".join(f["path"]): f for f in tree["files"]}


def v2_file_classes(size, P):
    cls = []
    if size == 0:
        return ["empty"]
    if size % trees.B:
        cls.append("short-last-block")
    if size % P:
        cls.append("short-last-piece")
    n = -(-size // P)
    if n & (n - 1):
        cls.append("piece-count-not-pow2")
    if size == P:
        cls.append("size==P")
    if size > P:
        cls.append("multi-piece")
    return cls


_merkle_cache = {}


def ref_merkle(f, P):
    """Reference (root, piece_layer) of a file spec; cached per (mode, seed, size, P) within a process."""
    key = (f["mode"], f["seed"], f["size"], P)
    r = _merkle_cache.get(key)
    if r is None:
        r = hashing.merkle(sandbox.file_bytes(f), P)
        if len(_merkle_cache) > 2000:
            _merkle_cache.clear()
        _merkle_cache[key] = r
    return r


# ---------------------------------------------------------------- "second act": the same creator used again in the same process
def second_act():
    """Optional follow-up for creator properties: one file is rewritten in place (same length, new bytes, optionally
    with its old timestamps restored) and the metafile is created again by the same process.  Anything a creator
    remembers about a file between two uses (by path, inode, size, mtime) then shows in the second metafile."""
    from hypothesis import strategies as st
    return st.one_of(st.none(), st.none(), st.none(),
                     st.fixed_dictionaries({"file": st.integers(0, 40), "seed": st.integers(2**32, 2**33),
                                            "keep_mtime": st.sampled_from([True, True, False])}))


def apply_second_act(tree, root, act):
    """Rewrite the chosen file on disk; returns the updated tree spec, or None when no file qualifies."""
    linked = {f["hardlink"] for f in tree["files"] if f.get("hardlink") is not None} | {
        f["via"] for f in tree["files"] if f.get("via") is not None}
    cands = [i for i, f in enumerate(tree["files"]) if f["size"] > 0 and f.get("hardlink") is None and f.get("via") is None and i not in linked]
    if not cands:
        return None
    i = cands[act["file"] % len(cands)]
    new = {"name": tree["name"], "single": tree["single"], "files": [dict(f) for f in tree["files"]]}
    f = new["files"][i]
    f["seed"] = act["seed"]
    if f["mode"] in ("zero",):
        f["mode"] = "rnd"
    path = root if tree["single"] else os.path.join(root, *f["path"])
    st0 = os.stat(path)
    with open(path, "r+b") as fd:
        fd.write(sandbox.file_bytes(f))
    if act["keep_mtime"]:
        os.utime(path, ns=(st0.st_atime_ns, st0.st_mtime_ns))
    return new


# ---------------------------------------------------------------- "warm-up": what the process did before the judged create
def warmup():
    """Optional history for creator properties: before the judged create, the same process creates a metafile for an
    unrelated payload with (usually) another piece length and another creator.  Whatever a creator keeps at module or
    class level between two uses (a cached padding root, a remembered piece length, a shared buffer) then shows."""
    from hypothesis import strategies as st
    return st.one_of(st.none(), st.none(), st.none(),
                     st.fixed_dictionaries({
                         "creator": st.sampled_from(["TorrentFile", "TorrentFileV2", "TorrentFileHybrid", "Assembler2", "Assembler3"]),
                         "P": st.sampled_from([1 << 14, 1 << 15, 1 << 16, 1 << 17]),
                         "sizes": st.lists(st.sampled_from([300, 16384, 40000, 70000, 100000, 3 * 65536 + 1, 5 * 32768]), min_size=1, max_size=3),
                         "mode": st.sampled_from(["rnd", "const", "zero"])}))


def apply_warmup(scr, warm):
    """Run the warm-up create (library route) in this process; its outcome is not judged here."""
    if not warm:
        return False
    base = os.path.join(scr, "warm")
    os.makedirs(base, exist_ok=True)
    tree = {"name": "w", "single": len(warm["sizes"]) == 1,
            "files": [{"path": [] if len(warm["sizes"]) == 1 else ["w%d.bin" % i], "size": n, "mode": warm["mode"], "seed": 77 + i}
                      for i, n in enumerate(warm["sizes"])]}
    try:
        root = sandbox.materialize(tree, base)
        create(warm["creator"], "lib", root, os.path.join(base, "w.torrent"), warm["P"])
    except Exception:  # noqa: BLE001 - not this case's subject
        return False
    return True
