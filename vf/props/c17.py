"""C17 - an interrupted or failed edit never loses or truncates the metafile."""
import os
import shutil

from hypothesis import strategies as st

from vf import meta as vmeta, sandbox, target
from vf.engine import Outcome, Violation
from vf.gen import edits
from vf.instr import faultfs
from vf.props import c07

ID = "C17"
LEVEL = "fault_enumeration"
TECHNIQUE = "Hypothesis-generated (metafile, edit request) pairs; for each, the harness records every filesystem operation of the edit and re-runs it once per (operation, fault kind) with a crash or an OS error injected there, then strict-decodes the bytes at the metafile path ; hard-linked / symlinked metafile paths, os.write short writes, directory that refuses new entries (no staging file possible); thorough tier adds a coverage-guided (atheris/libFuzzer) stage"
RULE = ("Cases: metafile (tool-made or reference-encoded, as C07; stored as m.torrent or under a name that looks like a staging/backup file: m.torrent.tmp, meta.tmp, m.torrent~, .m.torrent.swp, m.torrent.part ...) x one edit request (library or CLI; plus un-encodable values: float, "
        "None inside a list, lone surrogate). For each case a dry run records the trace of filesystem operations (open for write, "
        "each write, remove/rename/replace/truncate/fsync/mkdir/chmod ...) and then EVERY (operation index, fault kind) is executed on "
        "a fresh copy: crash-before, crash-after, crash after a prefix of a write (1, half, len-1 bytes), EACCES/EIO/ENOSPC (ENOSPC "
        "also after half a write). After a crash the filesystem is frozen. Oracle: the bytes at the metafile path strict-decode and "
        "equal the original file or the fault-free edited file; when the edit raised without a fault (un-encodable value) they equal "
        "the original. evaluations = (metafile, edit) cases; subcases = injected-fault executions; non-trivial = a case with at least "
        "one fault injected at operation index >= 1. Distinct = distinct canonical case JSON.")
ASSUMPTIONS = [
    "operation granularity is Python-level calls (builtins.open/io.open proxies, os.open/write/remove/unlink/rename/replace/truncate/fsync/mkdir/chmod); "
    "torn sector writes and un-fsynced data lost at power failure are below this model",
    "files opened for writing are made unbuffered so every write() reaches the file at once (worst case)",
    "code that binds os functions at import time (from os import remove) would bypass the interception; torrentfile/edit.py does not",
]
FUZZ_RUNS = 40000   # thorough tier: libFuzzer runs per campaign of the coverage-guided stage (vf/fuzz.py)
BUDGET = {
    "quick": {"examples": 350, "workers": 8, "time_cap": 70},
    "thorough": {"examples": 5000, "workers": 14, "time_cap": 900},
}
BAD = ["float-comment", "none-in-announce", "surrogate-comment", "surrogate-url", "none-in-url-list", "float-source",
       # bencode has no boolean type either
       "bool-comment", "bool-source", "bool-in-announce", "bool-in-httpseeds",
       # ... and dictionary keys are byte strings
       "dict-bool-key", "dict-int-key", "dict-tuple-key"]


FNAMES = ["m.torrent.tmp", "meta.tmp", "m.torrent.new", "m.torrent~", ".m.torrent.swp", "m.torrent.part", "m.torrent.bak",
          "m", ".tmp", "tmp", "m.torrent.lock", "#m.torrent#"]


def strategy(tier):
    @st.composite
    def case(draw):
        c = {"tree": draw(c07.small_tree()), "source": draw(c07.source_strategy()),
             # the metafile path may have a second name (hard link) or be a symbolic link to the real file
             "link": draw(st.sampled_from([None, None, None, "hard", "sym"])),
             # files an earlier, killed edit may have left next to the metafile: longer than anything this edit writes
             "stale": draw(st.sampled_from([False, False, True])),
             # the metafile is writable but its directory refuses new entries (no staging file, no rename): an environment, on top
             # of which the single faults are enumerated as usual
             "refuse_new": draw(st.sampled_from([False] * 4 + [True])),
             # the metafile's own name may look like a staging / backup file (round 8: a sweep of "leftover" *.tmp files removed
             # the metafile itself before the new content existed)
             "fname": draw(st.sampled_from(["m.torrent"] * 6 + FNAMES))}
        if draw(st.sampled_from([False] * 6 + [True])):
            c["bad"] = draw(st.sampled_from(BAD))
        else:
            c["edit"] = draw(edits.edit_request())
        return c
    return case()


def bad_args(kind):
    args = {"url-list": None, "httpseeds": None, "announce": None, "source": None, "private": None, "comment": None}
    if kind == "float-comment":
        args["comment"] = 1.5
    elif kind == "float-source":
        args["source"] = 2.5
    elif kind == "none-in-announce":
        args["announce"] = ["http://a", None]
    elif kind == "none-in-url-list":
        args["url-list"] = ["http://a", None]
    elif kind == "surrogate-comment":
        args["comment"] = "x\ud800y"
    elif kind == "bool-comment":
        args["comment"] = True
    elif kind == "bool-source":
        args["source"] = False
    elif kind == "bool-in-announce":
        args["announce"] = ["http://a", True]
    elif kind == "bool-in-httpseeds":
        args["httpseeds"] = [False]
    elif kind == "dict-bool-key":
        args["comment"] = {True: "x"}
    elif kind == "dict-int-key":
        args["source"] = {1: "x"}
    elif kind == "dict-tuple-key":
        args["url-list"] = [{("a", "b"): "x"}]
    elif kind == "surrogate-url":
        args["httpseeds"] = ["http://\udcff"]
    return args


def do_edit(case, path):
    if "bad" in case:
        with target.quiet():
            target.edit_mod.edit_torrent(path, bad_args(case["bad"]))
    else:
        c07.apply_edit(case["edit"], path)


def state_of(path, orig, new):
    if not os.path.exists(path):
        return "missing"
    with open(path, "rb") as fd:
        data = fd.read()
    if data == orig:
        return "old"
    if new is not None and data == new:
        return "new"
    if not data:
        return "empty"
    try:
        m = vmeta.Meta(data)
        if m.problems and any(p[0] == "trailing-data" for p in m.problems):
            return "garbled"
        return "other-complete"
    except vmeta.MetaError:
        if new is not None and new.startswith(data):
            return "truncated"
        return "garbled"


def run_case(case):
    target.reset()
    with sandbox.Scratch("c17") as scr:
        try:
            src = c07.build_source(os.path.join(scr, "tmpl"), case)
        except Exception as e:
            return Outcome(Violation("C17:setup-exception:%s" % type(e).__name__, "building the metafile raised %r" % (e,)), False)
        with open(src, "rb") as fd:
            orig = fd.read()
        counter = [0]

        def fresh():
            counter[0] += 1
            d = os.path.join(scr, "run%d" % counter[0])
            os.mkdir(d)
            fname = case.get("fname", "m.torrent")
            p = os.path.join(d, fname)
            if case.get("link") == "sym":
                shutil.copyfile(src, os.path.join(d, "real-file.torrent"))
                os.symlink("real-file.torrent", p)
            else:
                shutil.copyfile(src, p)
                if case.get("link") == "hard":
                    os.link(p, os.path.join(d, "other-name.torrent"))
            if case.get("stale"):
                for nm in ("m.torrent.tmp", "m.torrent.new", ".m.torrent.tmp", "m.torrent~", "m.tmp", ".m.torrent.swp",
                           fname + ".tmp", "." + fname + ".tmp"):
                    if nm == fname:
                        continue
                    with open(os.path.join(d, nm), "wb") as fd:
                        fd.write(b"stale staging data " * 400)
            return d, p

        # dry run: record the trace
        d, p = fresh()
        refuse = bool(case.get("refuse_new"))
        fs = faultfs.FaultFS(d, refuse_new=refuse)
        raised = None
        with fs:
            try:
                do_edit(case, p)
            except Exception as e:
                raised = e
        trace = list(fs.trace)
        st0 = state_of(p, orig, None)
        classes = ["ops=%d" % min(len(trace), 8)]
        if case.get("link"):
            classes.append("metafile-" + case["link"] + "link")
        if case.get("fname", "m.torrent") != "m.torrent":
            classes.append("metafile-named-like-a-staging-file")
        if refuse:
            classes.append("directory-refuses-new-entries")
        if raised is not None:
            classes.append("edit-raises")
            if st0 != "old":
                return Outcome(Violation("C17:error-no-fault:%s" % st0,
                                         "edit raised %s and left the metafile %s" % (type(raised).__name__, st0),
                                         {"trace": repr(trace)}), True, classes)
            new = None
        else:
            if st0 not in ("old", "other-complete"):
                return Outcome(Violation("C17:no-fault:%s" % st0, "fault-free edit left the metafile %s" % st0), True, classes)
            with open(p, "rb") as fd:
                new = fd.read()
        shutil.rmtree(d, ignore_errors=True)
        sub = 1
        nontrivial = False
        for k, op in enumerate(trace):
            for kind in faultfs.fault_kinds(op):
                d, p = fresh()
                fs = faultfs.FaultFS(d, plan=(k, kind), refuse_new=refuse)
                outcome = "completed"
                with fs:
                    try:
                        do_edit(case, p)
                    except faultfs.Crash:
                        outcome = "crash"
                    except Exception as e:
                        outcome = "error:" + type(e).__name__
                sub += 1
                if not fs.fired:
                    shutil.rmtree(d, ignore_errors=True)
                    continue
                if k >= 1:
                    nontrivial = True
                st = state_of(p, orig, new)
                shutil.rmtree(d, ignore_errors=True)
                if st not in ("old", "new"):
                    fclass = kind.split(":")[0]
                    return Outcome(Violation("C17:%s:%s:%s" % (fclass, op[0], st),
                                             "fault %s at operation %d %r (%s): metafile path is %s afterwards (edit %s)" % (
                                                 kind, k, op[0], op[1], st, outcome),
                                             {"trace": repr(trace), "fault": [k, kind]}), True, classes, subcases=sub)
        return Outcome(None, nontrivial, classes, subcases=sub)
