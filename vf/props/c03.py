"""C03 - hybrid metafile: v1 view and v2 view describe the same payload."""
import os

from hypothesis import strategies as st

from vf import meta as vmeta, sandbox, target
from vf.engine import Outcome, Violation
from vf.gen import trees
from vf.props import common
from vf.ref import hashing

ID = "C03"
LEVEL = "exploration"
TECHNIQUE = "Hypothesis-generated trees x piece lengths x two hybrid creators; v1 stream rebuilt from info.files/info.length and hashed by the BEP 3 reference, cross-checked against the file tree ; optional second act (one file rewritten in place, same process creates again) and optional warm-up (unrelated create with another creator / piece length first)"
RULE = ("Cases: generated tree (single file or directory) x piece length x creator in {TorrentFileHybrid, TorrentAssembler "
        "hybrid} x route. Oracle: non-pad entries of info.files = file-tree leaves in order with equal lengths and equal to the "
        "files on disk; every non-pad entry starts at a multiple of P in the v1 stream; pad entries are marked attr p; "
        "info.pieces = SHA-1 slicing of the stream with pads as zeros (a trailing pad is accepted, a short last piece is accepted); "
        "single file: info.length = size and pieces = slicing of the file alone. Non-trivial: some file with size mod P != 0. "
        "Distinct = distinct canonical case JSON.")
ASSUMPTIONS = [
    "vf/ref/hashing.py SHA-1 slicing (two formulations) and vf/ref/bencode.py",
    "file names are valid UTF-8; symbolic links to files and directories inside the tree are generated (the tool follows them: linked content is payload under the link's name); no special files",
]
BUDGET = {
    "quick": {"examples": 650, "workers": 8, "time_cap": 70},
    "thorough": {"examples": 15000, "workers": 14, "time_cap": 900},
}
GRID_DESC = "single-file hybrids over sizes k*B+d, k*P+d (k<=6 quick / 17 thorough) x P x both creators"


def strategy(tier):
    @st.composite
    def case(draw):
        P = draw(trees.piece_length(tier))
        creator = draw(st.sampled_from(common.HYBRID_CREATORS))
        route = "lib"
        if creator == "Assembler3":
            route = draw(st.sampled_from(["lib", "cli"]))
        t = draw(trees.tree(P, max_files=8 if tier == "quick" else 20, cli_safe=(route == "cli")))
        return {"tree": t, "P": P, "creator": creator, "route": route, "again": draw(common.second_act()), "warm": draw(common.warmup()),
                "spelling": draw(st.sampled_from(["abs", "abs", "abs", "rel", "dot-rel", "dot"]))}
    return case()


def grid(tier):
    from vf.props.c01 import _sizes
    cases = []
    combos = [(1 << 14, 6), (1 << 15, 6)] if tier == "quick" else [(1 << e, 17) for e in (14, 15, 16, 17)]
    for P, kmax in combos:
        for s in _sizes(P, kmax):
            if s == 0:
                continue
            for c in common.HYBRID_CREATORS:
                cases.append({"tree": {"name": "g", "single": True,
                                       "files": [{"path": [], "size": s, "mode": "rnd", "seed": s}]},
                              "P": P, "creator": c, "route": "lib"})
    return cases


def run_case(case):
    old_cwd = os.getcwd()
    try:
        return _run_case(case)
    finally:
        os.chdir(old_cwd)


def _run_case(case):
    tree = case["tree"]
    P = case["P"]
    target.reset()
    with sandbox.Scratch("c03") as scr:
        root = common.make(scr, tree)
        out = os.path.join(scr, "out", "o.torrent")
        warmed = common.apply_warmup(scr, case.get("warm"))
        sp = case.get("spelling", "abs")
        if sp in ("rel", "dot-rel"):
            # the content root spelled relative to the working directory (its parent)
            os.chdir(os.path.dirname(root))
            root = os.path.basename(root) if sp == "rel" else "./" + os.path.basename(root)
        elif sp == "dot" and not tree["single"]:
            os.chdir(root)
            root = "."
        try:
            m = common.create(case["creator"], case["route"], root, out, P)
        except Exception as e:
            return Outcome(Violation("C03:exception:%s" % type(e).__name__, "create raised %r" % (e,)), True, ["exception"])
        first = judge(m, tree, P)
        if sp != "abs":
            first.classes = tuple(first.classes) + ("root-spelled-" + sp,)
        if warmed:
            first.classes = tuple(first.classes) + ("after-warm-up", "after-warm-up-other-P" if case["warm"]["P"] != P else "after-warm-up-same-P")
            if first.violation is not None:
                first.violation.sig = "C03:warmed:" + first.violation.sig.split(":", 1)[1]
                first.violation.msg = "after an unrelated create in the same process (%s, piece length %d): %s" % (case["warm"]["creator"], case["warm"]["P"], first.violation.msg)
        if first.violation is not None or not case.get("again"):
            return first
        tree2 = common.apply_second_act(tree, root, case["again"])
        if tree2 is None:
            return first
        try:
            m2 = common.create(case["creator"], case["route"], root, os.path.join(scr, "out", "again.torrent"), P)
        except Exception as e:
            return Outcome(Violation("C03:again:exception:%s" % type(e).__name__, "second create raised %r" % (e,)), True)
        second = judge(m2, tree2, P)
        if second.violation is not None:
            v = second.violation
            return Outcome(Violation("C03:again:" + v.sig.split(":", 1)[1], "second create in the same process after rewriting one file in place: " + v.msg),
                           True, list(first.classes) + ["second-act"])
        return Outcome(None, first.nontrivial, list(first.classes) + ["second-act"])


def judge(m, tree, P):
    info = m.info
    spec = common.by_path(tree)
    classes = []
    if info.get(b"piece length") != P:
        return Outcome(Violation("C03:piece-length", "recorded %r requested %d" % (info.get(b"piece length"), P)), True)
    try:
        leaves = m.tree_leaves()
        entries = m.v1_entries()
    except vmeta.MetaError as e:
        return Outcome(Violation("C03:malformed", str(e)), True)
    pieces = info.get(b"pieces")
    if not isinstance(pieces, bytes):
        return Outcome(Violation("C03:no-pieces", "hybrid without a v1 piece string"), True)
    nontrivial = any(f["size"] % P for f in tree["files"])
    if tree["single"]:
        f = tree["files"][0]
        classes.append("single-short" if f["size"] % P else "single-exact")
        if entries is not None:
            # a files list for a single file is unusual but describable; judge it as a stream below
            pass
        else:
            if info.get(b"length") != f["size"]:
                return Outcome(Violation("C03:single:length", "info.length %r != file size %d" % (info.get(b"length"), f["size"])), True, classes)
            if [("/".join(p), ln) for p, ln, _, _ in leaves] != [(tree["name"], f["size"])]:
                return Outcome(Violation("C03:single:tree", "file tree does not describe the single file"), True, classes)
            ref = hashing.v1_pieces([sandbox.file_bytes(f)], P)
            if pieces != ref:
                kind = "zero-extended" if pieces == hashing.v1_pieces(
                    [sandbox.file_bytes(f), bytes(-f["size"] % P)], P) else "other"
                return Outcome(Violation("C03:single:v1-pieces:%s" % kind,
                                         "single-file hybrid: pieces are not the SHA-1 slicing of the file alone with its declared length (size %d, P %d)" % (
                                             f["size"], P)), True, classes)
            return Outcome(None, nontrivial, classes)
    if entries is None:
        return Outcome(Violation("C03:multi:no-files", "directory hybrid without info.files"), True)
    real = [("/".join(c), ln) for c, ln, pad in entries if not pad]
    tl = [("/".join(p), ln) for p, ln, _, _ in leaves]
    if tree["single"]:
        tl = [("/".join(p[1:]) if len(p) > 1 else p[0], ln) for p, ln, _, _ in leaves]
    if real != tl:
        kind = "order" if sorted(real) == sorted(tl) else "set"
        return Outcome(Violation("C03:multi:files-vs-tree:%s" % kind, "non-pad v1 entries %r != file tree leaves %r" % (real[:4], tl[:4])), True)
    if not tree["single"] and sorted(real) != sorted((k, f["size"]) for k, f in spec.items()):
        return Outcome(Violation("C03:multi:files-vs-disk", "listed files differ from the files on disk"), True)
    off = 0
    chunks = []
    for comps, ln, pad in entries:
        if pad:
            chunks.append(bytes(ln))
            classes.append("pad")
        else:
            if off % P:
                return Outcome(Violation("C03:multi:unaligned", "file %r starts at stream offset %d, not a multiple of P=%d" % (
                    comps, off, P)), True, classes)
            key = "/".join(comps) if not tree["single"] else tree["name"]
            f = spec[key]
            chunks.append(sandbox.file_bytes(f))
            if ln == 0:
                classes.append("empty-file")
        off += ln
    if entries and entries[-1][2]:
        classes.append("trailing-pad")
    ref = hashing.v1_pieces(chunks, P)
    if pieces != ref:
        return Outcome(Violation("C03:multi:v1-pieces", "pieces != SHA-1 slicing of the listed stream (pads as zeros); got %d hashes, ref %d" % (
            len(pieces) // 20, len(ref) // 20)), True, classes)
    return Outcome(None, nontrivial, sorted(set(classes)))
