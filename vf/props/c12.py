"""C12 - only power-of-two piece lengths of at least 16 KiB are ever accepted or chosen."""
import os
import re

from hypothesis import strategies as st

from vf import meta as vmeta, sandbox, target
from vf.engine import Outcome, Violation

ID = "C12"
LEVEL = "exploration"
TECHNIQUE = "exhaustive enumeration of integer ranges and power-of-two neighbourhoods through normalize_piece_length, plus Hypothesis-generated integers/strings through four routes (normaliser, TorrentFile keyword, CLI --piece-length, config file) and generated payload sizes for the automatic choice, against the arithmetic definition of 'acceptable' ; thorough tier adds a coverage-guided (atheris/libFuzzer) stage over the same strategy"
RULE = ("(a) integers: every value of -64..2^17 (quick) / -1024..2^24 (thorough) and +-64 around 2^k and 3*2^k for k<=80 through "
        "normalize_piece_length, in chunks (one case = one chunk, every value inside is checked; subcases counts values); (b) Hypothesis: "
        "integers up to 2^200, decimal strings, strings with sign/whitespace/underscore/0x/exponent/float notation, Unicode digits and "
        "numerics, arbitrary text, through normalize_piece_length, TorrentFile(piece_length=...) on a tiny payload, CLI --piece-length "
        "and the config key piece-length; (c) automatic choice: payload sizes 0..2^50 (both sides of every 1000*2^k threshold) through "
        "get_piece_length and path_piece_length on sparse files. Oracle: an int or plain ASCII-decimal string v is acceptable iff v in "
        "14..25 (meaning 2^v) or v >= 16384 and v & (v-1) == 0 (meaning v); acceptable => that exact value is returned / recorded in the "
        "metafile; anything else => PieceLengthValueError and no metafile. 26..29 and powers of two >= 2^30 may go either way (the manual "
        "documents both). Strings that int() accepts but that are not plain ASCII decimals are not judged beyond: the denoted value or "
        "PieceLengthValueError, never another exception. Automatic: result in 2^14..2^24, power of two, non-decreasing in size. "
        "Non-trivial: the value (or chunk) is not one of the suite's literals (2^14..2^20, 14..23, 131072). Distinct = distinct case JSON.")
ASSUMPTIONS = [
    "None and the empty string through the library / an empty CLI or config value mean 'not supplied' (the interactive front end passes '') and are judged by the normaliser only; the integer 0 is a value like any other on every route",
    "exponents 26..29 and direct powers of two >= 2^30 are accepted either way (manual: '14-29', 'less than 1 GiB'; property: 14..25, no upper bound)",
    "non-plain-ASCII-decimal strings that int() would accept (sign, whitespace, underscore, Unicode digits) are only required not to escape with a foreign exception or a wrong value",
]
FUZZ_RUNS = 40000   # thorough tier: libFuzzer runs per campaign of the coverage-guided stage (vf/fuzz.py)
BUDGET = {
    "quick": {"examples": 2200, "workers": 8, "time_cap": 70},
    "thorough": {"examples": 10000, "workers": 14, "time_cap": 900},
}
GRID_DESC = {
    "quick": "every integer in -64..2^17 and +-64 around 2^k, 3*2^k (k<=80) through normalize_piece_length; sizes around every 1000*2^k threshold through get_piece_length",
    "thorough": "every integer in -1024..2^24 and +-64 around 2^k, 3*2^k (k<=80) through normalize_piece_length; sizes around every 1000*2^k threshold",
}
CHUNK = 4096
SUITE_LITERALS = {2 ** e for e in range(14, 21)} | set(range(14, 24)) | {131072}


def expected(v):
    """('accept', value) | ('reject',) | ('either', value) for an integer v."""
    if 14 <= v <= 25:
        return ("accept", 2 ** v)
    if 26 <= v <= 29:
        return ("either", 2 ** v)
    if v >= 16384 and v & (v - 1) == 0:
        return ("either", v) if v >= 2 ** 30 else ("accept", v)
    return ("reject",)


def expected_str(s):
    if len(s) > 4000 and re.fullmatch(r"[0-9]+", s):
        # beyond int()'s default digit limit (the harness must not lift it: the tool runs in this process); the two
        # samples of ODD_STRINGS are not powers of two
        return ("reject",)
    if re.fullmatch(r"[0-9]+", s) and (s == "0" or not s.startswith("0")):
        return expected(int(s))
    try:
        v = int(s)
    except ValueError:
        return ("reject",)
    e = expected(v)
    return ("reject",) if e == ("reject",) else ("either", e[1])


def grid(tier):
    cases = []
    lo, hi = (-64, 2 ** 17) if tier == "quick" else (-1024, 2 ** 24)
    a = lo
    while a <= hi:
        b = min(hi, a + CHUNK - 1)
        cases.append({"kind": "range", "lo": a, "hi": b})
        a = b + 1
    for k in range(0, 81):
        cases.append({"kind": "range", "lo": 2 ** k - 64, "hi": 2 ** k + 64})
        cases.append({"kind": "range", "lo": 3 * 2 ** k - 64, "hi": 3 * 2 ** k + 64})
    for k in range(0, 41):
        cases.append({"kind": "auto", "sizes": [1000 * 2 ** k + d for d in (-2, -1, 0, 1, 2)] + [2 ** k - 1, 2 ** k, 2 ** k + 1]})
    # the automatic choice through the creators themselves, for two payload shapes: the larger payload must not get the smaller piece
    cases.append({"kind": "shapes"})
    return cases


ODD_STRINGS = ["false", "False", "true", "no", "off", "+16384", " 16384", "16384 ", "1_6384", "0x4000", "1e5", "16384.0", "2**14", "١٦٣٨٤", "１６３８４", "²", "½", "Ⅷ", "³²⁷⁶⁸",
               "-16384", "-14", "--14", "", " ", "abc", "14a", "0", "00014", "016384", "१४", "௧", "16,384", "16384\n", "\t14", "1 4", "14.0", "inf", "nan",
               "True", "None",
               # more digits than int() converts by default (sys.get_int_max_str_digits): still "a numeric string"
               "9" * 4400, "1" + "0" * 5000]


def strategy(tier):
    ints = st.one_of(
        st.integers(-100, 100), st.integers(0, 2 ** 26),
        st.integers(0, 200).map(lambda k: 2 ** k), st.tuples(st.integers(0, 200), st.integers(-3, 3)).map(lambda t: 2 ** t[0] + t[1]),
        st.integers(0, 2 ** 200), st.tuples(st.integers(0, 60), st.sampled_from([3, 5, 6, 7, 9])).map(lambda t: t[1] * 2 ** t[0]),
    )
    strs = st.one_of(ints.map(str), ints.map(str), st.sampled_from(ODD_STRINGS),
                     st.text(alphabet="0123456789 +-_.exE²٣", min_size=1, max_size=8),
                     st.text(min_size=0, max_size=6))
    value = st.one_of(ints.map(lambda v: {"t": "int", "v": str(v)}), strs.map(lambda s: {"t": "str", "v": s}),
                      st.sampled_from(["10**4300", "-(10**4300)", "2**20000+1"]).map(lambda s: {"t": "bigint", "v": s}))
    one = st.fixed_dictionaries({"kind": st.just("value"), "value": value,
                                 "route": st.sampled_from(["norm", "norm", "lib", "cli", "config"]),
                                 "version": st.sampled_from(["1", "1", "2", "3"])})
    auto = st.fixed_dictionaries({"kind": st.just("auto"),
                                  "sizes": st.lists(st.one_of(st.integers(0, 2 ** 50), st.integers(0, 2 ** 26),
                                                              st.tuples(st.integers(0, 40), st.integers(-3, 3)).map(lambda t: max(0, 1000 * 2 ** t[0] + t[1]))),
                                                    min_size=2, max_size=12),
                                  "sparse": st.booleans()})
    return st.one_of(one, one, one, auto)


def is_plve(e):
    # the piece-length error or a subclass of it
    return any(c.__name__ == "PieceLengthValueError" for c in type(e).__mro__)


def judge(exp, got, exc, where, shown):
    """got: returned/recorded int or None; exc: exception or None."""
    if exc is not None and not is_plve(exc):
        return Violation("C12:%s:foreign-exception:%s" % (where, type(exc).__name__), "%s: value %s raised %r instead of the piece-length error" % (where, shown, exc))
    if exp[0] == "reject":
        if exc is None:
            return Violation("C12:%s:accepted-invalid:%s" % (where, _cls(shown)), "%s: invalid piece length %s accepted as %r" % (where, shown, got))
        return None
    if exc is not None:
        if exp[0] == "either":
            return None
        return Violation("C12:%s:rejected-valid" % where, "%s: valid piece length %s rejected" % (where, shown))
    if got != exp[1]:
        return Violation("C12:%s:wrong-value" % where, "%s: piece length %s recorded as %r, denotes %d" % (where, shown, got, exp[1]))
    return None


def _cls(shown):
    try:
        v = int(shown)
    except ValueError:
        return "string"
    if v < 16384:
        return "power<16KiB" if v > 0 and v & (v - 1) == 0 else "small"
    return "non-power>=16KiB"


def run_case(case):
    target.reset()
    utils = target.utils
    if case["kind"] == "range":
        n = 0
        for v in range(case["lo"], case["hi"] + 1):
            n += 1
            exc = got = None
            try:
                got = utils.normalize_piece_length(v)
            except Exception as e:  # noqa: BLE001
                exc = e
            viol = judge(expected(v), got, exc, "norm", str(v))
            if viol:
                return Outcome(viol, True, ["range"], subcases=n)
        nontrivial = any(v not in SUITE_LITERALS for v in (case["lo"], case["hi"]))
        return Outcome(None, nontrivial, ["range"], subcases=n)
    if case["kind"] == "auto":
        return run_auto(case)
    if case["kind"] == "shapes":
        return run_shapes()
    val = case["value"]
    if val["t"] == "bigint":
        # an integer with more decimal digits than str()/int() convert by default; none of the samples is a power of two
        raw = {"10**4300": 10 ** 4300, "-(10**4300)": -(10 ** 4300), "2**20000+1": 2 ** 20000 + 1}[val["v"]]
        route = "lib" if case["route"] in ("lib", "cli", "config") else "norm"
        exc = got = None
        try:
            if route == "norm":
                got = utils.normalize_piece_length(raw)
            else:
                with sandbox.Scratch("c12b") as scr:
                    payload = os.path.join(scr, "tiny.bin")
                    with open(payload, "wb") as fd:
                        fd.write(b"x" * 40)
                    creator = {"1": "TorrentFile", "2": "Assembler2", "3": "Assembler3"}[case["version"]]
                    target.create_lib(creator, payload, os.path.join(scr, "o.torrent"), piece_length=raw)
                    got = "a metafile"
        except Exception as e:  # noqa: BLE001
            exc = e
        return Outcome(judge(("reject",), got, exc, route, val["v"]), True, ["route-" + route, "type-bigint", "reject"])
    raw = int(val["v"]) if val["t"] == "int" else val["v"]
    exp = expected(raw) if val["t"] == "int" else expected_str(raw)
    route = case["route"]
    shown = repr(raw)
    classes = ["route-" + route, "type-" + val["t"], exp[0]]
    nontrivial = not (val["t"] == "int" and raw in SUITE_LITERALS) and not (val["t"] == "str" and len(raw) < 100 and raw.isdigit() and raw.isascii() and int(raw) in SUITE_LITERALS)
    if route in ("cli", "config"):
        s = str(raw)
        if val["t"] == "int":
            exp = expected_str(s) if s.lstrip("-").isdigit() and not s.startswith("-") else expected(raw)
        if route == "cli" and (s.startswith("-") and not re.fullmatch(r"-[0-9]+", s)):
            route = "norm"
        if route == "config" and (s != s.strip() or "\n" in s or "\r" in s or s == "" or s[:1] in "#;" or any(ord(c) < 32 for c in s)
                                  or "=" in s or ":" in s):
            route = "norm"
    if raw == "":
        route = "norm"      # the empty string is how the front ends spell "not supplied"
    if len(exp) > 1 and exp[1] > 2 ** 26:
        route = "norm"   # a creator would allocate a piece buffer of that size
    exc = got = None
    if route == "norm":
        try:
            got = utils.normalize_piece_length(raw)
        except Exception as e:  # noqa: BLE001
            exc = e
        return Outcome(judge(exp, got, exc, "norm", shown), nontrivial, classes)
    with sandbox.Scratch("c12") as scr:
        payload = os.path.join(scr, "tiny.bin")
        with open(payload, "wb") as fd:
            fd.write(b"x" * 40)
        out = os.path.join(scr, "o.torrent")
        try:
            if route == "lib":
                creator = {"1": "TorrentFile", "2": "Assembler2", "3": "Assembler3"}[case["version"]]
                target.create_lib(creator, payload, out, piece_length=raw)
            elif route == "cli":
                target.execute(["create", "--meta-version", case["version"], "--piece-length", str(raw), "-o", out, "--prog", "0", payload])
            else:
                cfg = os.path.join(scr, "torrentfile.ini")
                with open(cfg, "w", encoding="utf-8") as fd:
                    fd.write("[config]\npiece-length = %s\nmeta-version = %s\n" % (raw, case["version"]))
                target.execute(["create", "--config", "--config-path", cfg, "-o", out, "--prog", "0", payload])
        except SystemExit as e:
            exc = e
        except Exception as e:  # noqa: BLE001
            exc = e
        if isinstance(exc, SystemExit):
            # argparse refused the command line itself (e.g. a value that looks like an option): not a piece-length verdict
            return Outcome(None, False, classes + ["argparse-exit"])
        if exc is None:
            try:
                got = vmeta.Meta.from_file(out).info.get(b"piece length")
            except Exception as e:  # noqa: BLE001
                return Outcome(Violation("C12:%s:no-metafile" % route, "create returned normally for %s but wrote no readable metafile: %r" % (shown, e)), True, classes)
        elif os.path.exists(out):
            return Outcome(Violation("C12:%s:metafile-after-error" % route, "piece length %s was rejected but a metafile exists" % shown), True, classes)
    return Outcome(judge(exp, got, exc, route, shown), nontrivial, classes)


def run_auto(case):
    utils = target.utils
    sizes = sorted(case["sizes"])
    prev = None
    classes = ["auto"]
    for s in sizes:
        try:
            p = utils.get_piece_length(s)
        except Exception as e:  # noqa: BLE001
            return Outcome(Violation("C12:auto:exception", "get_piece_length(%d) raised %r" % (s, e)), True, classes)
        if not isinstance(p, int) or p & (p - 1) or not (2 ** 14 <= p <= 2 ** 24):
            return Outcome(Violation("C12:auto:out-of-range", "get_piece_length(%d) = %r" % (s, p)), True, classes)
        if prev is not None and p < prev[1]:
            return Outcome(Violation("C12:auto:not-monotone", "get_piece_length(%d) = %d < get_piece_length(%d) = %d" % (s, p, prev[0], prev[1])), True, classes)
        prev = (s, p)
    if case.get("sparse"):
        classes.append("sparse-file")
        with sandbox.Scratch("c12a") as scr:
            for s in sizes[:3] + sizes[-1:]:
                s = min(s, 2 ** 44)
                f = os.path.join(scr, "sp%d" % s)
                try:
                    with open(f, "wb") as fd:
                        fd.truncate(s)
                except OSError:
                    continue
                target.reset()
                p = utils.path_piece_length(f)
                q = utils.get_piece_length(s)
                os.remove(f)
                if p != q or p & (p - 1) or not (2 ** 14 <= p <= 2 ** 24):
                    return Outcome(Violation("C12:auto:path", "path_piece_length of a %d-byte file = %r, get_piece_length = %r" % (s, p, q)), True, classes)
            # the same sizes inside a directory whose names look like shell patterns / are hidden: the choice must follow the total
            d = os.path.join(scr, "[Grp] Show S01 [1080p] *?")
            os.makedirs(os.path.join(d, ".extras"))
            total = 0
            for i, s in enumerate(sizes[:2] + sizes[-1:]):
                s = min(s, 2 ** 40)
                try:
                    with open(os.path.join(d, ".extras" if i == 1 else "", "part%d.bin" % i), "wb") as fd:
                        fd.truncate(s)
                    total += s
                except OSError:
                    continue
            # content reached through a symbolic link to a directory is hashed like any other content, so it counts
            ext = os.path.join(scr, "elsewhere")
            os.makedirs(ext)
            try:
                with open(os.path.join(ext, "linked.bin"), "wb") as fd:
                    fd.truncate(min(sizes[-1], 2 ** 40))
                os.symlink(ext, os.path.join(d, "linked-dir"))
                total += min(sizes[-1], 2 ** 40)
            except OSError:
                pass
            target.reset()
            p = utils.path_piece_length(d)
            q = utils.get_piece_length(total)
            if p != q:
                return Outcome(Violation("C12:auto:dir", "path_piece_length of a directory holding %d bytes = %r, get_piece_length(total) = %r" % (total, p, q)), True, classes)
    return Outcome(None, True, classes, subcases=len(sizes))


def run_shapes():
    """One 17,000,000-byte file versus 1,100 files of 16,000 bytes (17,600,000 in total), no piece length given."""
    classes = ["auto", "shapes"]
    with sandbox.Scratch("c12s") as scr:
        a = os.path.join(scr, "one")
        os.makedirs(a)
        with open(os.path.join(a, "big.bin"), "wb") as fd:
            fd.truncate(17000000)
        b = os.path.join(scr, "many")
        os.makedirs(b)
        chunk = bytes(16000)
        for i in range(1100):
            with open(os.path.join(b, "f%04d" % i), "wb") as fd:
                fd.write(chunk)
        for creator, kw in (("TorrentFile", {}), ("TorrentFile", {"align": True}), ("TorrentFileV2", {}), ("Assembler2", {}), ("Assembler3", {})):
            rec = []
            for path in (a, b):
                target.reset()
                out = os.path.join(scr, "o-%s-%s-%s.torrent" % (creator, "a" if kw else "n", os.path.basename(path)))
                try:
                    target.create_lib(creator, path, out, **kw)
                    rec.append(vmeta.Meta.from_file(out).info.get(b"piece length"))
                except Exception as e:  # noqa: BLE001
                    return Outcome(Violation("C12:auto:shapes:exception", "%s raised %r" % (creator, e)), True, classes)
            for p in rec:
                if not isinstance(p, int) or p & (p - 1) or not (2 ** 14 <= p <= 2 ** 24):
                    return Outcome(Violation("C12:auto:shapes:range", "%s recorded automatic piece length %r" % (creator, p)), True, classes)
            if rec[1] < rec[0]:
                return Outcome(Violation("C12:auto:shapes:not-monotone", "%s%s: 17,000,000 bytes got %d, the larger payload of 17,600,000 bytes got %d" % (
                    creator, " (align)" if kw else "", rec[0], rec[1])), True, classes)
    return Outcome(None, True, classes, subcases=10)
