"""C10 - all creators and all hashers agree on the same payload."""
import os

from hypothesis import strategies as st

from vf import meta as vmeta, sandbox, target
from vf.engine import Outcome, Violation
from vf.gen import trees
from vf.props import common

ID = "C10"
LEVEL = "exploration"
TECHNIQUE = "Hypothesis differential between the repository's own implementations: paired creators (CLI assembler vs class-based) and the three v2-capable hashers on the same generated payload ; interactive front end driven through its prompts; symlinked sibling directories; optional second act and warm-up"
RULE = ("Cases: generated tree x piece length x options (private/source/comment); pairs (TorrentAssembler v2, TorrentFileV2) and "
        "(TorrentAssembler hybrid, TorrentFileHybrid), and the interactive front end (InteractiveCreator with its prompts answered by "
        "the harness) against the CLI creator, must yield equal info dictionaries and piece layers (decoded values); per "
        "non-empty file HasherV2 / HasherHybrid / FileHasher(hybrid on and off) must agree on (root, piece layer) and the two "
        "hybrid-capable ones on (pieces, padding_file). Non-trivial: some file exercising a padding rule (short last block, short "
        "last piece, non-power-of-two piece count, size == P). Distinct = distinct canonical case JSON.")
ASSUMPTIONS = [
    "differential only: the absolute oracle for the hashes is C02/C03; vf/ref/bencode.py decodes the files",
    "the assembler is driven through the same keyword interface the CLI uses; meta_version is passed as the string the CLI passes or as the int its docstring documents",
]
BUDGET = {
    "quick": {"examples": 350, "workers": 8, "time_cap": 70},
    "thorough": {"examples": 10000, "workers": 14, "time_cap": 900},
}


def strategy(tier):
    @st.composite
    def case(draw):
        P = draw(trees.piece_length(tier))
        t = draw(trees.tree(P, max_files=6 if tier == "quick" else 16))
        opts = {}
        if draw(st.booleans()):
            opts["private"] = True
        if draw(st.booleans()):
            opts["source"] = draw(st.sampled_from(["src", "S P", "é"]))
        if draw(st.booleans()):
            opts["comment"] = draw(st.sampled_from(["c", "a comment", "ü"]))
        t = dict(t)
        if not t["single"] and draw(st.sampled_from([True] + [False] * 5)):
            # a symbolic link to a sibling directory: every creator follows it, so all of them must list its files twice
            dirs = sorted({f["path"][0] for f in t["files"] if len(f["path"]) > 1})
            if dirs:
                d = draw(st.sampled_from(dirs))
                t["dirlinks"] = [{"path": [draw(st.sampled_from(["current", "zz-link", "0link"]))], "target": d}]
        return {"tree": t, "P": P, "opts": opts, "assembler_route": draw(st.sampled_from(["lib", "cli"])),
                "again": draw(common.second_act()), "warm": draw(common.warmup()),
                # the library keyword meta_version as the string the CLI passes, or as the int the docstring documents
                "int_version": draw(st.sampled_from([False, False, True]))}
    return case()


def _hash_file(path, P):
    h = target.hasher
    out = {}
    with target.quiet():
        a = h.HasherV2(path, P, 1)
        out["HasherV2"] = (a.root, a.piece_layer, None, None)
        b = h.HasherHybrid(path, P, 1)
        out["HasherHybrid"] = (b.root, b.piece_layer, b"".join(b.pieces), b.padding_file)
        c = h.FileHasher(path, P, progress=1, hybrid=False)
        layers = b"".join(bytes(x) for x in c)
        out["FileHasher"] = (c.root, c.piece_layer, None, None)
        if layers != c.piece_layer:
            out["FileHasher-iter"] = (c.root, layers, None, None)
        d = h.FileHasher(path, P, progress=1, hybrid=True)
        res = list(d)
        out["FileHasher-hybrid"] = (d.root, d.piece_layer, b"".join(bytes(p) for _, p in res), d.padding_file)
        if b"".join(bytes(l) for l, _ in res) != d.piece_layer:
            out["FileHasher-hybrid-iter"] = (d.root, b"".join(bytes(l) for l, _ in res), None, None)
    return out


def _interactive_create(root, out, P, ver, opts):
    """Drive interactive.InteractiveCreator by answering its prompts (piece length, trackers, seeds, comment, source, private, path, out, version)."""
    import builtins
    import importlib
    inter = importlib.import_module("torrentfile.interactive")
    answers = [str(P), "", "", "", opts.get("comment", ""), opts.get("source", ""), "y" if opts.get("private") else "n", root, out, ver]
    it = iter(answers)
    real_input = builtins.input
    builtins.input = lambda *_a: next(it)
    try:
        with target.quiet():
            inter.InteractiveCreator()
    finally:
        builtins.input = real_input


def _round(scr, root, tree, P, case, classes, tag):
    """All creators and hashers on the current on-disk state; returns an Outcome on disagreement, else None."""
    metas = {}
    try:
        for creator in common.V2_CREATORS:
            out = os.path.join(scr, "out", tag + creator + ".torrent")
            if creator.startswith("Assembler") and case["assembler_route"] == "cli" and not any(
                    n.startswith("-") for n in [tree["name"]]):
                extra = []
                if case["opts"].get("private"):
                    extra.append("--private")
                if "source" in case["opts"]:
                    extra += ["--source", case["opts"]["source"]]
                if "comment" in case["opts"]:
                    extra += ["--comment", case["opts"]["comment"]]
                metas[creator] = common.create(creator, "cli", root, out, P, extra_cli=extra)
            else:
                metas[creator] = common.create(creator, "lib", root, out, P, extra_kw=dict(case["opts"], _int_version=bool(case.get("int_version"))))
    except Exception as e:
        return Outcome(Violation("C10:exception:%s" % type(e).__name__, "create raised %r" % (e,)), True)
    # the interactive front end (prompts answered by the harness) must produce the same metafile as the CLI creator
    try:
        for ver, key in (("2", "Interactive2"), ("3", "Interactive3")):
            out = os.path.join(scr, "out", tag + key + ".torrent")
            _interactive_create(root, out, P, ver, case["opts"])
            metas[key] = vmeta.Meta.from_file(out)
    except Exception as e:
        return Outcome(Violation("C10:interactive-exception:%s" % type(e).__name__, "interactive create raised %r" % (e,)), True)
    for a, b, tag in (("Assembler2", "TorrentFileV2", "v2"), ("Assembler3", "TorrentFileHybrid", "hybrid"),
                      ("Assembler2", "Interactive2", "v2-interactive"), ("Assembler3", "Interactive3", "hybrid-interactive")):
        ma, mb = metas[a], metas[b]
        if ma.info != mb.info:
            diff = sorted(k.decode() for k in set(ma.info) | set(mb.info) if ma.info.get(k) != mb.info.get(k))
            return Outcome(Violation("C10:%s:info:%s" % (tag, ",".join(diff)[:60]),
                                     "%s and %s disagree on info keys %r" % (a, b, diff)), True)
        if ma.top.get(b"piece layers") != mb.top.get(b"piece layers"):
            return Outcome(Violation("C10:%s:piece-layers" % tag, "%s and %s disagree on piece layers" % (a, b)), True)
    spec = common.by_path(tree)
    for key, f in spec.items():
        classes.update(common.v2_file_classes(f["size"], P))
        if f["size"] == 0:
            continue
        path = root if tree["single"] else os.path.join(root, *f["path"])
        try:
            hs = _hash_file(path, P)
        except Exception as e:
            return Outcome(Violation("C10:hasher-exception:%s" % type(e).__name__, "hasher raised %r on size %d P %d" % (
                e, f["size"], P)), True, classes)
        base = hs["HasherV2"]
        for name, val in hs.items():
            if (val[0], val[1]) != (base[0], base[1]):
                which = "root" if val[0] != base[0] else "piece-layer"
                return Outcome(Violation("C10:hashers:%s:%s" % (which, name), "%s disagrees with HasherV2 on %s (size %d, P %d)" % (
                    name, which, f["size"], P)), True, classes)
        hb, fh = hs["HasherHybrid"], hs["FileHasher-hybrid"]
        if hb[2] != fh[2]:
            return Outcome(Violation("C10:hashers:v1-pieces", "HasherHybrid and FileHasher disagree on v1 pieces (size %d, P %d)" % (
                f["size"], P)), True, classes)
        if hb[3] != fh[3]:
            return Outcome(Violation("C10:hashers:padding", "HasherHybrid and FileHasher disagree on padding_file: %r vs %r" % (
                hb[3], fh[3])), True, classes)
    return None


def run_case(case):
    tree = case["tree"]
    P = case["P"]
    target.reset()
    classes = set()
    with sandbox.Scratch("c10") as scr:
        root = common.make(scr, tree)
        if common.apply_warmup(scr, case.get("warm")):
            classes.add("after-warm-up")
        for tag in ("", "again-"):
            bad = _round(scr, root, tree, P, case, classes, tag)
            if bad is not None:
                if tag:
                    v = bad.violation
                    return Outcome(Violation("C10:again:" + v.sig.split(":", 1)[1], "after rewriting one file in place, in the same process: " + v.msg), True, sorted(classes))
                return bad
            if tag or not case.get("again"):
                break
            tree2 = common.apply_second_act(tree, root, case["again"])
            if tree2 is None:
                break
            tree = tree2
            classes.add("second-act")
    nontrivial = bool(classes & {"short-last-block", "short-last-piece", "piece-count-not-pow2", "size==P"})
    return Outcome(None, nontrivial, sorted(classes))
