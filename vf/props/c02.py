"""C02 - v2 file tree, pieces roots and piece layers follow BEP 52 exactly."""
import os

from hypothesis import strategies as st

from vf import meta as vmeta, sandbox, target
from vf.engine import Outcome, Violation
from vf.gen import trees
from vf.props import common

ID = "C02"
LEVEL = "exploration"
TECHNIQUE = "Hypothesis-generated trees x piece lengths x four v2-capable creators (+ exhaustive single-file boundary grid) against two independent BEP 52 merkle formulations ; optional second act (one file rewritten in place, same process creates again) and optional warm-up (unrelated create with another creator / piece length first)"
RULE = ("Cases: generated content tree x piece length x creator in {TorrentFileV2, TorrentAssembler v2, TorrentFileHybrid, "
        "TorrentAssembler hybrid} x route (library / CLI for the assembler). Oracle: file-tree leaves = files on disk "
        "(paths, lengths), pieces root = reference root (bottom-up and top-down formulations agree), empty files have no "
        "root, piece-layers key set = roots of files larger than P, each value = reference piece layer. Non-trivial: some "
        "file with a short last block, short last piece, a piece count that is not a power of two, or size == P. Distinct "
        "= distinct canonical case JSON.")
ASSUMPTIONS = [
    "vf/ref/hashing.py BEP 52 reference (two formulations cross-checked on every file; pinned to the specification's worked facts at start)",
    "vf/ref/bencode.py strict decoder",
    "file names are valid UTF-8; symbolic links to files and directories inside the tree are generated (the tool follows them: linked content is payload under the link's name); no special files",
]
BUDGET = {
    "quick": {"examples": 650, "workers": 8, "time_cap": 70},
    "thorough": {"examples": 15000, "workers": 14, "time_cap": 900},
}
GRID_DESC = {
    "quick": "single file, sizes k*B+d and k*P+d (k<=8, d in -1,0,1) x P in 2^14,2^15,2^16 x creators V2/Assembler2",
    "thorough": "single file, all sizes k*B+d and k*P+d (k<=17, d in -1,0,1) x P in 2^14..2^17 x four creators",
}


def strategy(tier):
    @st.composite
    def case(draw):
        P = draw(trees.piece_length(tier))
        creator = draw(st.sampled_from(common.V2_CREATORS))
        route = "lib"
        if creator.startswith("Assembler"):
            route = draw(st.sampled_from(["lib", "cli"]))
        t = draw(trees.tree(P, max_files=8 if tier == "quick" else 20, cli_safe=(route == "cli")))
        return {"tree": t, "P": P, "creator": creator, "route": route,
                "progress": draw(st.sampled_from([0, 0, 1, 2])), "again": draw(common.second_act()), "warm": draw(common.warmup()),
                "spelling": draw(st.sampled_from(["abs", "abs", "abs", "rel", "dot-rel", "dot"]))}
    return case()


def grid(tier):
    from vf.props.c01 import _sizes
    cases = []
    if tier == "quick":
        combos = [(1 << e, 8, ["TorrentFileV2", "Assembler2"]) for e in (14, 15, 16)]
    else:
        combos = [(1 << e, 17, common.V2_CREATORS) for e in (14, 15, 16, 17)]
    for P, kmax, creators in combos:
        for s in _sizes(P, kmax):
            for c in creators:
                cases.append({"tree": {"name": "g", "single": True,
                                       "files": [{"path": [], "size": s, "mode": "rnd", "seed": s}]},
                              "P": P, "creator": c, "route": "lib", "progress": 0})
    return cases


def run_case(case):
    old_cwd = os.getcwd()
    try:
        return _run_case(case)
    finally:
        os.chdir(old_cwd)


def _run_case(case):
    tree = case["tree"]
    P = case["P"]
    target.reset()
    with sandbox.Scratch("c02") as scr:
        root = common.make(scr, tree)
        out = os.path.join(scr, "out", "o.torrent")
        warmed = common.apply_warmup(scr, case.get("warm"))
        sp = case.get("spelling", "abs")
        if sp in ("rel", "dot-rel"):
            # the content root spelled relative to the working directory (its parent)
            os.chdir(os.path.dirname(root))
            root = os.path.basename(root) if sp == "rel" else "./" + os.path.basename(root)
        elif sp == "dot" and not tree["single"]:
            os.chdir(root)
            root = "."
        try:
            m = common.create(case["creator"], case["route"], root, out, P, case["progress"])
        except Exception as e:
            return Outcome(Violation("C02:exception:%s" % type(e).__name__, "create raised %r" % (e,)), True, ["exception"])
        first = judge(m, tree, P)
        if sp != "abs":
            first.classes = tuple(first.classes) + ("root-spelled-" + sp,)
        if warmed:
            first.classes = tuple(first.classes) + ("after-warm-up", "after-warm-up-other-P" if case["warm"]["P"] != P else "after-warm-up-same-P")
            if first.violation is not None:
                first.violation.sig = "C02:warmed:" + first.violation.sig.split(":", 1)[1]
                first.violation.msg = "after an unrelated create in the same process (%s, piece length %d): %s" % (case["warm"]["creator"], case["warm"]["P"], first.violation.msg)
        if first.violation is not None or not case.get("again"):
            return first
        tree2 = common.apply_second_act(tree, root, case["again"])
        if tree2 is None:
            return first
        try:
            m2 = common.create(case["creator"], case["route"], root, os.path.join(scr, "out", "again.torrent"), P, case["progress"])
        except Exception as e:
            return Outcome(Violation("C02:again:exception:%s" % type(e).__name__, "second create raised %r" % (e,)), True)
        second = judge(m2, tree2, P)
        if second.violation is not None:
            v = second.violation
            return Outcome(Violation("C02:again:" + v.sig.split(":", 1)[1], "second create in the same process after rewriting one file in place: " + v.msg),
                           True, list(first.classes) + ["second-act"])
        return Outcome(None, first.nontrivial, list(first.classes) + ["second-act"])


def _empty_nodes(node, prefix):
    out = []
    if isinstance(node, dict):
        for k, v in node.items():
            if isinstance(v, dict) and b"" not in v:
                name = k.decode("utf-8", "replace") if isinstance(k, bytes) else str(k)
                if not v:
                    out.append("/".join(prefix + [name]))
                else:
                    out += _empty_nodes(v, prefix + [name])
    return out


def judge(m, tree, P):
    info = m.info
    if info.get(b"piece length") != P:
        return Outcome(Violation("C02:piece-length", "recorded %r requested %d" % (info.get(b"piece length"), P)), True)
    try:
        leaves = m.tree_leaves()
    except vmeta.MetaError as e:
        return Outcome(Violation("C02:tree-malformed", str(e)), True)
    spec = common.by_path(tree)
    listed = sorted(("/".join(p), ln) for p, ln, _, _ in leaves)
    exp = sorted((k, f["size"]) for k, f in spec.items())
    if listed != exp:
        return Outcome(Violation("C02:tree-mismatch", "file tree leaves != files on disk: missing %r extra %r" % (
            [e for e in exp if e not in listed][:3], [e for e in listed if e not in exp][:3])), True)
    # "mirrors the content directory exactly": a node without any file below it claims a directory the content does not have
    # (generated trees have no empty directories; a broken link, a FIFO or a socket is not one)
    phantom = _empty_nodes(info.get(b"file tree"), [])
    if phantom:
        return Outcome(Violation("C02:phantom-directory-node", "file tree has empty directory node(s) %r that no directory of the content corresponds to" % (phantom[:3],)), True)
    classes = set()
    exp_layers = {}
    for p, ln, root, keys in leaves:
        f = spec["/".join(p)]
        classes.update(common.v2_file_classes(ln, P))
        if ln == 0:
            if b"pieces root" in keys:
                return Outcome(Violation("C02:empty-file-has-root", "empty file %r carries a pieces root" % (p,)), True, classes)
            continue
        rroot, rlayer = common.ref_merkle(f, P)
        if root != rroot:
            return Outcome(Violation("C02:root:%s" % _shape(ln, P), "pieces root of %r (len %d, P %d) differs from reference" % (
                p, ln, P)), True, classes)
        if ln > P:
            exp_layers[rroot] = rlayer
    layers = m.top.get(b"piece layers")
    if not isinstance(layers, dict):
        return Outcome(Violation("C02:no-piece-layers", "top-level piece layers missing or not a dict"), True, classes)
    if set(layers) != set(exp_layers):
        return Outcome(Violation("C02:layers-keys", "piece layers keys != roots of files larger than P: missing %d extra %d" % (
            len(set(exp_layers) - set(layers)), len(set(layers) - set(exp_layers)))), True, classes)
    for k, v in layers.items():
        if v != exp_layers[k]:
            return Outcome(Violation("C02:layer-value", "piece layer differs from reference (got %d bytes, ref %d)" % (
                len(v) if isinstance(v, bytes) else -1, len(exp_layers[k]))), True, classes)
    nontrivial = bool(classes & {"short-last-block", "short-last-piece", "piece-count-not-pow2", "size==P"})
    return Outcome(None, nontrivial, sorted(classes))


def _shape(ln, P):
    if ln <= trees.B:
        return "one-block"
    if ln <= P:
        return "within-piece"
    n = -(-ln // P)
    return "multi-pow2" if n & (n - 1) == 0 else "multi-nonpow2"
