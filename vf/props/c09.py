"""C09 - results never depend on what the process did earlier."""
import hashlib
import os
import shutil

from hypothesis import strategies as st

from vf import sandbox, target
from vf.engine import HarnessError, Outcome, Violation
from vf.gen import edits
from vf.instr import pristine
from vf.ref import bencode

ID = "C09"
LEVEL = "exploration"
TECHNIQUE = "Hypothesis-generated operation sequences (model-based: create/recheck/edit/magnet/rebuild interleaved with filesystem mutations) executed in one long-lived process without resets; after every step the observable is compared with the same step performed by a forked copy of a never-used interpreter (cross-validated against real fresh subprocesses) ; mtime-preserving rewrites and flips, restore, sparse 17 MB file with automatic piece length, varying piece lengths, class-based creators"
RULE = ("Cases: sequences of 3..25 steps over one sandbox: create v1/v2/hybrid of the payload directory or of one file in it (library and "
        "CLI; also configured by one of six torrentfile.ini files via --config --config-path, incl. options in [DEFAULT] and tracker lists, and the bare CLI create with no options), add / delete / grow / shrink / rewrite a file under the payload, edit, recheck (root or parent), rebuild, magnet; the history "
        "process keeps all interpreter state between steps. Oracle per torrentfile step: the same operation on the same filesystem state in "
        "a pristine interpreter (a server process forked before any torrentfile operation ran forks one grandchild per query; every 25th "
        "query is additionally run in a brand-new python subprocess and must agree with the fork, else harness error) must yield the same "
        "observable: metafile without creation date, percentage, edited bytes, URI, destination snapshot + count, or exception type. "
        "Non-trivial: a create or recheck of a path after a mutation under it that followed an earlier operation on it. Distinct = distinct "
        "canonical case JSON.")
ASSUMPTIONS = [
    "a forked copy of an interpreter that has imported torrentfile but never executed an operation is state-equivalent to a fresh interpreter (cross-validated against real subprocesses on every 25th query)",
    "scratch paths are never reused across cases, so state keyed by path cannot leak between cases",
    "creation date is excluded from metafile comparison",
]
BUDGET = {
    "quick": {"examples": 450, "workers": 8, "time_cap": 80},
    "thorough": {"examples": 2500, "workers": 14, "time_cap": 900},
}
HERE = os.path.dirname(os.path.dirname(os.path.dirname(os.path.abspath(__file__))))
NAMES = ["a", "b", "c.bin", "sub/d", "sub/e", "z"]
_server = None
_queries = [0]


def setup_worker():
    global _server
    if _server is None:
        _server = pristine.Pristine(perform)
        _server.start()


def teardown_worker():
    global _server
    if _server is not None:
        _server.stop()
        _server = None


# configuration files for the cli-config route (legitimate INI: options may sit in [DEFAULT]; list values are one URL per line)
INIS = {
    "defaults-section": "[DEFAULT]\nsource = SRC\nprivate = true\ncomment = from defaults\n\n[config]\npiece-length = 15\n",
    "two-trackers": "[config]\nannounce = http://one.example/announce\n    http://two.example/announce\n",
    "one-tracker": "[config]\ntracker = http://three.example/announce\npiece-length = 14\n",
    "seeds-and-source": "[config]\nweb-seed = http://w.example/a\n    http://w.example/b\nhttp-seed = http://h.example/a\nsource = other\n",
    "bare": "[config]\npiece-length = 16\n",
    "private-only": "[config]\nprivate = true\ncomment = c2\n",
}


def strategy(tier):
    fsop = st.one_of(
        st.fixed_dictionaries({"op": st.just("add"), "name": st.sampled_from(NAMES), "size": st.sampled_from([0, 1, 5000, 16384, 20000, 40000]), "seed": st.integers(0, 99)}),
        # a sparse 17 MB file moves the payload across the first automatic piece-length threshold (1000 * 16 KiB)
        st.fixed_dictionaries({"op": st.just("add"), "name": st.just("big.bin"), "size": st.just(17000000), "seed": st.just(0), "sparse": st.just(True)}),
        st.fixed_dictionaries({"op": st.just("delete"), "k": st.integers(0, 9)}),
        st.fixed_dictionaries({"op": st.just("resize"), "k": st.integers(0, 9), "size": st.sampled_from([0, 1, 777, 16384, 16385, 33000])}),
        st.fixed_dictionaries({"op": st.just("rewrite"), "k": st.integers(0, 9), "seed": st.integers(100, 199),
                               "keep_mtime": st.sampled_from([False, True])}),
        # one byte changed in place, optionally with the old timestamps put back (cp -p, rsync -t, bit rot)
        st.fixed_dictionaries({"op": st.just("flip"), "k": st.integers(0, 9), "at": st.integers(0, 40000),
                               "keep_mtime": st.sampled_from([False, True, True])}),
        st.fixed_dictionaries({"op": st.just("restore"), "k": st.integers(0, 9)}),
    )
    tfop = st.one_of(
        st.fixed_dictionaries({"op": st.just("create"), "ver": st.sampled_from(["1", "2", "3"]), "route": st.sampled_from(["lib", "cli"]),
                               "target": st.sampled_from(["dir", "dir", "dir", "file"]), "k": st.integers(0, 9),
                               "auto": st.sampled_from([False, False, True]), "pexp": st.sampled_from([14, 14, 15, 16])}),
        st.fixed_dictionaries({"op": st.just("create"), "ver": st.sampled_from(["1", "2", "3"]), "route": st.sampled_from(["lib", "cli", "lib-class"]),
                               "target": st.just("dir"), "k": st.just(0), "pexp": st.sampled_from([14, 15, 16])}),
        # create configured by a torrentfile.ini (--config --config-path): whatever the configuration layer keeps between two uses shows
        st.fixed_dictionaries({"op": st.just("create"), "ver": st.sampled_from(["1", "2", "3"]), "route": st.just("cli-config"),
                               "target": st.just("dir"), "k": st.just(0), "pexp": st.just(14), "ini": st.sampled_from(sorted(INIS))}),
        st.fixed_dictionaries({"op": st.just("create"), "ver": st.sampled_from(["1", "2", "3"]), "route": st.just("cli-plain"),
                               "target": st.just("dir"), "k": st.just(0), "pexp": st.just(14)}),
        st.fixed_dictionaries({"op": st.just("recheck"), "m": st.integers(0, 9), "content": st.sampled_from(["root", "parent"])}),
        st.fixed_dictionaries({"op": st.just("edit"), "m": st.integers(0, 9), "req": edits.edit_request()}),
        st.fixed_dictionaries({"op": st.just("magnet"), "m": st.integers(0, 9)}),
        st.fixed_dictionaries({"op": st.just("rebuild"), "m": st.integers(0, 9)}),
    )
    create_op = st.fixed_dictionaries({"op": st.just("create"), "ver": st.sampled_from(["1", "2", "3"]), "route": st.sampled_from(["lib", "cli", "lib-class"]),
                                       "target": st.sampled_from(["dir", "file"]), "k": st.integers(0, 9), "auto": st.sampled_from([False, False, True]),
                                       "pexp": st.sampled_from([14, 15, 16])})

    # idioms: "use something, change the world underneath it, use it again" as one drawn unit (each expands to three steps)
    @st.composite
    def sandwich(draw):
        kind = draw(st.sampled_from(["create", "create", "recheck", "rebuild", "hybrid-empty", "rebuild-resume"]))
        if kind == "rebuild-resume":
            # a download that was incomplete at the first rebuild and complete at the second
            k, m = draw(st.integers(0, 9)), draw(st.integers(0, 9))
            return [{"op": "resize", "k": k, "size": draw(st.sampled_from([0, 1, 777, 16385]))}, {"op": "rebuild", "m": m},
                    {"op": "restore", "k": k}, {"op": "rebuild", "m": m}]
        if kind == "create":
            c = draw(create_op)
            return [c, draw(fsop), dict(c, pexp=draw(st.sampled_from([c["pexp"], 14, 15])))]
        if kind == "hybrid-empty":
            k = draw(st.integers(0, 9))
            c = {"op": "create", "ver": "3", "route": draw(st.sampled_from(["lib", "cli", "lib-class"])), "target": "file", "k": k, "auto": False, "pexp": 14}
            return [c, {"op": "resize", "k": k, "size": 0}, c]
        m = draw(st.integers(0, 9))
        mid = draw(st.one_of(fsop, st.fixed_dictionaries({"op": st.just("restore"), "k": st.integers(0, 9)})))
        if kind == "recheck":
            r = {"op": "recheck", "m": m, "content": draw(st.sampled_from(["root", "parent"]))}
            return [r, mid, r]
        return [{"op": "rebuild", "m": m}, mid, {"op": "rebuild", "m": m}]

    unit = st.one_of(tfop.map(lambda o: [o]), tfop.map(lambda o: [o]), fsop.map(lambda o: [o]), sandwich())
    return st.fixed_dictionaries({
        "initial": st.lists(st.tuples(st.sampled_from(NAMES), st.sampled_from([1, 5000, 16384, 20000])), min_size=1, max_size=4, unique_by=lambda t: t[0]).map(
            lambda l: [{"name": n, "size": s} for n, s in l]),
        "steps": st.lists(unit, min_size=3, max_size=18 if tier != "quick" else 10).map(lambda us: [o for u in us for o in u]),
    })


# ----------------------------------------------------------------------------- operations (shared by both sides)
def _meta_obs(path):
    with open(path, "rb") as fd:
        data = fd.read()
    try:
        node, _ = bencode.decode(data)
        top = node.plain()
        top.pop(b"creation date", None)
        return {"metafile": hashlib.sha256(bencode.encode(top)).hexdigest(), "size": len(data)}
    except bencode.BencodeError:
        return {"metafile-raw": hashlib.sha256(data).hexdigest()}


def perform(req):
    """Execute one torrentfile operation; returns a JSON-able observable.  Never resets package state."""
    op = req["op"]
    try:
        if op == "create":
            out = req["out"]
            pexp = req.get("pexp", 14)
            if req["route"] in ("lib", "lib-class"):
                creator = {"1": "TorrentFile", "2": "Assembler2", "3": "Assembler3"}[req["ver"]]
                if req["route"] == "lib-class":     # the class-based creators (HasherV2 / HasherHybrid)
                    creator = {"1": "TorrentFile", "2": "TorrentFileV2", "3": "TorrentFileHybrid"}[req["ver"]]
                kw = {} if req.get("auto") else {"piece_length": 1 << pexp}
                target.create_lib(creator, req["path"], out, **kw)
            elif req["route"] == "cli-config":
                ini = out + ".ini"
                with open(ini, "w", encoding="utf-8") as fd:
                    fd.write(INIS[req["ini"]])
                target.execute(["create", "--meta-version", req["ver"], "-o", out, "--prog", "0", "--config", "--config-path", ini, req["path"]])
            elif req["route"] == "cli-plain":
                # no tracker, no piece length, nothing but the payload: the defaults of the argument parser decide
                target.execute(["create", "--meta-version", req["ver"], "-o", out, "--prog", "0", req["path"]])
            else:
                pl = [] if req.get("auto") else ["--piece-length", str(pexp)]
                target.execute(["create", "--meta-version", req["ver"], "-o", out, "--prog", "0"] + pl + [req["path"]])
            return _meta_obs(out)
        if op == "recheck":
            return {"percent": repr(target.recheck_pct(req["metafile"], req["content"]))}
        if op == "edit":
            shutil.copyfile(req["metafile"], req["out"])
            if req["req"]["route"] == "lib":
                with target.quiet():
                    target.edit_mod.edit_torrent(req["out"], edits.edit_to_lib_args(req["req"]))
            else:
                target.execute(edits.edit_to_cli(req["req"], req["out"]))
            with open(req["out"], "rb") as fd:
                return {"edited": hashlib.sha256(fd.read()).hexdigest()}
        if op == "magnet":
            with target.quiet():
                return {"uri": target.commands.magnet(req["metafile"])}
        if op == "rebuild":
            os.makedirs(req["out"])
            with target.quiet():
                n = target.rebuild.Assembler([req["metafile"]], [req["search"]], req["out"]).assemble_torrents()
            snap = sandbox.snapshot(req["out"])
            return {"count": n, "dest": sorted((k, v[0], v[1], v[2]) for k, v in snap.items())}
    except Exception as e:  # noqa: BLE001 - exceptions are observables too (type compared)
        return {"exception": type(e).__name__}
    raise ValueError(op)


# ----------------------------------------------------------------------------- the history
def run_case(case):
    setup_worker()
    target.reset()
    with sandbox.Scratch("c09") as scr:
        pay = os.path.join(scr, "work", "pay")
        os.makedirs(pay)
        mdir = os.path.join(scr, "meta")
        tmp = os.path.join(scr, "tmp")
        os.makedirs(mdir)
        os.makedirs(tmp)
        files = []
        origin = {}

        def write(name, size, seed, sparse=False):
            p = os.path.join(pay, name)
            os.makedirs(os.path.dirname(p), exist_ok=True)
            with open(p, "wb") as fd:
                if sparse:
                    fd.truncate(size)
                else:
                    fd.write(sandbox.content("nz", seed, size))
            if name not in files:
                files.append(name)
                origin[name] = (size, seed)
        for i, f in enumerate(case["initial"]):
            write(f["name"], f["size"], i)
        metas = []          # {"path", "target"}
        touched = {}        # target path -> "clean" | "dirty"  (dirty = mutated under it after an operation on it)
        classes = set()
        nontrivial = False
        last_mut = None
        for i, step in enumerate(case["steps"]):
            op = step["op"]
            if op in ("add", "delete", "resize", "rewrite", "restore", "flip"):
                if op == "add":
                    if step["name"] in files:
                        continue
                    # do not create a file where a directory is needed or vice versa
                    if any(f.startswith(step["name"] + "/") for f in files) or any(step["name"].startswith(f + "/") for f in files):
                        continue
                    write(step["name"], step["size"], step["seed"], step.get("sparse", False))
                    name = step["name"]
                elif not files:
                    continue
                else:
                    name = files[step["k"] % len(files)]
                    p = os.path.join(pay, name)
                    if op == "delete":
                        if len(files) == 1:
                            continue
                        os.remove(p)
                        files.remove(name)
                        d = os.path.dirname(p)
                        if d != pay and not os.listdir(d):
                            os.rmdir(d)
                    elif op == "resize":
                        with open(p, "wb") as fd:
                            fd.write(sandbox.content("nz", 300 + i, step["size"]))
                    elif op == "restore":
                        # back to the content the file had when it was first written (e.g. a download that completes)
                        with open(p, "wb") as fd:
                            if origin[name][0] > 1000000:
                                fd.truncate(origin[name][0])
                            else:
                                fd.write(sandbox.content("nz", origin[name][1], origin[name][0]))
                    elif op == "flip":
                        size = os.path.getsize(p)
                        if size == 0:
                            continue
                        st0 = os.stat(p)
                        with open(p, "r+b") as fd:
                            fd.seek(step["at"] % size)
                            b0 = fd.read(1)
                            fd.seek(step["at"] % size)
                            fd.write(bytes([b0[0] ^ 0x5A]))
                        if step.get("keep_mtime"):
                            os.utime(p, ns=(st0.st_atime_ns, st0.st_mtime_ns))
                    else:
                        size = os.path.getsize(p)
                        st0 = os.stat(p)
                        with open(p, "r+b") as fd:      # in place: same inode, same length
                            fd.write(sandbox.content("nz", step["seed"], size))
                        if step.get("keep_mtime"):
                            os.utime(p, ns=(st0.st_atime_ns, st0.st_mtime_ns))
                last_mut = op
                for t in touched:
                    if t == pay or t == os.path.join(pay, name):
                        touched[t] = "dirty:" + op
                continue
            req = {"op": op}
            key = None
            if op == "create":
                if step["target"] == "file":
                    tpath = os.path.join(pay, files[step["k"] % len(files)])
                else:
                    tpath = pay
                req.update({"ver": step["ver"], "route": step["route"], "path": tpath, "auto": step.get("auto", False),
                            "pexp": step.get("pexp", 14)})
                if "ini" in step:
                    req["ini"] = step["ini"]
                    classes.add("create-via-config-file")
                key = tpath
            else:
                if not metas:
                    continue
                m = metas[step["m"] % len(metas)]
                req["metafile"] = m["path"]
                key = m["target"]
                if op == "recheck":
                    if not os.path.exists(m["target"]):
                        continue
                    req["content"] = m["target"] if step["content"] == "root" else os.path.dirname(m["target"])
                elif op == "edit":
                    req["req"] = step["req"]
                elif op == "rebuild":
                    req["search"] = os.path.join(scr, "work")
            after = touched.get(key, "first")
            if op in ("create", "recheck") and after.startswith("dirty"):
                nontrivial = True
                classes.add("%s-after-%s" % (op, after.split(":")[1]))
            classes.add("op-" + op)
            # pristine side first, then the history process; distinct output names
            preq = dict(req, out=os.path.join(tmp, "p%d" % i))
            hreq = dict(req, out=os.path.join(tmp, "h%d" % i))
            pobs = _server.query(preq)
            if isinstance(pobs, dict) and "harness-error" in pobs:
                raise HarnessError("pristine side failed: %s" % pobs["harness-error"])
            _queries[0] += 1
            if _queries[0] % 25 == 0:
                sreq = dict(req, out=os.path.join(tmp, "s%d" % i))
                sobs = pristine.subprocess_query("vf.props.c09", sreq, HERE)
                if _norm(sobs) != _norm(pobs):
                    raise HarnessError("forked pristine interpreter and fresh subprocess disagree on %r: %r vs %r" % (req, pobs, sobs))
                classes.add("cross-validated-with-subprocess")
            hobs = perform(hreq)
            if _norm(hobs) != _norm(pobs):
                what = "exception" if "exception" in hobs else ("result" if "exception" not in pobs else "no-exception")
                return Outcome(Violation("C09:%s:%s:%s" % (op, after.split(":")[0] + ("-" + after.split(":")[1] if ":" in after else ""), what),
                                         "step %d (%s, %s): the long-lived process observed %s, a fresh interpreter %s" % (
                                             i, op, after, _short(hobs), _short(pobs))), True, sorted(classes))
            # advance the state with the history side's outputs
            if op == "create" and "exception" not in hobs:
                dst = os.path.join(mdir, "m%d.torrent" % len(metas))
                shutil.copyfile(hreq["out"], dst)
                metas.append({"path": dst, "target": key})
            elif op == "edit" and "exception" not in hobs:
                shutil.copyfile(hreq["out"], req["metafile"])
            for pth in (preq["out"], hreq["out"]):
                if os.path.isdir(pth):
                    shutil.rmtree(pth, ignore_errors=True)
                elif os.path.exists(pth):
                    os.remove(pth)
            if op in ("create", "recheck", "rebuild"):
                touched[key] = "clean"
        return Outcome(None, nontrivial, sorted(classes))


def _norm(obs):
    import json
    return json.loads(json.dumps(obs))


def _short(obs):
    s = repr(obs)
    return s if len(s) < 160 else s[:160] + "..."
