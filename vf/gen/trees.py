"""Hypothesis strategies for content trees, sizes, names, piece lengths.

All generated cases are plain JSON-able dicts so that a case shrinks as one
value and a replay file is just that dict.
"""
from hypothesis import strategies as st

B = 16384

# sort-order traps, plus names the tool itself uses for something (.pad directories, .torrent probe, config file)
TRAP_NAMES = ["a", "a.txt", "a b", "a-b", "B", "10", "9", ".hidden", "a0", "A", "b", "z.d", "a!", "aa",
              ".pad", ".torrent", "torrentfile.ini", "a.torrent",
              # names of metafile fields (a payload entry may be called like one) and shell-pattern look-alikes
              "source", "comment", "private", "announce", "info", "Title [2020]", "x[1]", "a*", "q?"]
# whole paths the tool itself could produce or special-case
TRAP_PATHS = [[".pad", "10"], [".pad", "16384"], [".pad", "x"], ["sub", ".pad", "9"]]
# composed and decomposed forms, compatibility characters (an encoder must keep names byte-for-byte)
NONASCII = ["\u00e9", "e\u0301", "\u00fc", "\u4e02", "\U0001f600", "\u212b", "\u00df", "\u03a9", "\ufb01"]
SAFE_PUNCT = " !#$%&'()+,;=@[]^_{}~.-"
ALPHA = "abcdefghijklmnopqrstuvwxyzABCDEFGHIJKLMNOPQRSTUVWXYZ0123456789"


# (size, seed) of mode-"nz" contents whose SHA-1 digest happens to be valid UTF-8 (found by search; verified by selfcheck())
UTF8_SHA1 = [(7, 188267), (7, 325718), (100, 13065), (100, 114349), (5000, 64089), (5000, 89257), (16384, 68539), (16384, 330530)]
# the same for SHA-256: a file of one block has its SHA-256 as BEP 52 pieces root (about 1 content in 10^8; found by search)
UTF8_SHA256 = [(7, 104364468), (7, 212425079), (7, 270607990), (7, 294742300), (7, 376316008), (7, 385646276)]


def selfcheck():
    import hashlib
    from vf import sandbox
    for size, seed in UTF8_SHA1:
        hashlib.sha1(sandbox.content("nz", seed, size)).digest().decode("utf-8")
    for size, seed in UTF8_SHA256:
        hashlib.sha256(sandbox.content("nz", seed, size)).digest().decode("utf-8")


def name_component(cli_safe=False):
    """One path component: valid UTF-8, no '/', NUL, not '.'/'..', <= 24 chars."""
    alphabet = ALPHA + SAFE_PUNCT
    free = st.lists(st.one_of(st.sampled_from(list(alphabet)), st.sampled_from(NONASCII)),
                    min_size=1, max_size=12).map("".join)
    s = st.one_of(st.sampled_from(TRAP_NAMES), st.sampled_from(TRAP_NAMES), free)

    def ok(n):
        if n in (".", "..") or not n.strip(" "):
            return False
        if cli_safe and (n.startswith("-") or n.endswith("\\")):
            return False
        return True
    return s.filter(ok)


def piece_length(tier="quick", exps=None):
    if exps is None:
        # 2^21 / 2^22: pieces larger than any read-buffer size a hasher or checker is likely to use (rare: heavier cases)
        exps = [14, 15, 16] * 6 + [21] if tier == "quick" else [14, 15, 16, 14, 15, 16, 17, 18] * 3 + [21, 22]
    return st.sampled_from(exps).map(lambda e: 1 << e)


def file_size(P, big=True):
    d = st.sampled_from([-2, -1, 0, 1, 2])
    kB = st.integers(0, 17)
    kP = st.one_of(st.integers(0, 4), st.integers(0, 17) if big else st.integers(0, 4))
    if P >= 1 << 20:
        kP = st.integers(0, 2)          # keep payloads of large-piece cases to a few MiB
    parts = [
        st.sampled_from([0, 1]),
        st.tuples(kB, d).map(lambda t: max(0, t[0] * B + t[1])),
        st.tuples(kP, d).map(lambda t: max(0, t[0] * P + t[1])),
        st.integers(0, 3 * P) if P < 1 << 20 else st.tuples(st.integers(0, 3), st.sampled_from([-1, 0, 1, 12345])).map(lambda t: max(0, t[0] * (1 << 20) + t[1])),
        st.integers(0, 64),
        st.tuples(kP, st.integers(0, P - 1)).map(lambda t: t[0] * P + t[1]),
    ]
    if big and P == 16384:
        # many pieces (18..70): deeper merkle trees and piece counts around 32 and 64
        parts.append(st.tuples(st.integers(18, 70), d).map(lambda t: t[0] * P + t[1]))
    return st.one_of(*parts)


MODES_ALL = ["rnd", "rnd", "nz", "zero", "const", "ztail"]
MODES_NZ = ["nz", "nz", "nz", "const"]   # every byte non-zero; "const" = one repeated byte (periodic content)


def file_entry(P, modes, big=True, nonempty=False):
    size = file_size(P, big)
    if nonempty:
        size = size.map(lambda s: max(1, s))
    return st.fixed_dictionaries({
        "size": size,
        "mode": st.sampled_from(modes),
        "seed": st.integers(0, 2**32 - 1),
    })


def _fix_paths(paths):
    """Make a list of component lists a valid set of file paths (construction, not rejection)."""
    files = set()
    dirs = set()
    out = []
    for comps in paths:
        comps = list(comps)
        for i in range(len(comps)):
            last = i == len(comps) - 1
            k = 0
            base = comps[i]
            while True:
                t = tuple(comps[:i + 1])
                clash = (t in files) or (last and t in dirs)
                if not clash:
                    break
                k += 1
                comps[i] = "%s~%d" % (base, k)
        files.add(tuple(comps))
        for i in range(1, len(comps)):
            dirs.add(tuple(comps[:i]))
        out.append(comps)
    return out


@st.composite
def tree(draw, P, max_files=8, modes=None, single=None, min_files=1, cli_safe=False, big=True,
         nonempty_total=False, hardlinks=True, symlinks=True):
    """A content tree: {'name','single','files':[{'path','size','mode','seed'}]}."""
    modes = modes or MODES_ALL
    comp = name_component(cli_safe)
    name = draw(comp)
    if single is None:
        single = draw(st.sampled_from([False, False, False, True]))
    if single:
        if "nz" in modes and draw(st.sampled_from([True] + [False] * 11)):
            # a tiny region no random search reaches: the single piece's SHA-1 is valid UTF-8 (a lenient decoder
            # may hand it back as text instead of bytes)
            size, seed = draw(st.sampled_from(UTF8_SHA1 + UTF8_SHA256))
            return {"name": name, "single": True, "files": [{"size": size, "mode": "nz", "seed": seed, "path": []}]}
        f = draw(file_entry(P, modes, big, nonempty=nonempty_total))
        f["path"] = []
        return {"name": name, "single": True, "files": [f]}
    if "nz" in modes and P == 16384 and draw(st.sampled_from([True] + [False] * 19)):
        # two pieces whose SHA-1 digests are both valid UTF-8 with multi-byte characters: the whole piece string decodes as text
        return {"name": name, "single": False, "files": [
            {"path": ["p1"], "size": 16384, "mode": "nz", "seed": draw(st.sampled_from([68539, 330530]))},
            dict(zip(("size", "seed"), draw(st.sampled_from([(7, 188267), (100, 13065), (5000, 64089)]))), path=["p2"], mode="nz")]}
    n = draw(st.integers(min_files, max_files))
    pool = draw(st.lists(comp, min_size=1, max_size=5, unique=True))
    one = st.one_of(st.sampled_from(pool), comp)
    depth = st.sampled_from([1, 1, 1, 2, 2, 3, 4])
    raw = [draw(st.lists(one, min_size=1, max_size=draw(depth))) for _ in range(n)]
    if draw(st.sampled_from([True] + [False] * 3)):
        # sort-order trap: a sibling that differs from an existing entry only in letter case / Unicode normal form
        import unicodedata
        src = list(raw[draw(st.integers(0, len(raw) - 1))])
        lvl = draw(st.integers(0, len(src) - 1))
        how = draw(st.sampled_from(["swapcase", "swapcase", "NFD", "NFC"]))
        twin = src[lvl].swapcase() if how == "swapcase" else unicodedata.normalize(how, src[lvl])
        if twin != src[lvl] and twin not in (".", ".."):
            src[lvl] = twin
            raw.append(src)
    if draw(st.sampled_from([True] + [False] * 9)):
        raw.append(list(draw(st.sampled_from(TRAP_PATHS))))
    if draw(st.sampled_from([True] + [False] * 5)):
        # a component that contains the root's own name (prefix stripping by string replacement goes wrong on these)
        echo = draw(st.sampled_from(["meta" + name, name + "2", name, "Vol."]))
        raw.append([echo, draw(one)] if draw(st.booleans()) else [draw(one), echo])
    paths = _fix_paths(raw)
    files = []
    for p in paths:
        f = draw(file_entry(P, modes, big))
        f["path"] = p
        if len(p) == 2 and p[0] == ".pad" and p[1].isdigit() and draw(st.booleans()):
            f["size"] = int(p[1])       # looks exactly like a padding file some client wrote to disk
        files.append(f)
    if nonempty_total and all(f["size"] == 0 for f in files):
        files[0]["size"] = 1 + draw(st.integers(0, 2 * P))
    if "nz" in modes and draw(st.sampled_from([True] + [False] * 11)):
        # one file whose BEP 52 pieces root (= SHA-256 of its single block) is valid UTF-8
        k = draw(st.integers(0, len(files) - 1))
        size, seed = draw(st.sampled_from(UTF8_SHA256))
        files[k].update({"size": size, "seed": seed, "mode": "nz"})
    if len(files) >= 2 and draw(st.sampled_from([True] + [False] * 3)):
        # make one file start mid-piece and end exactly on a piece boundary of the v1 stream (full-path order)
        order = sorted(range(len(files)), key=lambda i: "/".join([name] + files[i]["path"]))
        j = draw(st.integers(1, len(files) - 1))
        off = sum(files[i]["size"] for i in order[:j])
        if off % P:
            files[order[j]]["size"] = (-off) % P + P * draw(st.integers(0, 2))
    if draw(st.sampled_from([True] + [False] * 5)):
        # a byte-identical copy of an existing file under another name (same content twice in one payload)
        j = draw(st.integers(0, len(files) - 1))
        twin = dict(files[j])
        twin.pop("hardlink", None)
        twin["path"] = _fix_paths([list(t["path"]) for t in files] + [list(draw(st.lists(one, min_size=1, max_size=2)))])[-1]
        files.append(twin)
    for f in files:
        if draw(st.sampled_from([True] + [False] * 9)):
            f["x"] = True       # executable bit set on disk
    if hardlinks and draw(st.sampled_from([True] + [False] * 5)):
        # a second name for an existing regular file (hard link): still a regular file that must be listed and hashed
        j = draw(st.integers(0, len(files) - 1))
        twin = dict(files[j])
        twin["path"] = _fix_paths([list(t["path"]) for t in files] + [list(draw(st.lists(one, min_size=1, max_size=2)))])[-1]
        twin["hardlink"] = j
        files.append(twin)
    links = []
    if symlinks and draw(st.sampled_from([True] + [False] * 6)):
        # a symbolic link to a sibling directory or to a file of the tree: the tool follows it, so the files behind it
        # are payload under the link's name as well ("via" entries: not written by the materialiser, the link provides them)
        dirs = sorted({f["path"][0] for f in files if len(f["path"]) > 1 and f.get("hardlink") is None})
        taken = {tuple(f["path"][:1]) for f in files}
        lname = draw(st.sampled_from(["current", "zz-link", "0link", "latest.bin"]))
        if (lname,) not in taken:
            if dirs and draw(st.booleans()):
                d = draw(st.sampled_from(dirs))
                links.append({"path": [lname], "target": d})
                for j, f in enumerate(list(files)):
                    if len(f["path"]) > 1 and f["path"][0] == d and f.get("via") is None:
                        files.append({"path": [lname] + f["path"][1:], "size": f["size"], "mode": f["mode"], "seed": f["seed"], "via": j})
            else:
                j = draw(st.integers(0, len(files) - 1))
                if files[j].get("hardlink") is None:
                    links.append({"path": [lname], "target": "/".join(files[j]["path"])})
                    files.append({"path": [lname], "size": files[j]["size"], "mode": files[j]["mode"], "seed": files[j]["seed"], "via": j})
    if symlinks and draw(st.sampled_from([True] + [False] * 11)):
        # a broken link left in the folder: not a file, not a directory - it contributes nothing, and must not stop anything
        dn = "broken-link"
        if not any(f["path"][0] == dn for f in files):
            links.append({"path": [dn], "target": "no-such-target"})
    if len(files) == 1 and files[0]["path"] == [name]:
        # BEP 52 cannot tell "directory x holding only file x" from "single file x": not generated
        files[0]["path"] = [name + "~f"]
    out = {"name": name, "single": False, "files": files}
    if links:
        out["links"] = links
    return out


def tree_total(tree):
    return sum(f["size"] for f in tree["files"])
