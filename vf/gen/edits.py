"""Strategies for create options and edit requests (JSON-able)."""
import os

from hypothesis import strategies as st

URL_POOL = [
    "http://tracker.example/announce", "udp://t2.example:6969", "https://a.b/c?d=e&f=g",
    "http://ü.example/ä", "http://x/%41+b", "wss://t/#frag", "http://h:1/a;b", "u",
]
TEXT_POOL = ["c", "a comment", "ünï", "x=y&z", "100%", "tab\there", "  padded  ", "-dash", "0", "丂😀"]


def url(cli_safe=False):
    free = st.text(alphabet="abcdefghijklmnop0123456789:/.?&=%+#-_~é丂", min_size=1, max_size=20)
    s = st.one_of(st.sampled_from(URL_POOL), free)
    s = s.filter(lambda u: u.strip() == u and not any(ch.isspace() for ch in u) and u != "")
    if cli_safe:
        # on the command line a list flag may swallow the content path, and the tool's documented recovery asks which of the
        # values is an existing path: a "url" such as "." or "a/.." names one (the cwd) and is not a url anyone means
        s = s.filter(lambda u: not u.startswith("-") and not os.path.exists(u) and set(u) - set("./"))
    return s


def text(cli_safe=False):
    free = st.text(alphabet="abc XYZ09-_=&%+é丂#;[]", min_size=1, max_size=16)
    s = st.one_of(st.sampled_from(TEXT_POOL), free).filter(lambda t: t != "")
    if cli_safe:
        s = s.filter(lambda t: not t.startswith("-"))
    return s


def url_list(cli_safe=False, max_size=3):
    return st.lists(url(cli_safe), min_size=1, max_size=max_size)


@st.composite
def create_options(draw, cli_safe=False):
    o = {}
    if draw(st.booleans()):
        o["announce"] = draw(url_list(cli_safe))
    if draw(st.booleans()):
        o["url_list"] = draw(url_list(cli_safe))
    if draw(st.booleans()):
        o["httpseeds"] = draw(url_list(cli_safe))
    if draw(st.booleans()):
        o["comment"] = draw(text(cli_safe))
    if draw(st.booleans()):
        o["source"] = draw(text(cli_safe))
    if draw(st.booleans()):
        o["private"] = True
    return o


def options_to_cli(o):
    argv = []
    if "announce" in o:
        argv += ["--announce"] + list(o["announce"])
    if "url_list" in o:
        argv += ["--web-seed"] + list(o["url_list"])
    if "httpseeds" in o:
        argv += ["--http-seed"] + list(o["httpseeds"])
    if "comment" in o:
        argv += ["--comment", o["comment"]]
    if "source" in o:
        argv += ["--source", o["source"]]
    if o.get("private"):
        argv += ["--private"]
    return argv


LIST_FIELDS = ["announce", "url-list", "httpseeds"]
TEXT_FIELDS = ["comment", "source"]
ALL_FIELDS = LIST_FIELDS + TEXT_FIELDS + ["private"]


@st.composite
def edit_request(draw, routes=("lib", "cli")):
    """{'route', 'fields': {field: {'op': 'set'|'clear', 'value': ...}}} with >=1 named field for lib."""
    route = draw(st.sampled_from(list(routes)))
    cli = route == "cli"
    fields = {}
    named = draw(st.lists(st.sampled_from(ALL_FIELDS), min_size=0 if cli else 1, max_size=4, unique=True))
    for f in named:
        if f == "private":
            if cli:
                fields[f] = {"op": "set", "value": True}
            else:
                fields[f] = draw(st.sampled_from([{"op": "set", "value": True}, {"op": "set", "value": 1},
                                                  {"op": "clear"}]))
        elif f in TEXT_FIELDS:
            if draw(st.sampled_from([True] + [False] * 3)):
                fields[f] = {"op": "clear"}
            else:
                fields[f] = {"op": "set", "value": draw(text(cli))}
        else:
            if draw(st.sampled_from([True] + [False] * 3)):
                # on the command line the only spelling of "cleared" is an empty argument: --tracker ""
                fields[f] = {"op": "clear"}
            else:
                lst = draw(url_list(cli))
                as_str = (not cli) and draw(st.booleans())
                fields[f] = {"op": "set", "value": " ".join(lst) if as_str else lst}
    return {"route": route, "fields": fields}


def edit_to_lib_args(req):
    """The dict edit_torrent expects: unnamed fields are None (as commands.edit passes them)."""
    args = {"url-list": None, "httpseeds": None, "announce": None, "source": None, "private": None, "comment": None}
    for f, op in req["fields"].items():
        args[f] = "" if op["op"] == "clear" else op["value"]
    return args


def edit_to_cli(req, metafile):
    argv = ["edit", metafile]
    flag = {"announce": "--tracker", "url-list": "--web-seed", "httpseeds": "--http-seed",
            "comment": "--comment", "source": "--source"}
    for f, op in req["fields"].items():
        if f == "private":
            argv.append("--private")
        elif op["op"] == "clear":
            argv += [flag[f], ""]
        elif isinstance(op["value"], list):
            argv += [flag[f]] + list(op["value"])
        else:
            argv += [flag[f], op["value"]]
    return argv


def apply_to_model(model, req):
    """Update the dict model (bytes keys, like Meta.top) in place; returns set of fields whose exact form is unconstrained."""
    def u(s):
        return s.encode("utf-8")
    info = model[b"info"]
    loose = set()
    for f, op in req["fields"].items():
        if f in TEXT_FIELDS:
            if op["op"] == "clear":
                info.pop(u(f), None)
            else:
                info[u(f)] = u(op["value"])
        elif f == "private":
            if op["op"] == "clear":
                info.pop(b"private", None)
            else:
                info[b"private"] = 1
        else:
            if op["op"] == "clear":
                model.pop(u(f), None)
                if f == "announce":
                    loose.add(b"announce-list")
            else:
                v = op["value"]
                lst = v.split() if isinstance(v, str) else list(v)
                if f == "announce":
                    model[b"announce"] = u(lst[0])
                    model[b"announce-list"] = [[u(x) for x in lst]]
                else:
                    model[u(f)] = [u(x) for x in lst]
    return loose
