#!/bin/sh
# Offline setup: the checks need only /venv/bin/python with hypothesis importable.
set -e
if ! /venv/bin/python -c "import hypothesis" 2>/dev/null; then
    /venv/bin/pip install --no-index --find-links /opt/veriftools/wheels hypothesis
fi
/venv/bin/python -c "import hypothesis, sys; print('hypothesis', hypothesis.__version__)"
cd "$(dirname "$0")"
mkdir -p evidence out
/venv/bin/python -c "
import sys; sys.path.insert(0, '.')
from vf.ref import bencode, hashing
bencode.selfcheck(); hashing.selfcheck(); print('reference self-checks ok')"
# optional: atheris for the coverage-guided stage of the thorough tier (checks skip the stage when it is absent)
if ! /venv/bin/python -c "import sys; sys.path.insert(0, '.deps'); import atheris" 2>/dev/null; then
    /venv/bin/pip install -q --no-index --find-links /opt/veriftools/wheels --target .deps atheris 2>/dev/null || echo "atheris not installed: coverage-guided stage will be skipped"
fi
