#!/usr/bin/env python3
"""
C06 finding 1: asking the library for a hybrid torrent with the documented
integer ``meta_version=3`` silently writes a v2-only metafile.

MetaFile's docstring documents ``meta_version : int``.  TorrentAssembler (the
class behind ``create --meta-version 2|3``) decides "hybrid" with
``self.meta_version == "3"`` (string comparison), so the integer 3 is treated
as "not hybrid": the metafile that is written has no ``pieces`` and neither
``length`` nor ``files`` -- the v1 half of the structure C06 requires for a
hybrid metafile is missing.  The same string comparison in commands.create
(``args.meta_version == "1"``) sends an integer 1 to TorrentAssembler too.

Oracle: an independent strict bencode decoder written below (no pyben).
Exit 1 = property violated, exit 0 = not violated.
"""
import contextlib
import io
import os
import shutil
import sys
import tempfile
from argparse import Namespace


# ----------------------------------------------------------------- oracle
class BenError(Exception):
    pass


def _num(raw, neg_ok):
    body = raw[1:] if (neg_ok and raw[:1] == b"-") else raw
    if not body.isdigit() or (len(body) > 1 and body[:1] == b"0") or raw == b"-0":
        raise BenError(f"non-canonical number {raw!r}")
    return int(raw)


def _dec(data, pos):
    c = data[pos:pos + 1]
    if c == b"i":
        end = data.index(b"e", pos)
        return _num(data[pos + 1:end], True), end + 1
    if c.isdigit():
        colon = data.index(b":", pos)
        n = _num(data[pos:colon], False)
        s = data[colon + 1:colon + 1 + n]
        if len(s) != n:
            raise BenError("truncated string")
        return s, colon + 1 + n
    if c == b"l":
        pos += 1
        out = []
        while data[pos:pos + 1] != b"e":
            val, pos = _dec(data, pos)
            out.append(val)
        return out, pos + 1
    if c == b"d":
        pos += 1
        out = {}
        last = None
        while data[pos:pos + 1] != b"e":
            key, pos = _dec(data, pos)
            if not isinstance(key, bytes):
                raise BenError("non-string key")
            if last is not None and key <= last:
                raise BenError(f"keys not strictly ascending: {last!r} {key!r}")
            last = key
            out[key], pos = _dec(data, pos)
        return out, pos + 1
    raise BenError(f"unexpected byte {c!r} at {pos}")


def strict_decode(data):
    val, pos = _dec(data, 0)
    if pos != len(data):
        raise BenError("data after the top-level dictionary")
    return val


def hybrid_problems(meta):
    """Everything the C06 statement lists for a hybrid metafile."""
    out = []
    info = meta.get(b"info", {})
    if not isinstance(info.get(b"name"), bytes):
        out.append("info.name missing")
    if not isinstance(info.get(b"piece length"), int):
        out.append("info['piece length'] missing")
    if not (isinstance(info.get(b"length"), int)
            or isinstance(info.get(b"files"), list)):
        out.append("neither info.length nor info.files")
    pieces = info.get(b"pieces")
    if not isinstance(pieces, bytes) or len(pieces) % 20:
        out.append("info.pieces (string of 20-byte hashes) missing")
    if info.get(b"meta version") != 2:
        out.append("info['meta version'] != 2")
    if not isinstance(info.get(b"file tree"), dict):
        out.append("info['file tree'] missing")
    layers = meta.get(b"piece layers")
    if not isinstance(layers, dict):
        out.append("top-level 'piece layers' missing")
    else:
        for key, val in layers.items():
            if len(key) != 32 or not isinstance(val, bytes) or len(val) % 32:
                out.append("piece layers entry is not 32-byte hashes")
    return out


# ------------------------------------------------------------------- test
def main():
    from torrentfile import commands
    from torrentfile.torrent import TorrentAssembler

    tmp = tempfile.mkdtemp(prefix="c06-f1-")
    failed = False
    try:
        root = os.path.join(tmp, "tree")
        os.mkdir(root)
        with open(os.path.join(root, "a.bin"), "wb") as fd:
            fd.write(b"x" * 20000)  # two 16 KiB pieces

        def report(label, outfile):
            nonlocal failed
            meta = strict_decode(open(outfile, "rb").read())
            probs = hybrid_problems(meta)
            keys = sorted(k.decode() for k in meta[b"info"])
            print(f"{label}\n    info keys: {keys}")
            if probs:
                print("    VIOLATION, hybrid structure incomplete:", probs)
            else:
                print("    ok: complete hybrid structure")
            return probs

        # control: the string the CLI passes
        out0 = os.path.join(tmp, "ctrl.torrent")
        TorrentAssembler(path=root, meta_version="3", piece_length=2**14,
                         outfile=out0, progress=0).write()
        ctrl = report('control  TorrentAssembler(meta_version="3")', out0)

        # route 1: the documented type (MetaFile docstring: meta_version : int)
        out1 = os.path.join(tmp, "lib.torrent")
        TorrentAssembler(path=root, meta_version=3, piece_length=2**14,
                         outfile=out1, progress=0).write()
        lib = report("library  TorrentAssembler(meta_version=3)", out1)

        # route 2: the exported torrentfile.create(Namespace) entry point
        out2 = os.path.join(tmp, "cmd.torrent")
        args = Namespace(content=root, meta_version=3, piece_length="14",
                         outfile=out2, progress="0", config=False,
                         config_path=None, magnet=False, announce=[],
                         comment=None, source=None, private=False,
                         url_list=None, httpseeds=None, align=False)
        with contextlib.redirect_stdout(io.StringIO()):
            commands.create(args)
        cmd = report("library  torrentfile.create(Namespace(meta_version=3))",
                     out2)

        if ctrl:
            print("unexpected: control is not a complete hybrid either")
        if lib or cmd:
            failed = True
            print("\nEXPECTED: a metafile requested as hybrid (version 3) "
                  "carries name, piece length, length|files, pieces, "
                  "meta version 2, file tree and piece layers.")
            print("ACTUAL:   with the integer 3 a v2-only metafile is written "
                  "(no pieces, no files/length); only the string '3' works.")
    finally:
        shutil.rmtree(tmp, ignore_errors=True)
    return 1 if failed else 0


if __name__ == "__main__":
    sys.exit(main())
