#!/usr/bin/env python3
"""
C05 finding 1 - v2 / hybrid recheck reports 0% for an intact file whose
`pieces root` happens to be a valid UTF-8 byte string.

pyben returns *text* for every byte string that decodes as UTF-8.  The v1
checker was repaired for that (d3afd34) but HashChecker still compares the
sha256 digest computed from disk (bytes) with `pieces root` as decoded (str).

Minimal input: a single 14-byte file with the content b"13194141225171".
Its sha256 (= BEP 52 merkle root of a one-block file) is valid UTF-8.

Exit 1 = property violated, exit 0 = property holds.
"""
import contextlib
import hashlib
import io
import os
import shutil
import sys
import tempfile

from torrentfile.recheck import Checker
from torrentfile.torrent import TorrentFileHybrid, TorrentFileV2

DATA = b"13194141225171"
PIECE_LENGTH = 16384


# ---------------------------------------------------------------- oracle ----
def bdecode(buf, i=0):
    """Independent bencode decoder; every string stays bytes."""
    c = buf[i:i + 1]
    if c == b"i":
        j = buf.index(b"e", i)
        return int(buf[i + 1:j]), j + 1
    if c == b"l":
        i += 1
        out = []
        while buf[i:i + 1] != b"e":
            v, i = bdecode(buf, i)
            out.append(v)
        return out, i + 1
    if c == b"d":
        i += 1
        out = {}
        while buf[i:i + 1] != b"e":
            k, i = bdecode(buf, i)
            out[k], i = bdecode(buf, i)
        return out, i + 1
    j = buf.index(b":", i)
    n = int(buf[i:j])
    return buf[j + 1:j + 1 + n], j + 1 + n


def bencode(x):
    """Independent bencode encoder (the 'foreign' encoder)."""
    if isinstance(x, int):
        return b"i%de" % x
    if isinstance(x, str):
        x = x.encode("utf-8")
    if isinstance(x, bytes):
        return b"%d:%s" % (len(x), x)
    if isinstance(x, list):
        return b"l" + b"".join(bencode(i) for i in x) + b"e"
    items = sorted((k.encode() if isinstance(k, str) else k, v)
                   for k, v in x.items())
    return b"d" + b"".join(bencode(k) + bencode(v) for k, v in items) + b"e"


def recheck(metafile, content):
    buf = io.StringIO()
    try:
        with contextlib.redirect_stdout(buf):
            return Checker(metafile, content).results()
    except Exception as exc:  # a raise is a violation as well
        return f"raised {exc!r}"


def main():
    root_hash = hashlib.sha256(DATA).digest()
    root_hash.decode("utf-8")  # sanity: the digest really is valid UTF-8
    tmp = tempfile.mkdtemp(prefix="c05f1-")
    failures = []
    try:
        parent = os.path.join(tmp, "parent")
        os.mkdir(parent)
        payload = os.path.join(parent, "f.bin")
        with open(payload, "wb") as fd:
            fd.write(DATA)

        metafiles = []
        # torrentfile's own creators
        for cls in (TorrentFileV2, TorrentFileHybrid):
            out = os.path.join(tmp, cls.__name__ + ".torrent")
            with contextlib.redirect_stdout(io.StringIO()):
                cls(path=payload, piece_length=PIECE_LENGTH,
                    outfile=out).write()
            metafiles.append((cls.__name__, out))
        # an independent BEP 52 encoder
        foreign = {
            "info": {
                "name": "f.bin",
                "piece length": PIECE_LENGTH,
                "meta version": 2,
                "file tree": {
                    "f.bin": {"": {"length": len(DATA),
                                   "pieces root": root_hash}}},
            },
            "piece layers": {},
        }
        out = os.path.join(tmp, "foreign.torrent")
        with open(out, "wb") as fd:
            fd.write(bencode(foreign))
        metafiles.append(("foreign v2 encoder", out))

        for label, mf in metafiles:
            # oracle: the metafile is well formed and describes the payload
            with open(mf, "rb") as fd:
                meta, _ = bdecode(fd.read())
            leaf = meta[b"info"][b"file tree"][b"f.bin"][b""]
            assert leaf[b"length"] == len(DATA)
            assert leaf[b"pieces root"] == root_hash, "metafile is wrong"
            for where, path in (("root", payload), ("parent", parent)):
                got = recheck(mf, path)
                ok = got == 100
                print(f"{label:20s} content={where:6s} expected 100  "
                      f"got {got}  {'ok' if ok else 'VIOLATION'}")
                if not ok:
                    failures.append((label, where, got))
    finally:
        shutil.rmtree(tmp, ignore_errors=True)

    if failures:
        print(f"\nsha256(payload) = {root_hash!r} is valid UTF-8, pyben hands "
              "it to HashChecker as str, the comparison with the digest "
              "computed from disk (bytes) can never succeed.")
        print("PROPERTY C05 VIOLATED")
        return 1
    print("property holds")
    return 0


if __name__ == "__main__":
    sys.exit(main())
