#!/usr/bin/env python3
"""
C05 finding 3 - the v1 checker ignores the `attr` key of a file entry: a
BEP 47 padding entry (attr "p") is read from disk whenever a real file with
the same path exists, instead of being taken as zeros.

torrentfile's own v1 creator with align=True (CLI: `create --align`) names its
padding entries ".pad/<n>".  A payload that really contains a file ".pad/<n>"
collides with such an entry; the metafile is still correct (verified below
with hashlib: padding == zeros), but recheck reports 50 %.

Minimal tree (piece length 16 KiB):
    payload/.pad/5   5 bytes  b"hello"
    payload/a        16379 bytes          -> padding entry .pad/5 (5 zeros)

Exit 1 = property violated, exit 0 = property holds.
"""
import contextlib
import hashlib
import io
import os
import shutil
import sys
import tempfile

from torrentfile.recheck import Checker
from torrentfile.torrent import TorrentFile

PIECE_LENGTH = 16384


def bdecode(buf, i=0):
    """Independent bencode decoder; every string stays bytes."""
    c = buf[i:i + 1]
    if c == b"i":
        j = buf.index(b"e", i)
        return int(buf[i + 1:j]), j + 1
    if c == b"l":
        i += 1
        out = []
        while buf[i:i + 1] != b"e":
            v, i = bdecode(buf, i)
            out.append(v)
        return out, i + 1
    if c == b"d":
        i += 1
        out = {}
        while buf[i:i + 1] != b"e":
            k, i = bdecode(buf, i)
            out[k], i = bdecode(buf, i)
        return out, i + 1
    j = buf.index(b":", i)
    n = int(buf[i:j])
    return buf[j + 1:j + 1 + n], j + 1 + n


def oracle_wellformed_and_intact(metafile, root):
    """BEP 3 + BEP 47: real entries from disk, attr 'p' entries are zeros."""
    with open(metafile, "rb") as fd:
        info = bdecode(fd.read())[0][b"info"]
    blob = b""
    listing = []
    for entry in info[b"files"]:
        listing.append((b"/".join(entry[b"path"]).decode(),
                        entry[b"length"], entry.get(b"attr", b"").decode()))
        if b"p" in entry.get(b"attr", b""):
            blob += bytes(entry[b"length"])
            continue
        path = os.path.join(os.fsencode(root), *entry[b"path"])
        with open(path, "rb") as fd:
            data = fd.read()
        assert len(data) == entry[b"length"]
        blob += data
    plen = info[b"piece length"]
    pieces = b"".join(hashlib.sha1(blob[i:i + plen]).digest()
                      for i in range(0, len(blob), plen))
    return pieces == info[b"pieces"], listing


def main():
    tmp = tempfile.mkdtemp(prefix="c05f3-")
    try:
        root = os.path.join(tmp, "payload")
        os.makedirs(os.path.join(root, ".pad"))
        with open(os.path.join(root, ".pad", "5"), "wb") as fd:
            fd.write(b"hello")
        with open(os.path.join(root, "a"), "wb") as fd:
            fd.write(b"a" * (PIECE_LENGTH - 5))
        mf = os.path.join(tmp, "payload.torrent")
        with contextlib.redirect_stdout(io.StringIO()):
            TorrentFile(path=root, piece_length=PIECE_LENGTH, outfile=mf,
                        align=True).write()
        good, listing = oracle_wellformed_and_intact(mf, root)
        print("file entries written by the v1 creator (path, length, attr):")
        for item in listing:
            print("   ", item)
        print("oracle (hashlib, padding = zeros): metafile matches payload:",
              good)
        assert good, "oracle disagrees with the metafile - not this finding"
        results = {}
        for where, path in (("root", root), ("parent", tmp)):
            try:
                with contextlib.redirect_stdout(io.StringIO()):
                    results[where] = Checker(mf, path).results()
            except Exception as exc:
                results[where] = f"raised {exc!r}"
            print(f"content={where:6s} expected 100  got {results[where]}")
    finally:
        shutil.rmtree(tmp, ignore_errors=True)

    if any(val != 100 for val in results.values()):
        print("PROPERTY C05 VIOLATED")
        return 1
    print("property holds")
    return 0


if __name__ == "__main__":
    sys.exit(main())
