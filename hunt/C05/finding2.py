#!/usr/bin/env python3
"""
C05 finding 2 - Checker.find_root decides by the last *lexical* component of
the content path as typed, never by what is on disk.

 (a) content path = parent directory, and the parent happens to carry the same
     name as the payload (downloads/foo/foo/...):  the parent itself is taken
     for the payload root -> directory torrents report 0.0 %, single file
     torrents raise IsADirectoryError.
 (b) content path = the payload root spelled "." (cwd is the payload root):
     Path(".").name == "" -> FileNotFoundError.

Both are "content path = root or parent" for an intact payload.

Exit 1 = property violated, exit 0 = property holds.
"""
import contextlib
import hashlib
import io
import os
import shutil
import sys
import tempfile

from torrentfile.recheck import Checker
from torrentfile.torrent import TorrentFile

PIECE_LENGTH = 16384


def bdecode(buf, i=0):
    """Independent bencode decoder; every string stays bytes."""
    c = buf[i:i + 1]
    if c == b"i":
        j = buf.index(b"e", i)
        return int(buf[i + 1:j]), j + 1
    if c == b"l":
        i += 1
        out = []
        while buf[i:i + 1] != b"e":
            v, i = bdecode(buf, i)
            out.append(v)
        return out, i + 1
    if c == b"d":
        i += 1
        out = {}
        while buf[i:i + 1] != b"e":
            k, i = bdecode(buf, i)
            out[k], i = bdecode(buf, i)
        return out, i + 1
    j = buf.index(b":", i)
    n = int(buf[i:j])
    return buf[j + 1:j + 1 + n], j + 1 + n


def oracle_v1_intact(metafile, root):
    """hashlib check that the payload under `root` matches the v1 metafile."""
    with open(metafile, "rb") as fd:
        info = bdecode(fd.read())[0][b"info"]
    blob = b""
    if b"files" in info:
        for entry in info[b"files"]:
            path = os.path.join(os.fsencode(root), *entry[b"path"])
            with open(path, "rb") as fd:
                data = fd.read()
            assert len(data) == entry[b"length"]
            blob += data
    else:
        with open(root, "rb") as fd:
            blob = fd.read()
        assert len(blob) == info[b"length"]
    plen = info[b"piece length"]
    pieces = b"".join(hashlib.sha1(blob[i:i + plen]).digest()
                      for i in range(0, len(blob), plen))
    return pieces == info[b"pieces"] and len(blob) > 0


def recheck(metafile, content):
    try:
        with contextlib.redirect_stdout(io.StringIO()):
            return Checker(metafile, content).results()
    except Exception as exc:  # a raise is a violation as well
        return f"raised {exc!r}"


def create(path, out):
    with contextlib.redirect_stdout(io.StringIO()):
        TorrentFile(path=path, piece_length=PIECE_LENGTH, outfile=out).write()


def main():
    tmp = tempfile.mkdtemp(prefix="c05f2-")
    cwd = os.getcwd()
    failures = []

    def report(label, got):
        ok = got == 100
        print(f"{label:55s} expected 100  got {got}  "
              f"{'ok' if ok else 'VIOLATION'}")
        if not ok:
            failures.append(label)

    try:
        # (a) directory payload  <tmp>/foo/foo/{a}
        parent = os.path.join(tmp, "foo")
        root = os.path.join(parent, "foo")
        os.makedirs(root)
        with open(os.path.join(root, "a"), "wb") as fd:
            fd.write(b"x")
        mf_dir = os.path.join(tmp, "dir.torrent")
        create(root, mf_dir)
        assert oracle_v1_intact(mf_dir, root), "oracle: payload not intact"
        report("dir  torrent 'foo', content = foo/foo  (root)",
               recheck(mf_dir, root))
        report("dir  torrent 'foo', content = foo      (parent)",
               recheck(mf_dir, parent))

        #     single file payload  <tmp>/bar/bar
        fparent = os.path.join(tmp, "bar")
        os.mkdir(fparent)
        fpath = os.path.join(fparent, "bar")
        with open(fpath, "wb") as fd:
            fd.write(b"y")
        mf_file = os.path.join(tmp, "file.torrent")
        create(fpath, mf_file)
        assert oracle_v1_intact(mf_file, fpath), "oracle: payload not intact"
        report("file torrent 'bar', content = bar/bar  (root)",
               recheck(mf_file, fpath))
        report("file torrent 'bar', content = bar      (parent)",
               recheck(mf_file, fparent))

        # (b) the payload root spelled "."
        os.chdir(root)
        report("dir  torrent 'foo', cwd = foo/foo, content = '.'  (root)",
               recheck(mf_dir, "."))
        os.chdir(parent)
        report("dir  torrent 'foo', cwd = foo, content = '.'  (parent)",
               recheck(mf_dir, "."))
    finally:
        os.chdir(cwd)
        shutil.rmtree(tmp, ignore_errors=True)

    if failures:
        print("PROPERTY C05 VIOLATED")
        return 1
    print("property holds")
    return 0


if __name__ == "__main__":
    sys.exit(main())
