#!/usr/bin/env python
"""
C18 finding 3: `rename` moves the metafile into another directory when the
`name` stored in the metafile contains a path separator (or is absolute).

Property: "rename changes only the metafile's file name, never its bytes".

commands.rename builds the new path as
    os.path.join(os.path.dirname(target), name + ".torrent")
with `name` taken verbatim from the (untrusted, possibly foreign) metafile.
A name such as "../other/x", "sub/x" or "/abs/dir/x" therefore does not
rename the file inside its directory, it relocates it: the metafile's own
directory loses the entry and a different directory gains one.

Oracle: name-for-name listings of every directory in the sandbox, before
and after; sha256 of the metafile.  Exit 1 on violation, 0 otherwise.
"""
import hashlib
import os
import shutil
import subprocess
import sys
import tempfile


def benc(obj):
    """Independent minimal bencoder."""
    if isinstance(obj, int):
        return b"i%de" % obj
    if isinstance(obj, str):
        obj = obj.encode("utf-8")
    if isinstance(obj, bytes):
        return b"%d:%s" % (len(obj), obj)
    if isinstance(obj, list):
        return b"l" + b"".join(benc(i) for i in obj) + b"e"
    if isinstance(obj, dict):
        items = sorted((k.encode() if isinstance(k, str) else k, v)
                       for k, v in obj.items())
        return b"d" + b"".join(benc(k) + benc(v) for k, v in items) + b"e"
    raise TypeError(obj)


def listing(root):
    out = {}
    for dirpath, dirnames, filenames in os.walk(root):
        out[os.path.relpath(dirpath, root)] = sorted(dirnames + filenames)
    return out


def scenario(title, make_name, problems):
    top = tempfile.mkdtemp(prefix="c18-f3-")
    try:
        os.makedirs(os.path.join(top, "torrents", "sub"))
        os.mkdir(os.path.join(top, "other"))
        name = make_name(top)
        payload = b"hello"
        meta = benc({
            "info": {
                "name": name,
                "length": len(payload),
                "piece length": 16384,
                "pieces": hashlib.sha1(payload).digest(),
            },
        })
        target = os.path.join(top, "torrents", "download.torrent")
        with open(target, "wb") as fd:
            fd.write(meta)
        digest = hashlib.sha256(meta).hexdigest()

        before = listing(top)
        proc = subprocess.run(
            [sys.executable, "-m", "torrentfile", "rename", target],
            cwd=top, capture_output=True, text=True)
        after = listing(top)

        shown = name.replace(top, "<sandbox>")
        print(f"--- {title}: info.name = {shown!r}   rc={proc.returncode}")
        print(f"    before : {before}")
        print(f"    after  : {after}")

        # where is the metafile now?
        found = []
        for dirpath, _, filenames in os.walk(top):
            for fname in filenames:
                with open(os.path.join(dirpath, fname), "rb") as fd:
                    if hashlib.sha256(fd.read()).hexdigest() == digest:
                        found.append(os.path.relpath(
                            os.path.join(dirpath, fname), top))
        foreign = {d: after[d] for d in after
                   if d != "torrents" and after[d] != before.get(d)}
        if found != [] and os.path.dirname(found[0]) != "torrents":
            problems.append(
                f"{title}: metafile torrents/download.torrent ended up at "
                f"{found[0]!r}: it left its directory; directories other "
                f"than its own changed: {foreign}")
        elif foreign:
            problems.append(f"{title}: other directories changed: {foreign}")
    finally:
        shutil.rmtree(top)


def main():
    problems = []
    scenario("parent traversal", lambda top: "../other/moved", problems)
    scenario("sub directory", lambda top: "sub/inner", problems)
    scenario("absolute name",
             lambda top: os.path.join(top, "other", "abs"), problems)
    print()
    if problems:
        print("EXPECTED: the metafile stays in torrents/ (renamed there, or "
              "the rename is refused); no other directory changes")
        print("OBSERVED:")
        for line in problems:
            print("  *", line)
        return 1
    print("property holds: only the file name changed")
    return 0


if __name__ == "__main__":
    sys.exit(main())
