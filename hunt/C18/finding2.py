#!/usr/bin/env python
"""
C18 finding 2: `rename` silently replaces an existing directory entry when
that entry is a symbolic link whose target does not (currently) resolve.

Property: "rename changes only the metafile's file name, never its bytes,
and refuses to replace an existing file".

commands.rename guards the os.rename() with os.path.exists(new_path).
os.path.exists follows symlinks, so for a dangling link (or a link loop) it
answers False although `<name>.torrent` is present in the directory; the
following os.rename() then atomically replaces that entry.

Oracle: lstat/readlink/sha256 snapshot of the directory before and after.
Exit 1 when the property is violated, 0 otherwise.
"""
import hashlib
import os
import shutil
import subprocess
import sys
import tempfile


def benc(obj):
    """Independent minimal bencoder."""
    if isinstance(obj, int):
        return b"i%de" % obj
    if isinstance(obj, str):
        obj = obj.encode("utf-8")
    if isinstance(obj, bytes):
        return b"%d:%s" % (len(obj), obj)
    if isinstance(obj, list):
        return b"l" + b"".join(benc(i) for i in obj) + b"e"
    if isinstance(obj, dict):
        items = sorted((k.encode() if isinstance(k, str) else k, v)
                       for k, v in obj.items())
        return b"d" + b"".join(benc(k) + benc(v) for k, v in items) + b"e"
    raise TypeError(obj)


def snapshot(root):
    snap = {}
    for name in os.listdir(root):
        full = os.path.join(root, name)
        if os.path.islink(full):
            snap[name] = ("link", os.readlink(full))
        elif os.path.isdir(full):
            snap[name] = ("dir",)
        else:
            with open(full, "rb") as fd:
                snap[name] = ("file", hashlib.sha256(fd.read()).hexdigest())
    return snap


def scenario(title, link_target, problems):
    top = tempfile.mkdtemp(prefix="c18-f2-")
    try:
        payload = b"hello"
        meta = benc({
            "announce": "http://tracker.invalid/announce",
            "info": {
                "name": "movie",
                "length": len(payload),
                "piece length": 16384,
                "pieces": hashlib.sha1(payload).digest(),
            },
        })
        with open(os.path.join(top, "download.torrent"), "wb") as fd:
            fd.write(meta)
        # an entry called movie.torrent is already there: a symlink whose
        # target is not available right now (unmounted disk, removed file...)
        os.symlink(link_target, os.path.join(top, "movie.torrent"))

        before = snapshot(top)
        proc = subprocess.run(
            [sys.executable, "-m", "torrentfile", "rename",
             os.path.join(top, "download.torrent")],
            cwd=top, capture_output=True, text=True)
        after = snapshot(top)

        print(f"--- {title}")
        print(f"    rc     : {proc.returncode}")
        print(f"    before : {sorted(before.items())}")
        print(f"    after  : {sorted(after.items())}")
        if after.get("movie.torrent") != before["movie.torrent"]:
            problems.append(
                f"{title}: the existing entry movie.torrent "
                f"{before['movie.torrent']} was replaced by "
                f"{after.get('movie.torrent')}; rename reported "
                f"{'success' if proc.returncode == 0 else 'failure'}")
    finally:
        shutil.rmtree(top)


def main():
    problems = []
    scenario("dangling symlink", "/mnt/not-mounted/movie.torrent", problems)
    scenario("self-referencing symlink", "movie.torrent", problems)
    print()
    if problems:
        print("EXPECTED: rename refuses (FileExistsError) because "
              "movie.torrent already exists in the directory; the entry "
              "stays as it was")
        print("OBSERVED:")
        for line in problems:
            print("  *", line)
        return 1
    print("property holds: rename refused to replace the existing entry")
    return 0


if __name__ == "__main__":
    sys.exit(main())
