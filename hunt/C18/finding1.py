#!/usr/bin/env python
"""
C18 finding 1: `create -o OUT` where OUT is a dangling symlink.

Property: "create reads the payload without modifying it and writes exactly
one file, the output metafile".

Observed: the writability probe (utils.check_path_writable) opens OUT in
append mode - which CREATES THE SYMLINK'S TARGET - and then, because
os.path.exists(OUT) had said "not there", removes OUT, i.e. the symlink.
Afterwards the metafile is written as a fresh regular file at OUT.  Net
effect: two files come into existence and one directory entry (the link) is
destroyed.  When the link points into the payload directory, the payload
itself gains a file and that phantom file is listed in the metafile.

Oracle: lstat/readlink/sha256 snapshots of the whole sandbox before/after.
Exit 1 when the property is violated, 0 otherwise.
"""
import hashlib
import os
import shutil
import subprocess
import sys
import tempfile


def snapshot(root):
    """Map relative name -> ('dir',) | ('link', target) | ('file', sha256)."""
    snap = {}
    for dirpath, dirnames, filenames in os.walk(root):
        for name in dirnames + filenames:
            full = os.path.join(dirpath, name)
            rel = os.path.relpath(full, root)
            if os.path.islink(full):
                snap[rel] = ("link", os.readlink(full))
            elif os.path.isdir(full):
                snap[rel] = ("dir",)
            else:
                with open(full, "rb") as fd:
                    snap[rel] = ("file", hashlib.sha256(fd.read()).hexdigest())
    return snap


def torrentfile(cwd, *argv):
    return subprocess.run([sys.executable, "-m", "torrentfile", *argv],
                          cwd=cwd, capture_output=True, text=True)


def scenario(title, link_target, argv, problems):
    top = tempfile.mkdtemp(prefix="c18-f1-")
    try:
        os.mkdir(os.path.join(top, "payload"))
        with open(os.path.join(top, "payload", "a.bin"), "wb") as fd:
            fd.write(b"hello")
        os.mkdir(os.path.join(top, "elsewhere"))
        os.symlink(link_target, os.path.join(top, "out.torrent"))

        before = snapshot(top)
        proc = torrentfile(top, *argv)
        after = snapshot(top)

        created = sorted(k for k in after if k not in before)
        deleted = sorted(k for k in before if k not in after)
        changed = sorted(k for k in before
                         if k in after and before[k] != after[k])
        payload_before = {k: v for k, v in before.items()
                          if k.startswith("payload")}
        payload_after = {k: v for k, v in after.items()
                         if k.startswith("payload")}
        # every regular file that exists now and was not that same file before
        written = sorted(k for k in after if after[k][0] == "file"
                         and before.get(k) != after[k])

        print(f"--- {title}")
        print(f"    command : torrentfile {' '.join(argv)}   (rc={proc.returncode})")
        print(f"    before  : out.torrent -> {link_target} (dangling symlink)")
        print(f"    created : {created}")
        print(f"    deleted : {deleted}")
        print(f"    changed : {[(k, before[k][0], after[k][0]) for k in changed]}")
        print(f"    files written: {written}")
        if len(written) > 1:
            problems.append(
                f"{title}: expected exactly one file written, got "
                f"{len(written)}: {written}")
        if payload_before != payload_after:
            extra = sorted(set(payload_after) - set(payload_before))
            problems.append(
                f"{title}: expected the payload directory unchanged, but it "
                f"gained {extra}")
        if proc.returncode != 0 and (created or deleted or changed):
            problems.append(
                f"{title}: create failed (rc={proc.returncode}) and still "
                f"changed the file system: created={created} "
                f"deleted={deleted}")
    finally:
        shutil.rmtree(top)


def main():
    problems = []
    scenario("A: link points to a not yet existing file in another directory",
             os.path.join("elsewhere", "real.torrent"),
             ["-q", "create", "-o", "out.torrent", "payload"], problems)
    scenario("B: link points into the payload directory",
             os.path.join("payload", "ghost.bin"),
             ["-q", "create", "-o", "out.torrent", "payload"], problems)
    scenario("C: create that fails (content path does not exist)",
             os.path.join("elsewhere", "real.torrent"),
             ["-q", "create", "-o", "out.torrent", "no-such-content"],
             problems)
    print()
    if problems:
        print("EXPECTED: create writes exactly one file (the output "
              "metafile) and leaves the payload untouched")
        print("OBSERVED:")
        for line in problems:
            print("  *", line)
        return 1
    print("property holds: one file written, payload untouched")
    return 0


if __name__ == "__main__":
    sys.exit(main())
