#!/usr/bin/env python
"""
NOT a C04 finding (appending data is outside C04's damage set
{flip, truncate, remove}).  Adjacent defect, shown for the maintainers:

v2/hybrid recheck reports 100% when a file whose described length is an
exact multiple of the piece length (> 1 piece) has extra bytes appended.
Exits 1 if the behaviour is present, 0 otherwise.
"""
import contextlib, hashlib, io, os, shutil, sys, tempfile

from torrentfile.recheck import Checker

BS = 16384


def benc(o):
    if isinstance(o, int):
        return b"i%de" % o
    if isinstance(o, str):
        o = o.encode()
    if isinstance(o, (bytes, bytearray)):
        return b"%d:%s" % (len(o), bytes(o))
    if isinstance(o, list):
        return b"l" + b"".join(benc(x) for x in o) + b"e"
    items = sorted((k.encode() if isinstance(k, str) else k, v) for k, v in o.items())
    return b"d" + b"".join(benc(k) + benc(v) for k, v in items) + b"e"


def h(b):
    return hashlib.sha256(b).digest()


tmp = tempfile.mkdtemp(prefix="c04-obs1-")
try:
    data = bytes(range(256)) * 128  # 2 * 16 KiB, piece length 16 KiB -> 2 pieces
    layer = h(data[:BS]) + h(data[BS:])
    root = h(layer)
    info = {"name": "name", "piece length": BS, "meta version": 2,
            "file tree": {"f": {"": {"length": len(data), "pieces root": root}},
                          "g": {"": {"length": 5, "pieces root": h(b"hello")}}}}
    os.mkdir(os.path.join(tmp, "name"))
    with open(os.path.join(tmp, "name", "f"), "wb") as fd:
        fd.write(data + b"appended")          # <- the deviation from the payload
    with open(os.path.join(tmp, "name", "g"), "wb") as fd:
        fd.write(b"hello")
    meta = os.path.join(tmp, "m.torrent")
    with open(meta, "wb") as fd:
        fd.write(benc({"info": info, "piece layers": {root: layer}}))
    with contextlib.redirect_stdout(io.StringIO()):
        result = Checker(meta, tmp).results()
    print("on-disk f is %d bytes, metafile describes %d" % (len(data) + 8, len(data)))
    print("recheck result:", result)
    sys.exit(1 if result >= 100 else 0)
finally:
    shutil.rmtree(tmp)
