#!/usr/bin/env python
"""
Borderline, NOT claimed as a C04 finding: for a single-file torrent the only
possible "remove a file" damage removes the torrent's root, and Checker raises
FileNotFoundError instead of reporting a percentage below 100.  Upstream's own
tests treat "content not found" -> FileNotFoundError as intended behaviour.
Exits 1 if an exception is raised instead of a report < 100, 0 otherwise.
"""
import contextlib, hashlib, io, os, shutil, sys, tempfile

from torrentfile.recheck import Checker

tmp = tempfile.mkdtemp(prefix="c04-obs2-")
try:
    data = b"abc"
    info = (b"d6:lengthi3e4:name4:name12:piece lengthi16384e6:pieces20:"
            + hashlib.sha1(data).digest() + b"e")
    meta = os.path.join(tmp, "m.torrent")
    with open(meta, "wb") as fd:
        fd.write(b"d4:info" + info + b"e")
    with open(os.path.join(tmp, "name"), "wb") as fd:
        fd.write(data)
    with contextlib.redirect_stdout(io.StringIO()):
        print("intact:", Checker(meta, tmp).results(), file=sys.stderr)
    os.remove(os.path.join(tmp, "name"))
    try:
        with contextlib.redirect_stdout(io.StringIO()):
            result = Checker(meta, tmp).results()
    except Exception as err:  # pylint: disable=broad-except
        print("expected: a report < 100; got exception %s(%s)" % (type(err).__name__, err))
        sys.exit(1)
    print("result:", result)
    sys.exit(0 if result < 100 else 1)
finally:
    shutil.rmtree(tmp)
