#!/usr/bin/env python3
"""C01 finding 3 (environment interaction): with the DEFAULT options the v1
hasher draws a progress bar made of U+2588 / U+2591 on sys.stdout for every
read.  When stdout cannot take those characters, create aborts and no
metafile is produced -- for every content tree.

Shown for three environments, all with a 1-file tree (root/a = b"hello"):
  (a) stdout encoding ASCII      (PYTHONIOENCODING=ascii; same as a POSIX
      locale with PYTHONUTF8=0, a latin-1 locale, or a Windows pipe/cp1252)
  (b) stdout closed              (`torrentfile create ... >&-`, daemons,
      pythonw: sys.stdout is None)
  (c) library call TorrentFile(path=...) with default progress and an ASCII
      sys.stdout

Expected each time: exit status 0 and a metafile with
  files=[{length:5,path:['a']}], pieces=sha1('hello').
Exit 1 when the property is violated, 0 otherwise.
"""
import hashlib
import os
import shutil
import subprocess
import sys
import tempfile

PIECE = 16384


def bdecode(data, i=0):
    c = data[i:i + 1]
    if c == b"i":
        j = data.index(b"e", i)
        return int(data[i + 1:j]), j + 1
    if c in (b"l", b"d"):
        i += 1
        items = []
        while data[i:i + 1] != b"e":
            v, i = bdecode(data, i)
            items.append(v)
        if c == b"l":
            return items, i + 1
        return dict(zip(items[::2], items[1::2])), i + 1
    j = data.index(b":", i)
    n = int(data[i:j])
    return data[j + 1:j + 1 + n], j + 1 + n


def verify(torrent, label):
    if not os.path.exists(torrent):
        print(f"  [{label}] no metafile was written")
        return False
    meta, _ = bdecode(open(torrent, "rb").read())
    info = meta[b"info"]
    ok = (info.get(b"files") == [{b"length": 5, b"path": [b"a"]}]
          and info.get(b"piece length") == PIECE
          and info.get(b"pieces") == hashlib.sha1(b"hello").digest())
    print(f"  [{label}] metafile written, matches oracle: {ok}")
    return ok


LIB = ("import sys\n"
       "from torrentfile.torrent import TorrentFile\n"
       "TorrentFile(path=sys.argv[1], outfile=sys.argv[2], "
       "piece_length=16384).write()\n")


def main():
    tmp = tempfile.mkdtemp(prefix="c01f3-")
    violated = False
    try:
        root = os.path.join(tmp, "root")
        os.mkdir(root)
        with open(os.path.join(root, "a"), "wb") as fd:
            fd.write(b"hello")
        print("tree: root/a (5 bytes); default options (progress bar on)")
        print("expected: exit 0, files=[{length:5,path:['a']}], "
              "pieces=sha1('hello')")
        base = [sys.executable, "-m", "torrentfile", "create",
                "--piece-length", str(PIECE)]
        cases = [
            ("control: utf-8 stdout", dict(PYTHONIOENCODING="utf-8"),
             base + ["-o", os.path.join(tmp, "0.torrent"), root], None),
            ("a: ascii stdout", dict(PYTHONIOENCODING="ascii"),
             base + ["-o", os.path.join(tmp, "a.torrent"), root], None),
            ("b: closed stdout", dict(PYTHONIOENCODING="utf-8"),
             base + ["-o", os.path.join(tmp, "b.torrent"), root], "close"),
            ("c: library, ascii stdout", dict(PYTHONIOENCODING="ascii"),
             [sys.executable, "-c", LIB, root,
              os.path.join(tmp, "c.torrent")], None),
        ]
        for label, extra, cmd, mode in cases:
            env = os.environ.copy()
            env.update(extra)
            out = [c for c in cmd if c.endswith(".torrent")][0]
            if mode == "close":
                shell = " ".join("'%s'" % c for c in cmd) + " >&-"
                proc = subprocess.run(shell, shell=True, env=env,
                                      stderr=subprocess.PIPE, check=False)
            else:
                proc = subprocess.run(cmd, env=env, capture_output=True,
                                      check=False)
            tail = proc.stderr.decode(errors="replace").strip().splitlines()
            print(f"  [{label}] exit status {proc.returncode} {tail[-1:]}")
            good = proc.returncode == 0 and verify(out, label)
            if not good:
                if not os.path.exists(out):
                    print(f"  [{label}] no metafile was written")
                if label.startswith("control"):
                    print("  control failed - environment problem")
                violated = True
    finally:
        shutil.rmtree(tmp)
    if violated:
        print("VIOLATION: default-option create aborts when stdout cannot "
              "show the progress bar; no metafile is produced")
        return 1
    print("ok: metafile produced in all environments")
    return 0


if __name__ == "__main__":
    sys.exit(main())
