#!/usr/bin/env python3
"""C01 finding 1: a deeply nested (but perfectly addressable) content tree
cannot be turned into a v1 metafile: utils._filelist_total recurses two Python
frames per directory level and dies with RecursionError at ~495 levels.

Tree: root/d/d/.../d/f  (DEPTH directories named "d", one 5-byte file "f").
The longest path is ~1.3 kB, far below PATH_MAX (4096), every component is 1
byte, so the tree is an ordinary member of "any number, nesting, naming".

Expected: a metafile whose info.files == [{length: 5, path: ["d"]*DEPTH+["f"]}]
          and info.pieces == sha1(b"hello").
Exit 1 when the property is violated, 0 otherwise.
"""
import hashlib
import os
import subprocess
import sys
import tempfile

DEPTH = 600          # smallest failing depth measured: 495 (library), see notes
PIECE = 16384


def bdecode(data, i=0):
    c = data[i:i + 1]
    if c == b"i":
        j = data.index(b"e", i)
        return int(data[i + 1:j]), j + 1
    if c in (b"l", b"d"):
        i += 1
        items = []
        while data[i:i + 1] != b"e":
            v, i = bdecode(data, i)
            items.append(v)
        if c == b"l":
            return items, i + 1
        return dict(zip(items[::2], items[1::2])), i + 1
    j = data.index(b":", i)
    n = int(data[i:j])
    return data[j + 1:j + 1 + n], j + 1 + n


def rm_tree_iterative(top):
    """shutil.rmtree is itself recursive on some Pythons; do it by hand."""
    stack, order = [top], []
    while stack:
        cur = stack.pop()
        order.append(cur)
        with os.scandir(cur) as it:
            for ent in it:
                if ent.is_dir(follow_symlinks=False):
                    stack.append(ent.path)
                else:
                    os.remove(ent.path)
    for cur in reversed(order):
        os.rmdir(cur)


def verify(torrent, label):
    if not os.path.exists(torrent):
        print(f"  [{label}] no metafile was written")
        return False
    meta, _ = bdecode(open(torrent, "rb").read())
    info = meta[b"info"]
    want_files = [{b"length": 5, b"path": [b"d"] * DEPTH + [b"f"]}]
    ok = (info.get(b"files") == want_files
          and info.get(b"piece length") == PIECE
          and info.get(b"pieces") == hashlib.sha1(b"hello").digest())
    print(f"  [{label}] metafile written, matches oracle: {ok}")
    return ok


def main():
    import torrentfile
    from torrentfile.torrent import TorrentFile
    print("torrentfile from", os.path.dirname(torrentfile.__file__))
    tmp = tempfile.mkdtemp(prefix="c01f1-")
    violated = False
    try:
        root = os.path.join(tmp, "root")
        os.mkdir(root)
        cur = root
        for _ in range(DEPTH):
            cur = os.path.join(cur, "d")
            os.mkdir(cur)
        with open(os.path.join(cur, "f"), "wb") as fd:
            fd.write(b"hello")
        print(f"tree: root/{'d/' * 3}...(x{DEPTH})/f, 5 bytes; longest path "
              f"{len(os.path.join(cur, 'f'))} chars (PATH_MAX 4096)")
        print(f"expected: files=[{{length:5, path:['d']*{DEPTH}+['f']}}], "
              "pieces=sha1('hello'), piece length 16384")

        # route 1: library
        out1 = os.path.join(tmp, "lib.torrent")
        try:
            TorrentFile(path=root, outfile=out1, piece_length=PIECE,
                        progress=0).write()
            if not verify(out1, "library"):
                violated = True
        except RecursionError as err:
            print(f"  [library] RecursionError: {err}")
            violated = True

        # route 2: CLI in a fresh interpreter
        out2 = os.path.join(tmp, "cli.torrent")
        proc = subprocess.run(
            [sys.executable, "-m", "torrentfile", "create", "--prog", "0", "-o", out2,
             "--piece-length", str(PIECE), root],
            capture_output=True, env=os.environ.copy(), check=False)
        tail = proc.stderr.decode(errors="replace").strip().splitlines()[-1:]
        print(f"  [cli] exit status {proc.returncode} {tail}")
        if proc.returncode != 0 or not verify(out2, "cli"):
            violated = True
    finally:
        rm_tree_iterative(tmp)
    if violated:
        print("VIOLATION: no correct v1 metafile for a valid, deeply nested "
              "content tree")
        return 1
    print("ok: property holds for this tree")
    return 0


if __name__ == "__main__":
    sys.exit(main())
