#!/usr/bin/env python3
"""C01 finding 2: a content tree that contains one regular file whose name is
not valid UTF-8 (legal on every POSIX file system) cannot be turned into a v1
metafile.  The file list is built from `str` path components that carry
surrogate escapes (os.fsdecode); pyben then does txt.encode("utf-8") on them
and create dies with UnicodeEncodeError after all the hashing was done.

Tree: root/<0xFF>.bin  (5 bytes b"hello")

Expected: info.files == [{length: 5, path: [b"\\xff.bin"]}] (the name bytes as
          they are on disk -- a bencoded string is a byte string) and
          info.pieces == sha1(b"hello").
Exit 1 when the property is violated, 0 otherwise (also 0 when the file
system refuses such names and the case cannot be built).
"""
import hashlib
import os
import shutil
import subprocess
import sys
import tempfile

PIECE = 16384
NAME = b"\xff.bin"


def bdecode(data, i=0):
    c = data[i:i + 1]
    if c == b"i":
        j = data.index(b"e", i)
        return int(data[i + 1:j]), j + 1
    if c in (b"l", b"d"):
        i += 1
        items = []
        while data[i:i + 1] != b"e":
            v, i = bdecode(data, i)
            items.append(v)
        if c == b"l":
            return items, i + 1
        return dict(zip(items[::2], items[1::2])), i + 1
    j = data.index(b":", i)
    n = int(data[i:j])
    return data[j + 1:j + 1 + n], j + 1 + n


def verify(torrent, label):
    if not os.path.exists(torrent):
        print(f"  [{label}] no metafile was written")
        return False
    meta, _ = bdecode(open(torrent, "rb").read())
    info = meta[b"info"]
    ok = (info.get(b"files") == [{b"length": 5, b"path": [NAME]}]
          and info.get(b"piece length") == PIECE
          and info.get(b"pieces") == hashlib.sha1(b"hello").digest())
    print(f"  [{label}] metafile written, files={info.get(b'files')!r}, "
          f"matches oracle: {ok}")
    return ok


def main():
    import torrentfile
    from torrentfile.torrent import TorrentFile
    print("torrentfile from", os.path.dirname(torrentfile.__file__))
    tmp = tempfile.mkdtemp(prefix="c01f2-")
    violated = False
    try:
        root = os.path.join(tmp, "root")
        os.mkdir(root)
        try:
            with open(os.path.join(os.fsencode(root), NAME), "wb") as fd:
                fd.write(b"hello")
        except OSError as err:
            print("file system refuses non-UTF-8 names, cannot test:", err)
            return 0
        print(f"tree: root/{NAME!r} (5 bytes); os.listdir -> "
              f"{os.listdir(root)!r}")
        print(f"expected: files=[{{length:5, path:[{NAME!r}]}}], "
              "pieces=sha1('hello')")

        out1 = os.path.join(tmp, "lib.torrent")
        try:
            TorrentFile(path=root, outfile=out1, piece_length=PIECE,
                        progress=0).write()
            if not verify(out1, "library"):
                violated = True
        except UnicodeError as err:
            print(f"  [library] {type(err).__name__}: {err}")
            violated = True

        out2 = os.path.join(tmp, "cli.torrent")
        proc = subprocess.run(
            [sys.executable, "-m", "torrentfile", "create", "--prog", "0",
             "-o", out2, "--piece-length", str(PIECE), root],
            capture_output=True, env=os.environ.copy(), check=False)
        tail = proc.stderr.decode(errors="replace").strip().splitlines()[-1:]
        print(f"  [cli] exit status {proc.returncode} {tail}")
        if proc.returncode != 0 or not verify(out2, "cli"):
            violated = True
    finally:
        shutil.rmtree(tmp)
    if violated:
        print("VIOLATION: no v1 metafile for a tree whose only file has a "
              "non-UTF-8 name")
        return 1
    print("ok: property holds for this tree")
    return 0


if __name__ == "__main__":
    sys.exit(main())
