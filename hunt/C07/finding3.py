#!/usr/bin/env python
"""
C07 finding 3 (lower severity): setting the tracker field to a value that
holds no URL -- a whitespace-only string, or an empty list -- crashes
edit_torrent with an uncaught IndexError, although the same two values are
accepted for the web-seed and HTTP-seed fields (they become an empty list).

The statement quantifies over every field "set to a value (string or list)";
" " is a string and [] is a list.  Whatever one thinks the right outcome is
(tracker removed, like ""; or tracker set to an empty value), the request
must be carried out; instead the whole request -- including other, perfectly
ordinary fields named in it -- is dropped with a traceback.

Run: PYTHONPATH=/tmp/hunt-C07 /venv/bin/python finding3.py
"""
import hashlib
import os
import shutil
import sys
import tempfile


# ---- independent bencode (bytes in, bytes out) -----------------------------
def dec(b, i=0):
    c = b[i:i + 1]
    if c == b"i":
        j = b.index(b"e", i)
        return int(b[i + 1:j]), j + 1
    if c == b"l":
        i += 1
        out = []
        while b[i:i + 1] != b"e":
            v, i = dec(b, i)
            out.append(v)
        return out, i + 1
    if c == b"d":
        i += 1
        out = {}
        while b[i:i + 1] != b"e":
            k, i = dec(b, i)
            v, i = dec(b, i)
            out[k] = v
        return out, i + 1
    j = b.index(b":", i)
    n = int(b[i:j])
    return b[j + 1:j + 1 + n], j + 1 + n


def enc(v):
    if isinstance(v, int):
        return b"i%de" % v
    if isinstance(v, bytes):
        return b"%d:%s" % (len(v), v)
    if isinstance(v, list):
        return b"l" + b"".join(enc(x) for x in v) + b"e"
    return b"d" + b"".join(enc(k) + enc(v[k]) for k in sorted(v)) + b"e"


ORIGINAL = {
    b"announce": b"http://tracker.example/announce",
    b"announce-list": [[b"http://tracker.example/announce"]],
    b"info": {
        b"length": 5,
        b"name": b"hello.txt",
        b"piece length": 16384,
        b"pieces": hashlib.sha1(b"hello").digest(),
    },
}

REQUESTS = [
    {"announce": " "},
    {"announce": []},
    {"announce": "\t", "comment": "also wanted"},
    # for comparison, the sibling list fields take the very same values
    {"url-list": " "},
    {"httpseeds": []},
]


def main():
    from torrentfile.edit import edit_torrent
    bad = 0
    tmp = tempfile.mkdtemp(prefix="c07f3-")
    try:
        path = os.path.join(tmp, "t.torrent")
        for request in REQUESTS:
            with open(path, "wb") as fd:
                fd.write(enc(ORIGINAL))
            shown = repr(request)
            try:
                edit_torrent(path, dict(request))
            except Exception as err:  # pylint: disable=broad-except
                with open(path, "rb") as fd:
                    untouched = fd.read() == enc(ORIGINAL)
                named_tracker = "announce" in request
                print(f"edit_torrent(t, {shown})")
                print("    expected: request carried out (tracker removed or "
                      "set to the empty value; other named fields written)")
                print(f"    VIOLATION: raised {type(err).__name__}: {err}   "
                      f"(file left untouched: {untouched})")
                bad = 1 if named_tracker else bad
                continue
            with open(path, "rb") as fd:
                meta = dec(fd.read())[0]
            top = {k: v for k, v in meta.items() if k != b"info"}
            print(f"edit_torrent(t, {shown})\n    accepted -> {top}")
    finally:
        shutil.rmtree(tmp, ignore_errors=True)
    print("RESULT:", "property violated" if bad else "property holds")
    return bad


if __name__ == "__main__":
    sys.exit(main())
