#!/usr/bin/env python
"""
C07 finding 1: "comment" is written to info["comment"] but cleared from the
top level first, so on a metafile that carries the usual top-level "comment"
key (qBittorrent, Transmission, mktorrent, libtorrent ... all write it there)

    edit(comment="X") ; edit(comment="")

leaves info["comment"] == "X" (last written empty => must be gone) and
deletes the top-level "comment" that the first edit did not treat as the field.

Run: PYTHONPATH=/tmp/hunt-C07 /venv/bin/python finding1.py
"""
import hashlib
import os
import shutil
import subprocess
import sys
import tempfile


# ---- independent bencode (bytes in, bytes out) -----------------------------
def dec(b, i=0):
    c = b[i:i + 1]
    if c == b"i":
        j = b.index(b"e", i)
        return int(b[i + 1:j]), j + 1
    if c == b"l":
        i += 1
        out = []
        while b[i:i + 1] != b"e":
            v, i = dec(b, i)
            out.append(v)
        return out, i + 1
    if c == b"d":
        i += 1
        out = {}
        while b[i:i + 1] != b"e":
            k, i = dec(b, i)
            v, i = dec(b, i)
            out[k] = v
        return out, i + 1
    j = b.index(b":", i)
    n = int(b[i:j])
    return b[j + 1:j + 1 + n], j + 1 + n


def enc(v):
    if isinstance(v, int):
        return b"i%de" % v
    if isinstance(v, bytes):
        return b"%d:%s" % (len(v), v)
    if isinstance(v, list):
        return b"l" + b"".join(enc(x) for x in v) + b"e"
    return b"d" + b"".join(enc(k) + enc(v[k]) for k in sorted(v)) + b"e"


def load(path):
    with open(path, "rb") as fd:
        return dec(fd.read())[0]


ORIGINAL = {
    b"announce": b"http://tracker.example/announce",
    b"comment": b"made by another client",     # top level, as most clients do
    b"created by": b"qBittorrent v4.6.0",
    b"info": {
        b"length": 5,
        b"name": b"hello.txt",
        b"piece length": 16384,
        b"pieces": hashlib.sha1(b"hello").digest(),
    },
}


def via_library(path, value):
    from torrentfile.edit import edit_torrent
    edit_torrent(path, {"comment": value})


def via_cli(path, value):
    subprocess.run(
        [sys.executable, "-m", "torrentfile", "edit", path, "--comment", value],
        check=True, stdout=subprocess.DEVNULL, stderr=subprocess.DEVNULL,
        env=dict(os.environ))


def main():
    bad = 0
    tmp = tempfile.mkdtemp(prefix="c07f1-")
    try:
        for route, edit in (("library", via_library), ("cli", via_cli)):
            path = os.path.join(tmp, route + ".torrent")
            with open(path, "wb") as fd:
                fd.write(enc(ORIGINAL))
            edit(path, "X")       # request 1: comment := "X"
            edit(path, "")        # request 2: comment cleared
            meta = load(path)
            info_comment = meta[b"info"].get(b"comment")
            top_comment = meta.get(b"comment")
            print(f"[{route}] after comment='X' then comment='':")
            print(f"    info['comment'] = {info_comment!r}   top-level "
                  f"'comment' = {top_comment!r}")
            # The first request put "X" into info["comment"], so that is the
            # field the tool edits; last written empty => it must be absent.
            if info_comment is not None:
                bad = 1
                print("    VIOLATION: expected the comment the tool wrote "
                      "(info['comment']) to be removed by the clearing edit; "
                      "it is still b'X' (and the info-hash stays changed).")
            if top_comment != ORIGINAL[b"comment"]:
                print("    ...and the top-level 'comment', which the setting "
                      "edit did not regard as the field, was deleted instead.")
            rest_same = all(
                meta.get(k) == v for k, v in ORIGINAL.items()
                if k not in (b"comment", b"info")) and all(
                meta[b"info"].get(k) == v
                for k, v in ORIGINAL[b"info"].items())
            print(f"    all other fields unchanged: {rest_same}")

        # single-request variant: a metafile that has both keys
        from torrentfile.edit import edit_torrent
        both = dict(ORIGINAL)
        both[b"info"] = dict(ORIGINAL[b"info"])
        both[b"info"][b"comment"] = b"inner"
        path = os.path.join(tmp, "both.torrent")
        with open(path, "wb") as fd:
            fd.write(enc(both))
        edit_torrent(path, {"comment": ""})
        meta = load(path)
        print("[library] single request comment='' on a metafile with both "
              "keys:")
        print(f"    info['comment'] = {meta[b'info'].get(b'comment')!r}   "
              f"top-level 'comment' = {meta.get(b'comment')!r}")
        if meta[b"info"].get(b"comment") is not None:
            bad = 1
            print("    VIOLATION: info['comment'] (the key every setting edit "
                  "writes) survives a clearing edit.")
    finally:
        shutil.rmtree(tmp, ignore_errors=True)
    print("RESULT:", "property violated" if bad else "property holds")
    return bad


if __name__ == "__main__":
    sys.exit(main())
