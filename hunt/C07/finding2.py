#!/usr/bin/env python
"""
C07 finding 2: through the command line a list-valued field cannot be cleared.

`--tracker`, `--web-seed` and `--http-seed` are declared nargs="+", so
`--tracker ""` reaches edit_torrent as [""] (a list), which filter_empty()
does not recognise as "empty" (it tests `val == ""`).  The edit then WRITES
announce = "" / announce-list = [[""]] / url-list = [""] / httpseeds = [""]
instead of removing the keys.  The same request through the library
({"announce": ""}) removes them, and the scalar CLI options
(`--comment ""`, `--source ""`) remove theirs.

Run: PYTHONPATH=/tmp/hunt-C07 /venv/bin/python finding2.py
"""
import hashlib
import os
import shutil
import subprocess
import sys
import tempfile


# ---- independent bencode (bytes in, bytes out) -----------------------------
def dec(b, i=0):
    c = b[i:i + 1]
    if c == b"i":
        j = b.index(b"e", i)
        return int(b[i + 1:j]), j + 1
    if c == b"l":
        i += 1
        out = []
        while b[i:i + 1] != b"e":
            v, i = dec(b, i)
            out.append(v)
        return out, i + 1
    if c == b"d":
        i += 1
        out = {}
        while b[i:i + 1] != b"e":
            k, i = dec(b, i)
            v, i = dec(b, i)
            out[k] = v
        return out, i + 1
    j = b.index(b":", i)
    n = int(b[i:j])
    return b[j + 1:j + 1 + n], j + 1 + n


def enc(v):
    if isinstance(v, int):
        return b"i%de" % v
    if isinstance(v, bytes):
        return b"%d:%s" % (len(v), v)
    if isinstance(v, list):
        return b"l" + b"".join(enc(x) for x in v) + b"e"
    return b"d" + b"".join(enc(k) + enc(v[k]) for k in sorted(v)) + b"e"


def load(path):
    with open(path, "rb") as fd:
        return dec(fd.read())[0]


ORIGINAL = {
    b"announce": b"http://tracker.example/announce",
    b"announce-list": [[b"http://tracker.example/announce"]],
    b"httpseeds": [b"http://seed.example/h"],
    b"url-list": [b"http://seed.example/w/"],
    b"info": {
        b"length": 5,
        b"name": b"hello.txt",
        b"piece length": 16384,
        b"pieces": hashlib.sha1(b"hello").digest(),
    },
}

CASES = [
    # (cli option, metafile key that must disappear, library arg name)
    ("--tracker", b"announce", "announce"),
    ("--web-seed", b"url-list", "url-list"),
    ("--http-seed", b"httpseeds", "httpseeds"),
]


def main():
    bad = 0
    tmp = tempfile.mkdtemp(prefix="c07f2-")
    try:
        path = os.path.join(tmp, "t.torrent")
        for option, key, libname in CASES:
            with open(path, "wb") as fd:
                fd.write(enc(ORIGINAL))
            proc = subprocess.run(
                [sys.executable, "-m", "torrentfile", "edit", path, option,
                 ""], env=dict(os.environ), capture_output=True)
            meta = load(path)
            print(f"cli: torrentfile edit t.torrent {option} ''   "
                  f"(exit {proc.returncode})")
            print(f"    expected: key {key.decode()!r} removed "
                  "(last written empty)")
            if key in meta:
                bad = 1
                extra = ""
                if key == b"announce":
                    extra = f", announce-list = {meta.get(b'announce-list')!r}"
                print(f"    VIOLATION: {key.decode()!r} still present with "
                      f"value {meta[key]!r}{extra}")
            else:
                print("    ok: removed")
            others = all(meta.get(k) == v for k, v in ORIGINAL.items()
                         if k not in (key, b"announce-list"))
            print(f"    other fields unchanged: {others}")

            # reference: the same request through the library function
            from torrentfile.edit import edit_torrent
            with open(path, "wb") as fd:
                fd.write(enc(ORIGINAL))
            edit_torrent(path, {libname: ""})
            print(f"    (library edit_torrent(..., {{{libname!r}: ''}}) -> "
                  f"key present: {key in load(path)})")
    finally:
        shutil.rmtree(tmp, ignore_errors=True)
    print("RESULT:", "property violated" if bad else "property holds")
    return bad


if __name__ == "__main__":
    sys.exit(main())
