#!/usr/bin/env python
"""C16 finding 2: v2/hybrid recheck, piece length > 16 KiB: a REMOVED file whose
recorded content is zeros must verify ("absent data read as zeros"), but the
stand-in hasher (HashChecker.Padder) hashes the zeros flat instead of as a
BEP 52 merkle tree, so every such piece is reported as failing.

Run: PYTHONPATH=/tmp/hunt-C16 /venv/bin/python finding2.py
exit 1 = property violated, exit 0 = not violated.
"""
import contextlib, hashlib, io, os, shutil, sys, tempfile

BLOCK = 16384
PIECE_LENGTH = 32768


def bdecode(b, i=0):
    c = b[i:i + 1]
    if c == b"i":
        e = b.index(b"e", i)
        return int(b[i + 1:e]), e + 1
    if c == b"l":
        i += 1; out = []
        while b[i:i + 1] != b"e":
            v, i = bdecode(b, i); out.append(v)
        return out, i + 1
    if c == b"d":
        i += 1; out = {}
        while b[i:i + 1] != b"e":
            k, i = bdecode(b, i); v, i = bdecode(b, i); out[k] = v
        return out, i + 1
    colon = b.index(b":", i); n = int(b[i:colon]); s = colon + 1
    return bytes(b[s:s + n]), s + n


def merkle(hs):
    while len(hs) > 1:
        hs = [hashlib.sha256(hs[i] + hs[i + 1]).digest() for i in range(0, len(hs), 2)]
    return hs[0]


def piece_hashes(data, plen):
    """BEP 52 hashes of the pieces of one file -> [(hash, size)]"""
    def leaves(chunk):
        return [hashlib.sha256(chunk[o:o + BLOCK]).digest() for o in range(0, len(chunk), BLOCK)]
    if len(data) <= plen:
        hs = leaves(data); n = 1
        while n < len(hs):
            n *= 2
        return [(merkle(hs + [bytes(32)] * (n - len(hs))), len(data))]
    out = []
    for o in range(0, len(data), plen):
        hs = leaves(data[o:o + plen])
        out.append((merkle(hs + [bytes(32)] * (plen // BLOCK - len(hs))), len(data[o:o + plen])))
    return out


def reference(metafile, top):
    meta = bdecode(open(metafile, "rb").read())[0]
    info = meta[b"info"]; plen = info[b"piece length"]
    good = total = 0; verdicts = []

    def walk(tree, parts):
        nonlocal good, total
        for key, val in tree.items():
            if b"" not in val:
                walk(val, parts + [key]); continue
            length = val[b""][b"length"]
            if not length:
                continue
            path = os.path.join(os.fsencode(top), *parts, key)
            data = b""
            if os.path.isfile(path):
                with open(path, "rb") as fd:
                    data = fd.read(length)
            data += bytes(length - len(data))          # absent data read as zeros
            root = val[b""][b"pieces root"]
            rec = root if length <= plen else meta[b"piece layers"][root]
            for n, (digest, size) in enumerate(piece_hashes(data, plen)):
                ok = digest == rec[32 * n:32 * n + 32]
                verdicts.append((os.fsdecode(key), n, ok))
                total += size; good += size if ok else 0
    walk(info[b"file tree"], [])
    return good / total * 100, verdicts


def main():
    from torrentfile.torrent import TorrentFileV2, TorrentFileHybrid
    from torrentfile.recheck import Checker
    failed = False
    for cls in (TorrentFileV2, TorrentFileHybrid):
        tmp = tempfile.mkdtemp(prefix="c16-f2-")
        try:
            top = os.path.join(tmp, "top"); os.mkdir(top)
            with open(os.path.join(top, "k.bin"), "wb") as fd:
                fd.write(b"k")                        # stays intact
            with open(os.path.join(top, "z.bin"), "wb") as fd:
                fd.write(bytes(PIECE_LENGTH))         # one piece of zeros (e.g. a preallocated file)
            metafile = os.path.join(tmp, "m.torrent")
            with contextlib.redirect_stdout(io.StringIO()):
                cls(path=top, piece_length=PIECE_LENGTH, progress=0).write(metafile)
            os.remove(os.path.join(top, "z.bin"))     # the damage: one removal
            expected, verdicts = reference(metafile, top)
            with contextlib.redirect_stdout(io.StringIO()):
                got = Checker(metafile, top).results()
            print(f"{cls.__name__}: piece length {PIECE_LENGTH}, top/k.bin (1 byte, intact), "
                  f"top/z.bin ({PIECE_LENGTH} zero bytes, removed)")
            print(f"   reference verdicts (file, piece, verifies): {verdicts}")
            print(f"   expected: {expected}%   recheck reported: {got}%")
            if abs(got - expected) > 1e-9:
                failed = True
        finally:
            shutil.rmtree(tmp, ignore_errors=True)
    if failed:
        print("VIOLATION: absent data was not read as zeros hashed the v2 way; "
              "the piece of the removed all-zero file is reported as failing.")
        return 1
    print("no violation")
    return 0


if __name__ == "__main__":
    sys.exit(main())
