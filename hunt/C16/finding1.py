#!/usr/bin/env python
"""C16 finding 1: v2/hybrid recheck reports 0% for an intact file whose
32-byte "pieces root" happens to be valid UTF-8 (the decoder returns it as
text, the checker compares text with bytes).

Run: PYTHONPATH=/tmp/hunt-C16 /venv/bin/python finding1.py
exit 1 = property violated, exit 0 = not violated.
"""
import contextlib, hashlib, io, os, shutil, sys, tempfile

CONTENT = b"124935989"      # sha256(CONTENT) is a valid UTF-8 byte string
PIECE_LENGTH = 16384


def bdecode(b, i=0):        # independent bencode decoder: byte strings stay bytes
    c = b[i:i + 1]
    if c == b"i":
        e = b.index(b"e", i)
        return int(b[i + 1:e]), e + 1
    if c == b"l":
        i += 1; out = []
        while b[i:i + 1] != b"e":
            v, i = bdecode(b, i); out.append(v)
        return out, i + 1
    if c == b"d":
        i += 1; out = {}
        while b[i:i + 1] != b"e":
            k, i = bdecode(b, i); v, i = bdecode(b, i); out[k] = v
        return out, i + 1
    colon = b.index(b":", i); n = int(b[i:colon]); s = colon + 1
    return bytes(b[s:s + n]), s + n


def reference(metafile, path):
    """one file <= 16 KiB = one block = one piece: hash is sha256(data)"""
    info = bdecode(open(metafile, "rb").read())[0][b"info"]
    leaf = info[b"file tree"][os.path.basename(path).encode()][b""]
    with open(path, "rb") as fd:
        data = fd.read(leaf[b"length"])
    data += bytes(leaf[b"length"] - len(data))
    ok = hashlib.sha256(data).digest() == leaf[b"pieces root"]
    return 100.0 if ok else 0.0, leaf[b"pieces root"]


def main():
    from torrentfile.torrent import TorrentFileV2, TorrentFileHybrid
    from torrentfile.cli import execute
    failed = False
    tmp = tempfile.mkdtemp(prefix="c16-f1-")
    try:
        path = os.path.join(tmp, "f.bin")
        with open(path, "wb") as fd:
            fd.write(CONTENT)
        for cls in (TorrentFileV2, TorrentFileHybrid):
            metafile = os.path.join(tmp, cls.__name__ + ".torrent")
            with contextlib.redirect_stdout(io.StringIO()):
                cls(path=path, piece_length=PIECE_LENGTH, progress=0).write(metafile)
                got = execute(["recheck", metafile, path])
            expected, root = reference(metafile, path)
            root.decode("utf-8")     # raises if the premise (valid UTF-8) were false
            print(f"{cls.__name__}: intact 9-byte file, pieces root = {root.hex()}")
            print(f"   expected (hashlib reference): {expected}%   recheck reported: {got}%")
            if got != expected:
                failed = True
    finally:
        shutil.rmtree(tmp, ignore_errors=True)
    if failed:
        print("VIOLATION: the intact piece is reported as not verifying.")
        return 1
    print("no violation")
    return 0


if __name__ == "__main__":
    sys.exit(main())
