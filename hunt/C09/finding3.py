#!/usr/bin/env python
"""
C09 finding 3 (library route): the number of files a rebuild reports depends on
which other rebuild object exists in the process.

`rebuild` returns "total number of content files copied" (commands.rebuild,
Assembler.assemble_torrents).  The count is kept by Assembler._callback, but
Assembler.__init__ installs that bound method on the *class* Metadata
(rebuild.py:478  `Metadata.set_callback(self._callback)` -> mixins.py:54
`cls.cb = func`).  The last Assembler constructed in the process therefore
receives the callbacks of every rebuild that runs afterwards:

    first = Assembler([meta], [contents], dest1)
    second = Assembler([meta], [contents], dest2)
    first.assemble_torrents()    # copies 2 files, returns 0
    second.assemble_torrents()   # copies 2 files, returns 4

A fresh interpreter running either rebuild on the same filesystem state returns
2.  (Related, same counter: calling assemble_torrents() twice on one object
returns 2, then 4.)  The CLI builds and runs one Assembler per operation and is
not affected.

Oracle: the metafile is written by an own bencoder with hashlib piece hashes;
the number of files really copied is counted by walking the destination.

Run with PYTHONPATH pointing at the clone.  Exit 1 = property violated.
"""
import hashlib
import json
import os
import shutil
import subprocess
import sys
import tempfile


def benc(obj):
    if isinstance(obj, int):
        return b"i%de" % obj
    if isinstance(obj, str):
        obj = obj.encode("utf-8")
    if isinstance(obj, (bytes, bytearray)):
        return b"%d:%s" % (len(obj), bytes(obj))
    if isinstance(obj, list):
        return b"l" + b"".join(benc(i) for i in obj) + b"e"
    if isinstance(obj, dict):
        items = sorted((k.encode() if isinstance(k, str) else k, v)
                       for k, v in obj.items())
        return b"d" + b"".join(benc(k) + benc(v) for k, v in items) + b"e"
    raise TypeError(obj)


CHILD = r"""
import io, json, sys
from torrentfile.rebuild import Assembler
meta, contents = sys.argv[1:3]
dests = sys.argv[3:]
real, sys.stdout = sys.stdout, io.StringIO()
assemblers = [Assembler([meta], [contents], dest) for dest in dests]
results = [asm.assemble_torrents() for asm in assemblers]
sys.stdout = real
print(json.dumps(results))
"""


def count_files(path):
    return sum(len(files) for _, _, files in os.walk(path))


def main():
    root = tempfile.mkdtemp(prefix="c09-f3-")
    bad = False
    try:
        contents = os.path.join(root, "contents")
        os.makedirs(os.path.join(contents, "c"))
        data = {"a": b"a" * 20000, "b": b"b" * 100}
        for name, payload in data.items():
            with open(os.path.join(contents, "c", name), "wb") as fd:
                fd.write(payload)
        plen = 16384
        stream = data["a"] + data["b"]
        pieces = b"".join(hashlib.sha1(stream[i:i + plen]).digest()
                          for i in range(0, len(stream), plen))
        info = {
            "files": [{"length": len(data[n]), "path": [n]} for n in "ab"],
            "name": "c",
            "piece length": plen,
            "pieces": pieces,
        }
        meta = os.path.join(root, "c.torrent")
        with open(meta, "wb") as fd:
            fd.write(benc({"info": info}))
        env = dict(os.environ, PYTHONUTF8="1")

        def run(*dests):
            proc = subprocess.run(
                [sys.executable, "-c", CHILD, meta, contents, *dests],
                env=env, cwd=root, capture_output=True, text=True)
            if proc.returncode:
                raise SystemExit("child failed: " + proc.stderr[-500:])
            return json.loads(proc.stdout.strip().splitlines()[-1])

        same_dests = [os.path.join(root, "same1"), os.path.join(root, "same2")]
        fresh_dests = [os.path.join(root, "fresh1"),
                       os.path.join(root, "fresh2")]
        same = run(*same_dests)
        fresh = [run(dest)[0] for dest in fresh_dests]
        copied_same = [count_files(d) for d in same_dests]
        copied_fresh = [count_files(d) for d in fresh_dests]

        print("rebuild of c.torrent (2 files) into an empty destination; "
              "expected return value: 2")
        for i in range(2):
            print("  rebuild #%d  fresh interpreter: returned %r, files in "
                  "destination %d" % (i + 1, fresh[i], copied_fresh[i]))
            print("  rebuild #%d  same process     : returned %r, files in "
                  "destination %d" % (i + 1, same[i], copied_same[i]))
        if same != fresh:
            bad = True
            print("  VIOLATION: the reported result of a rebuild depends on "
                  "the other rebuild of the process")
    finally:
        shutil.rmtree(root, ignore_errors=True)
    if bad:
        sys.exit(1)
    print("property holds")
    sys.exit(0)


if __name__ == "__main__":
    main()
