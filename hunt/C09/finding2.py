#!/usr/bin/env python
"""
C09 finding 2: a `-v` (verbose) operation reconfigures the root logger for the
rest of the process.

cli.py Config.activate_logger sets the root logger to DEBUG and adds one more
StreamHandler bound to the sys.stderr of that moment - on every `-v` operation,
and nothing ever undoes it.  Consequences for later operations of the process:

  a) an operation run WITHOUT -v writes its debug/info log to stderr
     (a fresh interpreter writes nothing to stderr);
  b) an operation run with -q ("Turn off all text output") after a -v operation
     still writes its log to the real stderr (a fresh `-q` run is silent);
  c) the n-th `-v` operation prints every log line n+1 times
     (a fresh `-v` run prints it twice).

Oracle: the metafile is written by an own bencoder; the observations are the
raw bytes the child interpreters write to their stderr pipe, cut at a marker
the child writes to fd 2 between the operations.

Run with PYTHONPATH pointing at the clone.  Exit 1 = property violated.
"""
import hashlib
import os
import re
import shutil
import subprocess
import sys
import tempfile


def benc(obj):
    if isinstance(obj, int):
        return b"i%de" % obj
    if isinstance(obj, str):
        obj = obj.encode("utf-8")
    if isinstance(obj, (bytes, bytearray)):
        return b"%d:%s" % (len(obj), bytes(obj))
    if isinstance(obj, list):
        return b"l" + b"".join(benc(i) for i in obj) + b"e"
    if isinstance(obj, dict):
        items = sorted((k.encode() if isinstance(k, str) else k, v)
                       for k, v in obj.items())
        return b"d" + b"".join(benc(k) + benc(v) for k, v in items) + b"e"
    raise TypeError(obj)


CHILD = r"""
import os, sys, json
from torrentfile.cli import execute
ops = json.loads(sys.argv[1])
for op in ops:
    sys.stdout.flush(); sys.stderr.flush()
    try:
        sys.__stderr__.flush()
    except Exception:
        pass
    os.write(2, b"\n<<<MARK>>>\n")
    execute(op)
"""


def last_op_stderr(ops, env, cwd):
    import json
    proc = subprocess.run([sys.executable, "-c", CHILD, json.dumps(ops)],
                          env=env, cwd=cwd, capture_output=True, text=True)
    if proc.returncode:
        return "CHILD FAILED: " + proc.stderr[-400:]
    text = proc.stderr.split("<<<MARK>>>\n")[-1]
    return re.sub(r"\[\d\d:\d\d:\d\d\]", "[T]", text)


def main():
    root = tempfile.mkdtemp(prefix="c09-f2-")
    bad = False
    try:
        payload = b"x" * 1000
        info = {
            "length": len(payload),
            "name": "data.bin",
            "piece length": 16384,
            "pieces": hashlib.sha1(payload).digest(),
        }
        meta = os.path.join(root, "data.torrent")
        with open(meta, "wb") as fd:
            fd.write(benc({"info": info}))
        env = dict(os.environ, PYTHONUTF8="1")

        plain = ["magnet", meta]
        verbose = ["-v", "magnet", meta]
        quiet = ["-q", "magnet", meta]

        cases = [
            ("a) `magnet` (no -v)", [plain], [verbose, plain]),
            ("b) `-q magnet`", [quiet], [verbose, quiet]),
            ("c) `-v magnet`", [verbose], [verbose, verbose, verbose]),
        ]
        for title, fresh_ops, same_ops in cases:
            fresh = last_op_stderr(fresh_ops, env, root)
            same = last_op_stderr(same_ops, env, root)
            print(title, "- stderr of the operation")
            print("  fresh interpreter                         :",
                  repr(fresh))
            print("  after %d earlier `-v magnet` in the process :" %
                  (len(same_ops) - 1), repr(same))
            if fresh != same:
                bad = True
                print("  VIOLATION: same operation, same filesystem state, "
                      "different output")
    finally:
        shutil.rmtree(root, ignore_errors=True)
    if bad:
        sys.exit(1)
    print("property holds")
    sys.exit(0)


if __name__ == "__main__":
    main()
