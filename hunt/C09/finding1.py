#!/usr/bin/env python
"""
C09 finding 1: a `-q` (quiet) operation silences every later operation of the
same process.

`torrentfile -q <anything>` replaces sys.stdout / sys.stderr by StringIO objects
and never puts them back (cli.py Config.activate_quiet).  Every later operation
executed by the same interpreter therefore prints nothing, although it was not
asked to be quiet: `magnet` does not print the magnet URI, `recheck` does not
print the percentage, `info` prints nothing.  The same `magnet` operation in a
fresh interpreter on the same filesystem state prints the URI.

Oracle: the metafile is built with an own bencoder, the expected URI is computed
with hashlib.  The two runs are child interpreters whose stdout is a pipe.

Check 2 (aggravation, informational but also counted): when stdout cannot encode
the progress bar glyphs (PYTHONIOENCODING=ascii) a fresh `create` dies with
UnicodeEncodeError before anything is written, while the very same `create`
after an unrelated `-q` operation succeeds and writes the metafile: the leak
changes the filesystem outcome, not only the text.

Run with PYTHONPATH pointing at the clone.  Exit 1 = property violated.
"""
import hashlib
import os
import shutil
import subprocess
import sys
import tempfile


def benc(obj):
    if isinstance(obj, int):
        return b"i%de" % obj
    if isinstance(obj, str):
        obj = obj.encode("utf-8")
    if isinstance(obj, (bytes, bytearray)):
        return b"%d:%s" % (len(obj), bytes(obj))
    if isinstance(obj, list):
        return b"l" + b"".join(benc(i) for i in obj) + b"e"
    if isinstance(obj, dict):
        items = sorted((k.encode() if isinstance(k, str) else k, v)
                       for k, v in obj.items())
        return b"d" + b"".join(benc(k) + benc(v) for k, v in items) + b"e"
    raise TypeError(obj)


CHILD = r"""
import sys
from torrentfile.cli import execute
mode, content, meta, other = sys.argv[1:5]
if mode == "same":
    # an unrelated, earlier operation that was asked to be quiet
    execute(["-q", "create", content, "-o", other])
execute(["magnet", meta])
"""

CHILD2 = r"""
import sys, os
from torrentfile.cli import execute
mode, content, out, other = sys.argv[1:5]
if mode == "same":
    execute(["-q", "create", content, "-o", other])
try:
    execute(["create", content, "-o", out])
    res = "ok"
except Exception as exc:
    res = "raised " + type(exc).__name__
sys.__stderr__.write("RESULT:%s:%s\n" % (res, os.path.exists(out)))
"""


def main():
    root = tempfile.mkdtemp(prefix="c09-f1-")
    bad = False
    try:
        content = os.path.join(root, "data.bin")
        payload = b"x" * 1000
        with open(content, "wb") as fd:
            fd.write(payload)
        info = {
            "length": len(payload),
            "name": "data.bin",
            "piece length": 16384,
            "pieces": hashlib.sha1(payload).digest(),
        }
        meta = os.path.join(root, "data.torrent")
        with open(meta, "wb") as fd:
            fd.write(benc({"info": info}))
        expected = ("magnet:?xt=urn:btih:" +
                    hashlib.sha1(benc(info)).hexdigest() + "&dn=data.bin")
        env = dict(os.environ)
        env.pop("PYTHONIOENCODING", None)
        env["PYTHONUTF8"] = "1"

        outs = {}
        for mode in ("fresh", "same"):
            proc = subprocess.run(
                [sys.executable, "-c", CHILD, mode, content, meta,
                 os.path.join(root, "other.torrent")],
                env=env, cwd=root, capture_output=True, text=True)
            outs[mode] = proc.stdout
        print("check 1: `magnet data.torrent` must print", expected)
        print("  fresh interpreter stdout          :", repr(outs["fresh"]))
        print("  after `-q create` in same process :", repr(outs["same"]))
        if expected not in outs["fresh"]:
            print("  (unexpected: the fresh run does not print the URI)")
        if (expected in outs["fresh"]) != (expected in outs["same"]):
            bad = True
            print("  VIOLATION: the result of `magnet` depends on an earlier "
                  "`-q` operation of the process")

        env2 = dict(env)
        env2.pop("PYTHONUTF8", None)
        env2["PYTHONIOENCODING"] = "ascii"
        res = {}
        for mode in ("fresh", "same"):
            out = os.path.join(root, mode + "-out.torrent")
            proc = subprocess.run(
                [sys.executable, "-c", CHILD2, mode, content, out,
                 os.path.join(root, "other2.torrent")],
                env=env2, cwd=root, capture_output=True, text=True)
            line = [ln for ln in proc.stderr.splitlines()
                    if ln.startswith("RESULT:")]
            res[mode] = line[-1] if line else "no result: " + proc.stderr[-300:]
        print("check 2: `create data.bin -o X` with an ASCII-only stdout "
              "(RESULT:<outcome>:<X exists>)")
        print("  fresh interpreter                 :", res["fresh"])
        print("  after `-q create` in same process :", res["same"])
        if res["fresh"] != res["same"]:
            bad = True
            print("  VIOLATION: same operation, same filesystem state, "
                  "different outcome")
    finally:
        shutil.rmtree(root, ignore_errors=True)
    if bad:
        sys.exit(1)
    print("property holds")
    sys.exit(0)


if __name__ == "__main__":
    main()
