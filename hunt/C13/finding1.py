#!/usr/bin/env python
"""
C13 finding 1: a single-file torrent rebuilt into the current directory
(destination "." or "") is counted as rebuilt but never written.

Run with: PYTHONPATH=/tmp/hunt-C13 /venv/bin/python finding1.py
Exits 1 when the property is violated, 0 otherwise.
"""
import contextlib
import hashlib
import io
import os
import shutil
import subprocess
import sys
import tempfile


def bdecode(data, i=0):
    """Independent bencode decoder: byte strings stay bytes."""
    c = data[i:i + 1]
    if c == b"i":
        j = data.index(b"e", i)
        return int(data[i + 1:j]), j + 1
    if c == b"l":
        i += 1
        out = []
        while data[i:i + 1] != b"e":
            v, i = bdecode(data, i)
            out.append(v)
        return out, i + 1
    if c == b"d":
        i += 1
        out = {}
        while data[i:i + 1] != b"e":
            k, i = bdecode(data, i)
            v, i = bdecode(data, i)
            out[k] = v
        return out, i + 1
    j = data.index(b":", i)
    n = int(data[i:j])
    return data[j + 1:j + 1 + n], j + 1 + n


def verifies(metafile, dest):
    """Check a single-file v1 metafile against dest/<name> with hashlib."""
    info = bdecode(open(metafile, "rb").read())[0][b"info"]
    target = os.path.join(dest, info[b"name"].decode())
    if not os.path.isfile(target):
        return False, "missing: " + target
    data = open(target, "rb").read()
    plen = info[b"piece length"]
    pieces = b"".join(
        hashlib.sha1(data[i:i + plen]).digest()
        for i in range(0, len(data), plen))
    if len(data) != info[b"length"] or pieces != info[b"pieces"]:
        return False, "content mismatch: " + target
    return True, "ok"


def main():
    from torrentfile.rebuild import Assembler
    from torrentfile.torrent import TorrentFile

    start = os.getcwd()
    tmp = tempfile.mkdtemp(prefix="c13_f1_")
    violated = False
    try:
        search = os.path.join(tmp, "search", "deep", "er")
        os.makedirs(search)
        source = os.path.join(search, "file.bin")
        with open(source, "wb") as fd:
            fd.write(os.urandom(40000))
        meta = os.path.join(tmp, "file.torrent")
        with contextlib.redirect_stdout(io.StringIO()):
            TorrentFile(path=source, outfile=meta, piece_length=16384).write()

        # control: absolute destination
        ctrl = os.path.join(tmp, "ctrl")
        os.makedirs(ctrl)
        with contextlib.redirect_stdout(io.StringIO()):
            n = Assembler([meta], [os.path.join(tmp, "search")],
                          ctrl).assemble_torrents()
        print(f"control  dest=<abs path>  counted={n} "
              f"verifies={verifies(meta, ctrl)}")

        for spelling in (".", ""):
            dest = os.path.join(tmp, "dest_" + (spelling or "empty"))
            os.makedirs(dest)
            os.chdir(dest)
            try:
                with contextlib.redirect_stdout(io.StringIO()):
                    n = Assembler([meta], [os.path.join(tmp, "search")],
                                  spelling).assemble_torrents()
            finally:
                os.chdir(start)
            ok, why = verifies(meta, dest)
            print(f"library  dest={spelling!r:4} (cwd={dest})  counted={n}  "
                  f"listing={os.listdir(dest)}  verifies={ok} ({why})")
            if n > 0 and not ok:
                violated = True

        # same thing through the command line
        dest = os.path.join(tmp, "dest_cli")
        os.makedirs(dest)
        proc = subprocess.run(
            [sys.executable, "-m", "torrentfile", "-q", "rebuild", "-m", meta,
             "-c", os.path.join(tmp, "search"), "-d", "."],
            cwd=dest, env=dict(os.environ), capture_output=True)
        ok, why = verifies(meta, dest)
        print(f"cli      dest='.'  (cwd={dest})  exit={proc.returncode}  "
              f"listing={os.listdir(dest)}  verifies={ok} ({why})")
        if proc.returncode == 0 and not ok:
            violated = True
    finally:
        os.chdir(start)
        shutil.rmtree(tmp, ignore_errors=True)

    if violated:
        print("EXPECTED: file.bin recreated in the destination (the current "
              "directory); every counted file present.")
        print("OBSERVED: rebuild reports 1 file rebuilt / exits 0, but the "
              "destination is empty.")
        return 1
    print("property holds")
    return 0


if __name__ == "__main__":
    sys.exit(main())
