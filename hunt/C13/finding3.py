#!/usr/bin/env python
"""
C13 finding 3: v1 rebuild does not finish when one piece covers several
files that share a file name and a size (index.txt / __init__.py / .gitkeep
in every sub directory ...).

For every piece, PieceNode._find_matches enumerates the full cartesian
product of the candidates of all files in the piece (re-reading the files for
every combination) and Metadata._match_v1 copies nothing before every piece
was enumerated.  With n same-named same-sized files in one piece that is n**n
combinations: n=7 takes seconds, n=8 minutes, n=10 a day, n=12 (8.9e12
combinations) years - although an intact copy of every file is right there and there is
not a single decoy.

Run with: PYTHONPATH=/tmp/hunt-C13 /venv/bin/python finding3.py [timeout_s]
Exits 1 when the property is violated, 0 otherwise.
"""
import contextlib
import hashlib
import io
import os
import shutil
import subprocess
import sys
import tempfile
import time

CHILD = """
import sys, io, contextlib
from torrentfile.rebuild import Assembler
meta, search, dest = sys.argv[1:4]
with contextlib.redirect_stdout(io.StringIO()):
    n = Assembler([meta], [search], dest).assemble_torrents()
print(n)
"""


def bdecode(data, i=0):
    """Independent bencode decoder: byte strings stay bytes."""
    c = data[i:i + 1]
    if c == b"i":
        j = data.index(b"e", i)
        return int(data[i + 1:j]), j + 1
    if c == b"l":
        i += 1
        out = []
        while data[i:i + 1] != b"e":
            v, i = bdecode(data, i)
            out.append(v)
        return out, i + 1
    if c == b"d":
        i += 1
        out = {}
        while data[i:i + 1] != b"e":
            k, i = bdecode(data, i)
            v, i = bdecode(data, i)
            out[k] = v
        return out, i + 1
    j = data.index(b":", i)
    n = int(data[i:j])
    return data[j + 1:j + 1 + n], j + 1 + n


def verify(metafile, dest):
    """Verify a multi-file v1 metafile against dest with hashlib."""
    info = bdecode(open(metafile, "rb").read())[0][b"info"]
    name = info[b"name"].decode()
    data, missing = b"", []
    for entry in info[b"files"]:
        rel = os.path.join(name, *[p.decode() for p in entry[b"path"]])
        target = os.path.join(dest, rel)
        if os.path.isfile(target):
            data += open(target, "rb").read()
        else:
            missing.append(rel)
            data += bytes(entry[b"length"])
    plen = info[b"piece length"]
    pieces = b"".join(hashlib.sha1(data[i:i + plen]).digest()
                      for i in range(0, len(data), plen))
    return missing, pieces == info[b"pieces"]


def scenario(tmp, label, count, same_name, timeout):
    from torrentfile.torrent import TorrentFile

    base = os.path.join(tmp, label)
    tree = os.path.join(base, "content", "tree")
    for i in range(count):
        sub = os.path.join(tree, "d%02d" % i)
        os.makedirs(sub)
        fname = "index.txt" if same_name else "index%02d.txt" % i
        with open(os.path.join(sub, fname), "wb") as fd:
            fd.write(b"%02d\n" % i)
    meta = os.path.join(base, "tree.torrent")
    with contextlib.redirect_stdout(io.StringIO()):
        TorrentFile(path=tree, outfile=meta, piece_length=16384).write()
    dest = os.path.join(base, "dest")
    os.makedirs(dest)
    # the search directory is simply an intact copy of the whole torrent
    search = os.path.join(base, "content")
    began = time.time()
    try:
        proc = subprocess.run(
            [sys.executable, "-c", CHILD, meta, search, dest],
            capture_output=True, timeout=timeout, text=True)
        result = "finished, counted=" + proc.stdout.strip()
        done = True
    except subprocess.TimeoutExpired:
        result = "NOT FINISHED, killed"
        done = False
    elapsed = time.time() - began
    missing, ok = verify(meta, dest)
    print(f"{label:22} files={count:2}  {result} after {elapsed:6.2f}s  "
          f"missing={len(missing)}  verifies={ok}")
    return done and ok


def main():
    timeout = float(sys.argv[1]) if len(sys.argv) > 1 else 30.0
    tmp = tempfile.mkdtemp(prefix="c13_f3_")
    try:
        ok = scenario(tmp, "distinct-names-12", 12, False, timeout)
        assert ok, "control run failed"
        for n in (4, 5, 6):
            scenario(tmp, "same-name-%d" % n, n, True, timeout)
        ok = scenario(tmp, "same-name-12", 12, True, timeout)
    finally:
        shutil.rmtree(tmp, ignore_errors=True)
    if not ok:
        print("EXPECTED: 12 three-byte files tree/dNN/index.txt recreated "
              "(the control with distinct names takes milliseconds).")
        print(f"OBSERVED: rebuild still enumerating 12**12 candidate "
              f"combinations after {timeout:.0f}s; destination is empty.")
        return 1
    print("property holds")
    return 0


if __name__ == "__main__":
    sys.exit(main())
