#!/usr/bin/env python
"""
C13 finding 2: a v2 / hybrid file whose merkle root ("pieces root") happens
to be a valid UTF-8 byte sequence is never rebuilt.

pyben returns `str` for byte strings that decode as UTF-8, rebuild compares
that `str` with the `bytes` root it computes -> never equal -> file skipped.

The 9 byte file b"124935989" has such a SHA-256 (found by brute force; about
1 in 10**8 of all files have one, for a file of at most 16 KiB the root is
simply the SHA-256 of the content).

Run with: PYTHONPATH=/tmp/hunt-C13 /venv/bin/python finding2.py
Exits 1 when the property is violated, 0 otherwise.
"""
import contextlib
import hashlib
import io
import os
import shutil
import sys
import tempfile

CONTENT = b"124935989"
BLOCK = 16384


def bdecode(data, i=0):
    """Independent bencode decoder: byte strings stay bytes."""
    c = data[i:i + 1]
    if c == b"i":
        j = data.index(b"e", i)
        return int(data[i + 1:j]), j + 1
    if c == b"l":
        i += 1
        out = []
        while data[i:i + 1] != b"e":
            v, i = bdecode(data, i)
            out.append(v)
        return out, i + 1
    if c == b"d":
        i += 1
        out = {}
        while data[i:i + 1] != b"e":
            k, i = bdecode(data, i)
            v, i = bdecode(data, i)
            out[k] = v
        return out, i + 1
    j = data.index(b":", i)
    n = int(data[i:j])
    return data[j + 1:j + 1 + n], j + 1 + n


def merkle_root(data):
    """BEP 52 root of one file (independent implementation)."""
    layer = [hashlib.sha256(data[i:i + BLOCK]).digest()
             for i in range(0, len(data), BLOCK)]
    size = 1
    while size < len(layer):
        size *= 2
    layer += [bytes(32)] * (size - len(layer))
    while len(layer) > 1:
        layer = [hashlib.sha256(layer[i] + layer[i + 1]).digest()
                 for i in range(0, len(layer), 2)]
    return layer[0]


def walk_tree(tree, prefix=()):
    for key, val in tree.items():
        if b"" in val:
            yield prefix + (key.decode(),), val[b""]
        else:
            yield from walk_tree(val, prefix + (key.decode(),))


def verify(metafile, dest):
    """Verify dest/<name>/... against the v2 file tree; return problems."""
    info = bdecode(open(metafile, "rb").read())[0][b"info"]
    name = info[b"name"].decode()
    problems = []
    for parts, leaf in walk_tree(info[b"file tree"]):
        target = os.path.join(dest, name, *parts)
        if not os.path.isfile(target):
            problems.append("missing " + os.path.join(name, *parts))
            continue
        data = open(target, "rb").read()
        if len(data) != leaf[b"length"] or (
                data and merkle_root(data) != leaf[b"pieces root"]):
            problems.append("wrong content " + os.path.join(name, *parts))
    return problems


def main():
    from torrentfile.rebuild import Assembler
    from torrentfile.torrent import TorrentFileHybrid, TorrentFileV2

    digest = hashlib.sha256(CONTENT).digest()
    digest.decode("utf-8")  # would raise if the premise were wrong
    print("sha256(%r) = %s  (valid UTF-8)" % (CONTENT, digest.hex()))

    tmp = tempfile.mkdtemp(prefix="c13_f2_")
    violated = False
    try:
        tree = os.path.join(tmp, "orig", "tree")
        os.makedirs(tree)
        with open(os.path.join(tree, "a.txt"), "wb") as fd:
            fd.write(CONTENT)
        with open(os.path.join(tree, "b.txt"), "wb") as fd:
            fd.write(b"hello")
        # the search directory: intact copies scattered at some depth
        search = os.path.join(tmp, "search")
        os.makedirs(os.path.join(search, "x", "y"))
        shutil.copy(os.path.join(tree, "a.txt"), os.path.join(search, "x", "y"))
        shutil.copy(os.path.join(tree, "b.txt"), os.path.join(search, "x"))

        for cls in (TorrentFileV2, TorrentFileHybrid):
            meta = os.path.join(tmp, cls.__name__ + ".torrent")
            with contextlib.redirect_stdout(io.StringIO()):
                cls(path=tree, outfile=meta, piece_length=16384).write()
            dest = os.path.join(tmp, "dest_" + cls.__name__)
            os.makedirs(dest)
            with contextlib.redirect_stdout(io.StringIO()):
                count = Assembler([meta], [search], dest).assemble_torrents()
            problems = verify(meta, dest)
            print(f"{cls.__name__:18} counted={count} of 2  "
                  f"problems={problems}")
            if problems:
                violated = True
    finally:
        shutil.rmtree(tmp, ignore_errors=True)

    if violated:
        print("EXPECTED: tree/a.txt and tree/b.txt recreated, result verifies "
              "100% against the metafile.")
        print("OBSERVED: tree/a.txt (pieces root is valid UTF-8) is silently "
              "left out although an intact copy is in the search directory.")
        return 1
    print("property holds")
    return 0


if __name__ == "__main__":
    sys.exit(main())
