#!/usr/bin/env python
"""
C15 finding 1: an aligned v1 torrent cannot be created through the config-file
route when the content tree is a directory called `true` or `false`.

parse_config_file() turns every config value spelled true/false into a Python
bool except for a hard-coded list of keys; `content` is not on that list, so
`content = true` reaches MetaFile.__init__ as path=True and the run dies with a
TypeError (and `content = false` with MissingPathError) instead of producing the
piece-aligned metafile.  The same tree under any other name, and the same tree
named `true` on the bare CLI, are handled correctly.

Run:  PYTHONPATH=/tmp/hunt-C15 /venv/bin/python finding1.py
"""
import hashlib
import os
import shutil
import subprocess
import sys
import tempfile

P = 16384  # smallest piece length the tool accepts (--piece-length 14)


def bdecode(data, i=0):
    """Minimal independent bencode decoder (bytes in, bytes/int/list/dict out)."""
    c = data[i:i + 1]
    if c == b"i":
        e = data.index(b"e", i)
        return int(data[i + 1:e]), e + 1
    if c == b"l":
        i += 1
        out = []
        while data[i:i + 1] != b"e":
            v, i = bdecode(data, i)
            out.append(v)
        return out, i + 1
    if c == b"d":
        i += 1
        out = {}
        while data[i:i + 1] != b"e":
            k, i = bdecode(data, i)
            v, i = bdecode(data, i)
            out[k] = v
        return out, i + 1
    colon = data.index(b":", i)
    n = int(data[i:colon])
    return data[colon + 1:colon + 1 + n], colon + 1 + n


def c15_problems(torrent_path, root):
    """Check the C15 statement for an aligned multi-file v1 metafile."""
    with open(torrent_path, "rb") as fd:
        info = bdecode(fd.read())[0][b"info"]
    plen, pieces = info[b"piece length"], info[b"pieces"]
    problems, stream, offset, listed = [], bytearray(), 0, []
    for ent in info[b"files"]:
        length = ent[b"length"]
        if b"p" in ent.get(b"attr", b""):
            gap = -offset % plen
            if length != gap or not gap:
                problems.append(f"pad length {length} != gap {gap}")
            stream += bytes(length)
        else:
            if offset % plen:
                problems.append(f"{ent[b'path']} starts off-boundary at {offset}")
            with open(os.path.join(os.fsencode(root), *ent[b"path"]), "rb") as fd:
                data = fd.read()
            if len(data) != length:
                problems.append(f"{ent[b'path']} length {length} != {len(data)}")
            stream += data
            listed.append(b"/".join(ent[b"path"]))
        offset += length
    on_disk = []
    for dpath, _, fnames in os.walk(os.fsencode(root)):
        for fname in fnames:
            on_disk.append(os.path.relpath(os.path.join(dpath, fname),
                                           os.fsencode(root)))
    if sorted(on_disk) != sorted(listed):
        problems.append(f"files on disk {sorted(on_disk)} != listed {sorted(listed)}")
    expected = b"".join(hashlib.sha1(bytes(stream[i:i + plen])).digest()
                        for i in range(0, len(stream), plen))
    if expected != pieces:
        problems.append("piece string != SHA-1 pieces of the zero-padded stream")
    if -(-offset // plen) * 20 != len(pieces):
        problems.append(f"lengths sum to {offset} bytes but "
                        f"{len(pieces) // 20} pieces are recorded")
    return problems


def make_tree(root, spec):
    for rel, size in spec.items():
        path = os.path.join(root, rel)
        os.makedirs(os.path.dirname(path), exist_ok=True)
        with open(path, "wb") as fd:
            fd.write(os.urandom(size))


def tool(args, cwd, **env):
    """Run `python -m torrentfile` (PYTHONPATH is inherited)."""
    return subprocess.run([sys.executable, "-m", "torrentfile"] + args,
                          cwd=cwd, env=dict(os.environ, **env),
                          stdout=subprocess.PIPE, stderr=subprocess.PIPE)


def last_line(proc):
    lines = proc.stderr.decode("utf-8", "replace").strip().splitlines()
    return lines[-1] if lines else "(no stderr)"


def main():
    tmp = tempfile.mkdtemp(prefix="c15f1-")
    failed = False
    try:
        spec = {"a": 1, "b": P + 1}
        ini = os.path.join(tmp, "torrentfile.ini")
        for name in ("data", "true", "false"):
            root = os.path.join(tmp, name)
            make_tree(root, spec)
            out = os.path.join(tmp, name + ".torrent")
            with open(ini, "w", encoding="utf-8") as fd:
                fd.write("[config]\nalign = true\npiece-length = 14\n"
                         f"content = {name}\nout = {out}\n")
            proc = tool(["create", "--config", "--config-path", ini], tmp)
            if proc.returncode != 0 or not os.path.exists(out):
                failed = True
                print(f"content = {name}: VIOLATION - expected an aligned v1 "
                      f"metafile for the 2-file tree ./{name}; the tool exited "
                      f"{proc.returncode} with: {last_line(proc)}")
                continue
            problems = c15_problems(out, root)
            if problems:
                failed = True
                print(f"content = {name}: VIOLATION - {problems}")
            else:
                print(f"content = {name}: ok (aligned metafile verified "
                      "with hashlib)")
        # control: the very same tree named `true` works on the bare CLI
        out = os.path.join(tmp, "cli.torrent")
        proc = tool(["create", "--align", "--piece-length", "14", "-o", out,
                     "true"], tmp)
        ok = proc.returncode == 0 and not c15_problems(
            out, os.path.join(tmp, "true"))
        print(f"control, CLI route with content `true`: "
              f"{'ok' if ok else 'FAILED'}")
    finally:
        shutil.rmtree(tmp, ignore_errors=True)
    return 1 if failed else 0


if __name__ == "__main__":
    sys.exit(main())
