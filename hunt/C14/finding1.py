#!/usr/bin/env python3
"""
C14 finding 1: a directory sitting at the path the metafile assigns to a file.

The destination already contains unrelated content: a directory `foo`
(scenario A: empty; scenario B: holding an unrelated file `foo/foo`).
The metafile is a plain v1 single-file torrent for a file named `foo`, so the
only path it assigns is  <dest>/foo .

Expected (C14): whatever rebuild writes is placed at <dest>/foo, and nothing
else in the destination is written.  (Refusing / skipping would also be fine.)
Observed: rebuild writes <dest>/foo/foo - a path the metafile never assigns -
and in scenario B thereby truncates and overwrites the unrelated file that
was already there.

Oracle: os.walk snapshots + hashlib, own bencoder.  Exit 1 = violated.
"""
import contextlib
import hashlib
import io
import os
import shutil
import sys
import tempfile

from torrentfile.rebuild import Assembler


def benc(obj) -> bytes:
    if isinstance(obj, int):
        return b"i%de" % obj
    if isinstance(obj, str):
        obj = obj.encode("utf-8")
    if isinstance(obj, bytes):
        return b"%d:%s" % (len(obj), obj)
    if isinstance(obj, list):
        return b"l" + b"".join(benc(i) for i in obj) + b"e"
    if isinstance(obj, dict):
        items = sorted((k.encode() if isinstance(k, str) else k, v)
                       for k, v in obj.items())
        return b"d" + b"".join(benc(k) + benc(v) for k, v in items) + b"e"
    raise TypeError(obj)


def snapshot(root):
    snap = {}
    for dirpath, dirs, files in os.walk(root):
        for name in dirs:
            snap[os.path.relpath(os.path.join(dirpath, name), root)] = "<dir>"
        for name in files:
            path = os.path.join(dirpath, name)
            with open(path, "rb") as fd:
                snap[os.path.relpath(path, root)] = hashlib.sha256(
                    fd.read()).hexdigest()
    return snap


def scenario(tmp, label, unrelated):
    base = os.path.join(tmp, label)
    search = os.path.join(base, "search")
    dest = os.path.join(base, "dest")
    os.makedirs(search)
    os.makedirs(os.path.join(dest, "foo"))  # unrelated directory named foo
    if unrelated is not None:
        with open(os.path.join(dest, "foo", "foo"), "wb") as fd:
            fd.write(unrelated)
    # payload only has to be larger than what stat reports for a directory
    dirsize = os.path.getsize(os.path.join(dest, "foo"))
    data = os.urandom(dirsize + 1000)
    with open(os.path.join(search, "foo"), "wb") as fd:
        fd.write(data)
    piece_length = 16384
    pieces = b"".join(
        hashlib.sha1(data[i:i + piece_length]).digest()
        for i in range(0, len(data), piece_length))
    meta = {"info": {"name": "foo", "length": len(data),
                     "piece length": piece_length, "pieces": pieces}}
    metafile = os.path.join(base, "foo.torrent")
    with open(metafile, "wb") as fd:
        fd.write(benc(meta))

    before = snapshot(dest)
    with contextlib.redirect_stdout(io.StringIO()):
        Assembler([metafile], [search], dest).assemble_torrents()
    after = snapshot(dest)

    assigned = {"foo"}  # the only path this metafile assigns
    problems = []
    for path, digest in after.items():
        if digest == "<dir>" or before.get(path) == digest:
            continue
        kind = "altered" if path in before else "created"
        if path not in assigned:
            problems.append(
                f"{kind} {path!r} (sha256 {digest[:12]}..., "
                f"payload sha256 {hashlib.sha256(data).hexdigest()[:12]}...) "
                f"- the metafile only assigns {sorted(assigned)}")
    for path in before:
        if path not in after:
            problems.append(f"removed {path!r}")
    print(f"[{label}] destination before: {before}")
    print(f"[{label}] destination after : {after}")
    return problems


def main():
    tmp = tempfile.mkdtemp(prefix="c14f1-")
    try:
        problems = []
        problems += scenario(tmp, "A-empty-dir", None)
        problems += scenario(tmp, "B-dir-with-unrelated-file",
                             b"unrelated user data\n" * 2000)
    finally:
        shutil.rmtree(tmp, ignore_errors=True)
    print("expected: rebuild writes nothing except <dest>/foo "
          "(the path the metafile assigns); unrelated files stay untouched")
    if problems:
        print("observed: VIOLATION")
        for problem in problems:
            print("  -", problem)
        return 1
    print("observed: ok, nothing written outside the assigned path")
    return 0


if __name__ == "__main__":
    sys.exit(main())
