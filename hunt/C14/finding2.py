#!/usr/bin/env python3
"""
C14 finding 2: rebuild overwrites *in place, through links* whatever shorter
file already sits at the assigned path.

Metafile: plain v1 single-file torrent for `foo`; the only path it assigns is
<dest>/foo.  The search directory holds the complete `foo`.

Scenario A (symlink, everything inside the destination):
    <dest>/foo is a symlink to the unrelated, shorter file
    <dest>/notes/readme.txt .
    Expected: only <dest>/foo is (re)placed; readme.txt stays as it is.
    Observed: <dest>/foo stays a symlink and the payload is written into
    <dest>/notes/readme.txt - a path the metafile does not assign; the
    unrelated file is destroyed.

Scenario B (hard link; borderline - see notes.md):
    the search tree also holds an incomplete, shorter `foo`
    (search/partial/foo) and <dest>/foo is a hard link to it (path-wise the
    destination and the search directories are disjoint).
    Expected: nothing under the search directories changes.
    Observed: search/partial/foo grows to the full payload.

Oracle: lstat/readlink/sha256 snapshots taken without following symlinks,
own bencoder.  Exit 1 = violated.
"""
import contextlib
import hashlib
import io
import os
import shutil
import sys
import tempfile

from torrentfile.rebuild import Assembler


def benc(obj) -> bytes:
    if isinstance(obj, int):
        return b"i%de" % obj
    if isinstance(obj, str):
        obj = obj.encode("utf-8")
    if isinstance(obj, bytes):
        return b"%d:%s" % (len(obj), obj)
    if isinstance(obj, dict):
        items = sorted((k.encode(), v) for k, v in obj.items())
        return b"d" + b"".join(benc(k) + benc(v) for k, v in items) + b"e"
    raise TypeError(obj)


def snapshot(root):
    """Map relative path -> description, never following symlinks."""
    snap = {}
    for dirpath, dirs, files in os.walk(root):
        for name in dirs + files:
            path = os.path.join(dirpath, name)
            rel = os.path.relpath(path, root)
            if os.path.islink(path):
                snap[rel] = "symlink -> " + os.readlink(path)
            elif os.path.isdir(path):
                snap[rel] = "<dir>"
            else:
                with open(path, "rb") as fd:
                    body = fd.read()
                snap[rel] = "%d bytes sha256 %s" % (
                    len(body), hashlib.sha256(body).hexdigest()[:12])
    return snap


def diff(before, after):
    out = []
    for path in sorted(set(before) | set(after)):
        if before.get(path) != after.get(path):
            out.append(f"{path}: {before.get(path)}  ==>  {after.get(path)}")
    return out


def setup(base, data):
    search = os.path.join(base, "search")
    dest = os.path.join(base, "dest")
    os.makedirs(os.path.join(search, "full"))
    os.makedirs(dest)
    with open(os.path.join(search, "full", "foo"), "wb") as fd:
        fd.write(data)
    meta = {"info": {"name": "foo", "length": len(data),
                     "piece length": 16384,
                     "pieces": hashlib.sha1(data).digest()}}
    metafile = os.path.join(base, "foo.torrent")
    with open(metafile, "wb") as fd:
        fd.write(benc(meta))
    return search, dest, metafile


def rebuild(metafile, search, dest):
    with contextlib.redirect_stdout(io.StringIO()):
        Assembler([metafile], [search], dest).assemble_torrents()


def main():
    data = os.urandom(5000)
    print("payload: 5000 bytes sha256",
          hashlib.sha256(data).hexdigest()[:12])
    problems = []
    tmp = tempfile.mkdtemp(prefix="c14f2-")
    try:
        # ---- scenario A: symlink inside the destination
        search, dest, metafile = setup(os.path.join(tmp, "A"), data)
        os.mkdir(os.path.join(dest, "notes"))
        with open(os.path.join(dest, "notes", "readme.txt"), "wb") as fd:
            fd.write(b"my unrelated notes\n")
        os.symlink(os.path.join("notes", "readme.txt"),
                   os.path.join(dest, "foo"))
        before = snapshot(dest)
        rebuild(metafile, search, dest)
        changes = diff(before, snapshot(dest))
        print("[A] changes in destination:", changes or "none")
        for line in changes:
            if not line.startswith("foo:"):
                problems.append("[A] wrote to a path the metafile does not "
                                "assign: " + line)

        # ---- scenario B: hard link shared with a partial file in the search
        search, dest, metafile = setup(os.path.join(tmp, "B"), data)
        os.mkdir(os.path.join(search, "partial"))
        with open(os.path.join(search, "partial", "foo"), "wb") as fd:
            fd.write(data[:2000])
        os.link(os.path.join(search, "partial", "foo"),
                os.path.join(dest, "foo"))
        before = snapshot(search)
        meta_before = open(metafile, "rb").read()
        rebuild(metafile, search, dest)
        changes = diff(before, snapshot(search))
        print("[B] changes under the search directory:", changes or "none")
        for line in changes:
            problems.append("[B] search directory altered: " + line)
        if open(metafile, "rb").read() != meta_before:
            problems.append("[B] metafile altered")
    finally:
        shutil.rmtree(tmp, ignore_errors=True)
    print("expected: the only thing written is <dest>/foo; nothing under the "
          "search directories and no other destination file changes")
    if problems:
        print("observed: VIOLATION")
        for problem in problems:
            print("  -", problem)
        return 1
    print("observed: ok")
    return 0


if __name__ == "__main__":
    sys.exit(main())
