#!/usr/bin/env python
"""
C20 finding 2: meta-version 3 as a library keyword (an int, as documented)
produces a v2-only metafile; the flag and the config file produce a hybrid.

`MetaFile.__doc__` documents the keyword as ``meta_version : int``.
`TorrentAssembler.__init__` (the one creator class that looks at the keyword,
and the one the CLI uses for versions 2 and 3) decides with
``self.hybrid = self.meta_version == "3"`` - a comparison with the *string*
that argparse / configparser happen to deliver.  With ``meta_version=3`` the
comparison is False and the v1 half (info.pieces, info.files) is silently
left out.

Oracle: SHA1 piece hashes computed here with hashlib and an independent
bencode decoder.

Exit status 1 = property violated, 0 = not violated.
Run with PYTHONPATH pointing at the clone.
"""
import hashlib
import os
import shutil
import subprocess
import sys
import tempfile

PIECE = 16384


def bdecode(data):
    """Independent minimal bencode decoder (bytes in, bytes/int/list/dict)."""
    def dec(i):
        c = data[i:i + 1]
        if c == b"i":
            j = data.index(b"e", i)
            return int(data[i + 1:j]), j + 1
        if c == b"l":
            i, out = i + 1, []
            while data[i:i + 1] != b"e":
                v, i = dec(i)
                out.append(v)
            return out, i + 1
        if c == b"d":
            i, out = i + 1, {}
            while data[i:i + 1] != b"e":
                k, i = dec(i)
                out[k], i = dec(i)
            return out, i + 1
        j = data.index(b":", i)
        n = int(data[i:j])
        return data[j + 1:j + 1 + n], j + 1 + n
    val, end = dec(0)
    assert end == len(data)
    return val


def load(path):
    if not os.path.exists(path):
        return None
    with open(path, "rb") as fd:
        meta = bdecode(fd.read())
    meta.pop(b"creation date", None)
    return meta


def cli(argv, cwd):
    proc = subprocess.run([sys.executable, "-m", "torrentfile"] + argv,
                          cwd=cwd, capture_output=True)
    err = proc.stderr.decode(errors="replace").strip().splitlines()
    return f"exit {proc.returncode} " + (err[-1] if err else "")


def describe(meta):
    if meta is None:
        return "no metafile"
    info = meta[b"info"]
    keys = sorted(k.decode() for k in info)
    return "info keys = " + ", ".join(keys)


def main():
    import torrentfile
    from torrentfile.torrent import MetaFile, TorrentAssembler
    print("torrentfile from:", os.path.dirname(torrentfile.__file__))
    doc = [ln.strip() for ln in MetaFile.__doc__.splitlines()
           if "meta_version" in ln]
    print("documented keyword:", doc)

    tmp = tempfile.mkdtemp(prefix="c20f2_")
    failed = False
    try:
        content = os.path.join(tmp, "content.bin")
        payload = bytes(range(256)) * 100          # 25600 bytes, 2 pieces
        with open(content, "wb") as fd:
            fd.write(payload)
        expected_pieces = b"".join(
            hashlib.sha1(payload[i:i + PIECE]).digest()
            for i in range(0, len(payload), PIECE))

        metas = {}
        out = os.path.join(tmp, "flag.torrent")
        msg = cli(["create", "--meta-version", "3", "--piece-length",
                   str(PIECE), "-o", out, content], tmp)
        metas["flag    (--meta-version 3)"] = (load(out), msg)

        out = os.path.join(tmp, "config.torrent")
        ini = os.path.join(tmp, "t.ini")
        with open(ini, "w", encoding="utf-8") as fd:
            fd.write(f"[config]\nmeta-version = 3\npiece-length = {PIECE}\n")
        msg = cli(["create", "--config", "--config-path", ini, "-o", out,
                   content], tmp)
        metas["config  (meta-version = 3)"] = (load(out), msg)

        out = os.path.join(tmp, "keyword.torrent")
        try:
            TorrentAssembler(path=content, outfile=out, progress=0,
                             piece_length=PIECE, meta_version=3).write()
            msg = "ok"
        except Exception as exc:  # pylint: disable=broad-except
            msg = f"{type(exc).__name__}: {exc}"
        metas["keyword (meta_version=3)  "] = (load(out), msg)

        print("\nexpected: all three routes write the same hybrid metafile, "
              "i.e. info has 'meta version', 'file tree' AND the v1 keys "
              "'pieces' (= SHA1 of each 16 KiB piece)")
        for route, (meta, msg) in metas.items():
            print(f"  {route}: {describe(meta)}  [{msg}]")
            pieces = meta[b"info"].get(b"pieces") if meta else None
            if pieces != expected_pieces:
                print("      -> info.pieces is",
                      "missing" if pieces is None else "wrong",
                      "- this is not a hybrid (v1 & v2) metafile")
                failed = True
        only = [m for m, _ in metas.values()]
        if not (only[0] == only[1] == only[2]):
            print("  -> the three metafiles are NOT identical")
            failed = True
    finally:
        shutil.rmtree(tmp, ignore_errors=True)

    print("\nRESULT:", "VIOLATED - keyword meta_version=3 (int) yields a "
          "v2-only torrent" if failed else "not violated")
    return 1 if failed else 0


if __name__ == "__main__":
    sys.exit(main())
