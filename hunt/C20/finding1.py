#!/usr/bin/env python
"""
C20 finding 1: a '%' in an option value means something else in the config file.

`commands.parse_config_file` reads the ini file with configparser's default
BasicInterpolation, so '%' is an escape character there and nowhere else:

  * announce = http://t.example/announce?passkey=a%2Fb   (percent-encoded URL)
      flag / keyword : stored verbatim in `announce` / `announce-list`
      config file    : InterpolationSyntaxError, no metafile at all
  * comment = %(source)s   together with   source = SRC
      flag / keyword : info.comment == "%(source)s"
      config file    : info.comment == "SRC"

Exit status 1 = property violated, 0 = not violated.
Run with PYTHONPATH pointing at the clone.
"""
import os
import shutil
import subprocess
import sys
import tempfile


def bdecode(data):
    """Independent minimal bencode decoder (bytes in, bytes/int/list/dict)."""
    def dec(i):
        c = data[i:i + 1]
        if c == b"i":
            j = data.index(b"e", i)
            return int(data[i + 1:j]), j + 1
        if c == b"l":
            i, out = i + 1, []
            while data[i:i + 1] != b"e":
                v, i = dec(i)
                out.append(v)
            return out, i + 1
        if c == b"d":
            i, out = i + 1, {}
            while data[i:i + 1] != b"e":
                k, i = dec(i)
                out[k], i = dec(i)
            return out, i + 1
        j = data.index(b":", i)
        n = int(data[i:j])
        return data[j + 1:j + 1 + n], j + 1 + n
    val, end = dec(0)
    assert end == len(data)
    return val


def load(path):
    if not os.path.exists(path):
        return None
    with open(path, "rb") as fd:
        meta = bdecode(fd.read())
    meta.pop(b"creation date", None)
    return meta


def cli(argv, cwd):
    proc = subprocess.run([sys.executable, "-m", "torrentfile"] + argv,
                          cwd=cwd, capture_output=True)
    err = proc.stderr.decode(errors="replace").strip().splitlines()
    return proc.returncode, (err[-1] if err else "")


def three_routes(tmp, content, tag, flags, ini, keywords):
    """Return {route: (metafile-without-date | None, message)}."""
    from torrentfile.torrent import TorrentFile

    res = {}
    out = os.path.join(tmp, tag + "-flag.torrent")
    code, msg = cli(["create", "-o", out] + flags + [content], tmp)
    res["flag"] = (load(out), f"exit {code} {msg}")

    out = os.path.join(tmp, tag + "-config.torrent")
    inipath = os.path.join(tmp, tag + ".ini")
    with open(inipath, "w", encoding="utf-8") as fd:
        fd.write("[config]\n" + ini)
    code, msg = cli(["create", "--config", "--config-path", inipath,
                     "-o", out, content], tmp)
    res["config"] = (load(out), f"exit {code} {msg}")

    out = os.path.join(tmp, tag + "-keyword.torrent")
    try:
        TorrentFile(path=content, outfile=out, progress=0, **keywords).write()
        msg = "ok"
    except Exception as exc:  # pylint: disable=broad-except
        msg = f"{type(exc).__name__}: {exc}"
    res["keyword"] = (load(out), msg)
    return res


def main():
    import torrentfile
    print("torrentfile from:", os.path.dirname(torrentfile.__file__))
    tmp = tempfile.mkdtemp(prefix="c20f1_")
    failed = False
    try:
        content = os.path.join(tmp, "content.bin")
        with open(content, "wb") as fd:
            fd.write(b"torrentfile" * 1000)

        # ---- case A: percent-encoded tracker URL -------------------------
        url = "http://t.example/announce?passkey=a%2Fb"
        res = three_routes(tmp, content, "A", ["-a", url],
                           f"announce = {url}\n", {"announce": [url]})
        print(f"\ncase A: announce = {url!r}")
        print("  expected: every route writes announce =", url.encode())
        for route, (meta, msg) in res.items():
            got = meta.get(b"announce") if meta else None
            print(f"  {route:8s}: announce = {got!r:52} [{msg[:110]}]")
            if got != url.encode():
                failed = True
        if not (res["flag"][0] == res["config"][0] == res["keyword"][0]):
            print("  -> the three metafiles are NOT identical")
            failed = True

        # ---- case B: value that looks like an interpolation reference ----
        comment, source = "%(source)s", "SRC"
        res = three_routes(
            tmp, content, "B", ["--comment", comment, "--source", source],
            f"comment = {comment}\nsource = {source}\n",
            {"comment": comment, "source": source})
        print(f"\ncase B: comment = {comment!r}, source = {source!r}")
        print("  expected: every route writes info.comment =",
              comment.encode())
        for route, (meta, msg) in res.items():
            got = meta[b"info"].get(b"comment") if meta else None
            print(f"  {route:8s}: info.comment = {got!r:20} [{msg[:80]}]")
            if got != comment.encode():
                failed = True
    finally:
        shutil.rmtree(tmp, ignore_errors=True)

    print("\nRESULT:", "VIOLATED - the config-file route treats '%' as an "
          "interpolation escape" if failed else "not violated")
    return 1 if failed else 0


if __name__ == "__main__":
    sys.exit(main())
