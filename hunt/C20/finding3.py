#!/usr/bin/env python
"""
C20 finding 3 (lower confidence - depends on which spellings of "off" count as
"the equivalent configuration file"): a switch that is turned OFF in the
config file with anything but the literal word "false" is turned ON.

`commands.parse_config_file` maps only the words true/false to booleans; every
other value of `private` / `align` is handed to `MetaFile` as a non-empty
string, and `if private:` / `if self.align` treat a non-empty string as True:

    keyword  private=0 / private=False      -> no info.private
    flag     (no -p)                        -> no info.private
    config   private = 0 | no | off         -> info.private = 1     <-- differs
    config   align   = 0 | no | off         -> padding files added  <-- differs

0 / no / off are the standard ini spellings of False (configparser.getboolean)
and 0 is the literal transcription of the keyword value ``private=0``.

Exit status 1 = property violated, 0 = not violated.
Run with PYTHONPATH pointing at the clone.
"""
import os
import shutil
import subprocess
import sys
import tempfile


def bdecode(data):
    """Independent minimal bencode decoder (bytes in, bytes/int/list/dict)."""
    def dec(i):
        c = data[i:i + 1]
        if c == b"i":
            j = data.index(b"e", i)
            return int(data[i + 1:j]), j + 1
        if c == b"l":
            i, out = i + 1, []
            while data[i:i + 1] != b"e":
                v, i = dec(i)
                out.append(v)
            return out, i + 1
        if c == b"d":
            i, out = i + 1, {}
            while data[i:i + 1] != b"e":
                k, i = dec(i)
                out[k], i = dec(i)
            return out, i + 1
        j = data.index(b":", i)
        n = int(data[i:j])
        return data[j + 1:j + 1 + n], j + 1 + n
    val, end = dec(0)
    assert end == len(data)
    return val


def load(path):
    if not os.path.exists(path):
        return None
    with open(path, "rb") as fd:
        meta = bdecode(fd.read())
    meta.pop(b"creation date", None)
    return meta


def cli(argv, cwd):
    proc = subprocess.run([sys.executable, "-m", "torrentfile"] + argv,
                          cwd=cwd, capture_output=True)
    err = proc.stderr.decode(errors="replace").strip().splitlines()
    return f"exit {proc.returncode} " + (err[-1] if err else "")


def summary(meta):
    if meta is None:
        return "no metafile"
    info = meta[b"info"]
    pads = [f for f in info.get(b"files", []) if f.get(b"attr") == b"p"]
    return f"info.private = {info.get(b'private')!r}, padding files = {len(pads)}"


def main():
    import torrentfile
    from torrentfile.torrent import TorrentFile
    print("torrentfile from:", os.path.dirname(torrentfile.__file__))
    tmp = tempfile.mkdtemp(prefix="c20f3_")
    failed = False
    try:
        content = os.path.join(tmp, "content")
        os.mkdir(content)
        for name in ("a.bin", "b.bin"):
            with open(os.path.join(content, name), "wb") as fd:
                fd.write(name.encode() * 1000)

        out = os.path.join(tmp, "keyword.torrent")
        TorrentFile(path=content, outfile=out, progress=0,
                    private=0, align=0).write()
        ref = load(out)
        print("\nkeyword  private=0, align=0      :", summary(ref))

        out = os.path.join(tmp, "flag.torrent")
        msg = cli(["create", "-o", out, content], tmp)
        flag = load(out)
        print("flag     (neither -p nor --align):", summary(flag), f"[{msg}]")
        if flag != ref:
            failed = True

        print("\nexpected: the config file that switches both options off "
              "gives the same metafile (no info.private, no padding files)")
        for word in ("false", "0", "no", "off"):
            out = os.path.join(tmp, f"config-{word}.torrent")
            ini = os.path.join(tmp, f"{word}.ini")
            with open(ini, "w", encoding="utf-8") as fd:
                fd.write(f"[config]\nprivate = {word}\nalign = {word}\n")
            msg = cli(["create", "--config", "--config-path", ini, "-o", out,
                       content], tmp)
            meta = load(out)
            same = meta == ref
            print(f"  config private = {word:5s} align = {word:5s}:",
                  summary(meta), "" if same else "  <-- DIFFERS", f"[{msg}]")
            if not same:
                failed = True
    finally:
        shutil.rmtree(tmp, ignore_errors=True)

    print("\nRESULT:", "VIOLATED - 'private = 0/no/off' in the config file "
          "makes the torrent private (and 'align = 0/no/off' aligns it)"
          if failed else "not violated")
    return 1 if failed else 0


if __name__ == "__main__":
    sys.exit(main())
