#!/usr/bin/env python
"""
C12 finding 3: decimal strings longer than CPython's int-conversion limit
(4300 digits, Python >= 3.11) escape the piece-length check with a bare
ValueError from int():
  * "000...014" (zero padded, denotes the exponent 14 exactly like "014",
    which IS accepted) is not accepted;
  * "1000...0" (10**4300, not a power of two) is not rejected with the
    piece-length error.

Run:  PYTHONPATH=/tmp/hunt-C12 /venv/bin/python finding3.py
exit 1 = property violated, exit 0 = not violated.
"""
import os
import shutil
import subprocess
import sys
import tempfile


def bdecode(data, i=0):
    """Independent minimal bencode decoder."""
    c = data[i:i + 1]
    if c == b"i":
        j = data.index(b"e", i)
        return int(data[i + 1:j]), j + 1
    if c == b"l":
        i += 1
        out = []
        while data[i:i + 1] != b"e":
            v, i = bdecode(data, i)
            out.append(v)
        return out, i + 1
    if c == b"d":
        i += 1
        out = {}
        while data[i:i + 1] != b"e":
            k, i = bdecode(data, i)
            v, i = bdecode(data, i)
            out[k] = v
        return out, i + 1
    j = data.index(b":", i)
    n = int(data[i:j])
    return data[j + 1:j + 1 + n], j + 1 + n


def main():
    from torrentfile.torrent import TorrentFile
    from torrentfile.utils import PieceLengthValueError

    limit = sys.get_int_max_str_digits() if hasattr(
        sys, "get_int_max_str_digits") else 0
    if not limit:
        print("this interpreter has no int/str digit limit; nothing to show")
        return 0

    padded14 = "0" * (limit - 1) + "14"      # limit+1 digits, value 14
    big = "1" + "0" * limit                  # limit+1 digits, 10**limit
    cases = [
        ("'014' (control)", "014", 16384),
        (f"'0'*{limit - 1}+'14'  (value 14)", padded14, 16384),
        (f"'1'+'0'*{limit}  (10**{limit}, not a power of 2)", big, None),
    ]

    violations = []
    tmp = tempfile.mkdtemp(prefix="c12f3-")
    try:
        content = os.path.join(tmp, "f.bin")
        with open(content, "wb") as fd:
            fd.write(b"x")
        out = os.path.join(tmp, "o.torrent")

        def read_pl():
            with open(out, "rb") as fd:
                meta, _ = bdecode(fd.read())
            return meta[b"info"][b"piece length"]

        def judge(label, want, verdict, got):
            if want is not None:
                expected = f"metafile recording exactly {want}"
                good = verdict == "wrote" and got == want
            else:
                expected = "piece-length error, no metafile"
                good = verdict == "piece-length-error"
            if good:
                print(f"ok   {label}: {verdict} {got if got else ''}")
            else:
                violations.append(label)
                print(f"FAIL {label}\n       expected: {expected}\n"
                      f"       happened: {verdict}"
                      f"{' piece length=' + str(got) if got else ''}")

        # ---- library ------------------------------------------------------
        for label, value, want in cases:
            if os.path.exists(out):
                os.remove(out)
            got = None
            try:
                TorrentFile(path=content, piece_length=value, outfile=out,
                            progress=0).write()
                verdict, got = "wrote", read_pl()
            except PieceLengthValueError:
                verdict = "piece-length-error"
            except Exception as exc:  # pylint: disable=broad-except
                verdict = f"{type(exc).__name__}: {str(exc)[:70]}"
            judge("library " + label, want, verdict, got)

        # ---- command line -------------------------------------------------
        env = dict(os.environ, HOME=tmp)
        for label, value, want in cases:
            if os.path.exists(out):
                os.remove(out)
            proc = subprocess.run(
                [sys.executable, "-m", "torrentfile", "create", "-o", out,
                 "--piece-length", value, content],
                cwd=tmp, env=env, capture_output=True, text=True)
            got = None
            last = (proc.stderr.strip().splitlines() or [""])[-1]
            if os.path.exists(out):
                verdict, got = "wrote", read_pl()
            elif "PieceLengthValueError" in last:
                verdict = "piece-length-error"
            else:
                verdict = f"rc={proc.returncode} {last[:70]}"
            judge("CLI     " + label, want, verdict, got)
    finally:
        shutil.rmtree(tmp, ignore_errors=True)

    if violations:
        print(f"\nC12 VIOLATED for {len(violations)} input(s)")
        return 1
    print("\nC12 holds for the inputs tried")
    return 0


if __name__ == "__main__":
    sys.exit(main())
