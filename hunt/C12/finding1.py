#!/usr/bin/env python
"""
C12 finding 1: "falsy" piece-length arguments (integer 0, empty string) are
neither rejected nor honoured - they silently switch to the automatic choice
and a metafile is produced.

Run:  PYTHONPATH=/tmp/hunt-C12 /venv/bin/python finding1.py
exit 1 = property violated, exit 0 = not violated.
"""
import os
import shutil
import subprocess
import sys
import tempfile


def bdecode(data, i=0):
    """Independent minimal bencode decoder (bytes in, python objects out)."""
    c = data[i:i + 1]
    if c == b"i":
        j = data.index(b"e", i)
        return int(data[i + 1:j]), j + 1
    if c == b"l":
        i += 1
        out = []
        while data[i:i + 1] != b"e":
            v, i = bdecode(data, i)
            out.append(v)
        return out, i + 1
    if c == b"d":
        i += 1
        out = {}
        while data[i:i + 1] != b"e":
            k, i = bdecode(data, i)
            v, i = bdecode(data, i)
            out[k] = v
        return out, i + 1
    j = data.index(b":", i)
    n = int(data[i:j])
    return data[j + 1:j + 1 + n], j + 1 + n


def recorded_piece_length(path):
    with open(path, "rb") as fd:
        meta, _ = bdecode(fd.read())
    return meta[b"info"][b"piece length"]


def main():
    from torrentfile.torrent import (TorrentFile, TorrentFileHybrid,
                                     TorrentFileV2)
    from torrentfile.utils import PieceLengthValueError

    violations = []
    tmp = tempfile.mkdtemp(prefix="c12f1-")
    try:
        content = os.path.join(tmp, "f.bin")
        with open(content, "wb") as fd:
            fd.write(b"x")
        out = os.path.join(tmp, "o.torrent")

        # ---- route 1: library, integer zero -------------------------------
        for cls in (TorrentFile, TorrentFileV2, TorrentFileHybrid):
            for value in (0, ""):
                if os.path.exists(out):
                    os.remove(out)
                label = f"library {cls.__name__}(piece_length={value!r})"
                try:
                    cls(path=content, piece_length=value, outfile=out,
                        progress=0).write()
                except PieceLengthValueError:
                    print(f"ok   {label}: rejected with piece-length error")
                    continue
                if os.path.exists(out):
                    got = recorded_piece_length(out)
                    violations.append(label)
                    print(f"FAIL {label}\n"
                          f"       expected: PieceLengthValueError, no "
                          f"metafile ({value!r} is not a power of two "
                          f">= 16 KiB and not an exponent 14..25)\n"
                          f"       happened: metafile written, "
                          f"'piece length' = {got}")

        # ---- route 2: command line, empty string --------------------------
        env = dict(os.environ, HOME=tmp)  # PYTHONPATH is inherited

        def cli(args):
            if os.path.exists(out):
                os.remove(out)
            proc = subprocess.run(
                [sys.executable, "-m", "torrentfile"] + args,
                cwd=tmp, env=env, capture_output=True, text=True)
            return proc

        for args in (["create", "-o", out, "--piece-length", "", content],
                     ["create", "-o", out, "--piece-length=", content]):
            proc = cli(args)
            label = "CLI " + " ".join(repr(a) if a == "" else a
                                      for a in args[3:-1])
            if os.path.exists(out):
                got = recorded_piece_length(out)
                violations.append(label)
                print(f"FAIL {label}\n"
                      f"       expected: piece-length error, no metafile "
                      f"(the empty string is a non-numeric string)\n"
                      f"       happened: exit code {proc.returncode}, "
                      f"metafile written, 'piece length' = {got}")
            else:
                print(f"ok   {label}: rejected (rc={proc.returncode})")

        # control: the text "0" IS rejected on the same route
        proc = cli(["create", "-o", out, "--piece-length", "0", content])
        print(f"ctrl CLI --piece-length 0 : rc={proc.returncode}, "
              f"metafile exists={os.path.exists(out)}, "
              f"PieceLengthValueError in stderr="
              f"{'PieceLengthValueError' in proc.stderr}")

        # ---- route 3: configuration file, empty value ---------------------
        ini = os.path.join(tmp, "c.ini")
        with open(ini, "w") as fd:
            fd.write("[config]\npiece-length =\n")
        # the invalid CLI value 99 disappears as well, because the empty
        # config value replaces it before the truthiness test
        proc = cli(["create", "-o", out, "--piece-length", "99", "--config",
                    "--config-path", ini, content])
        label = "config 'piece-length =' (+ CLI --piece-length 99)"
        if os.path.exists(out):
            got = recorded_piece_length(out)
            violations.append(label)
            print(f"FAIL {label}\n"
                  f"       expected: piece-length error, no metafile\n"
                  f"       happened: exit code {proc.returncode}, metafile "
                  f"written, 'piece length' = {got}")
        else:
            print(f"ok   {label}: rejected (rc={proc.returncode})")
    finally:
        shutil.rmtree(tmp, ignore_errors=True)

    if violations:
        print(f"\nC12 VIOLATED for {len(violations)} input(s)")
        return 1
    print("\nC12 holds for the inputs tried")
    return 0


if __name__ == "__main__":
    sys.exit(main())
