#!/usr/bin/env python
"""
C12 finding 2: a valid piece length (power of two >= 16 KiB) that is large
passes validation but the v1 and hybrid writers then die with OverflowError /
MemoryError, because they allocate a buffer of piece-length bytes.  The value
is neither recorded in a metafile nor rejected with the piece-length error.
The v2 writer, which never allocates piece-length bytes, records the very same
values exactly (used as control).

Run:  PYTHONPATH=/tmp/hunt-C12 /venv/bin/python finding2.py
exit 1 = property violated, exit 0 = not violated.
"""
import os
import shutil
import subprocess
import sys
import tempfile


def bdecode(data, i=0):
    """Independent minimal bencode decoder."""
    c = data[i:i + 1]
    if c == b"i":
        j = data.index(b"e", i)
        return int(data[i + 1:j]), j + 1
    if c == b"l":
        i += 1
        out = []
        while data[i:i + 1] != b"e":
            v, i = bdecode(data, i)
            out.append(v)
        return out, i + 1
    if c == b"d":
        i += 1
        out = {}
        while data[i:i + 1] != b"e":
            k, i = bdecode(data, i)
            v, i = bdecode(data, i)
            out[k] = v
        return out, i + 1
    j = data.index(b":", i)
    n = int(data[i:j])
    return data[j + 1:j + 1 + n], j + 1 + n


CHILD = r"""
import resource, sys
# safety guard only: never let the test box really allocate 1 TiB
resource.setrlimit(resource.RLIMIT_AS, (8 << 30, 8 << 30))
from torrentfile import torrent
from torrentfile.utils import PieceLengthValueError
cls = getattr(torrent, sys.argv[1])
try:
    cls(path=sys.argv[2], piece_length=int(sys.argv[3]), outfile=sys.argv[4],
        progress=0).write()
    print("WROTE")
except PieceLengthValueError as e:
    print("PIECE-LENGTH-ERROR")
except BaseException as e:
    print("OTHER-ERROR", type(e).__name__, e)
"""


def main():
    violations = []
    tmp = tempfile.mkdtemp(prefix="c12f2-")
    try:
        content = os.path.join(tmp, "f.bin")
        with open(content, "wb") as fd:
            fd.write(b"x")
        out = os.path.join(tmp, "o.torrent")
        for exp in (40, 64):
            value = 2**exp
            for cls in ("TorrentFileV2", "TorrentFile", "TorrentFileHybrid"):
                if os.path.exists(out):
                    os.remove(out)
                proc = subprocess.run(
                    [sys.executable, "-c", CHILD, cls, content,
                     str(value), out],
                    capture_output=True, text=True, cwd=tmp)
                verdict = (proc.stdout.strip().splitlines() or ["?"])[-1]
                label = f"{cls}(piece_length=2**{exp})"
                if verdict == "WROTE" and os.path.exists(out):
                    with open(out, "rb") as fd:
                        meta, _ = bdecode(fd.read())
                    got = meta[b"info"][b"piece length"]
                    if got == value:
                        print(f"ok   {label}: metafile records exactly "
                              f"2**{exp}")
                    else:
                        violations.append(label)
                        print(f"FAIL {label}: recorded {got}")
                elif verdict == "PIECE-LENGTH-ERROR":
                    print(f"ok   {label}: rejected with piece-length error")
                else:
                    violations.append(label)
                    print(f"FAIL {label}\n"
                          f"       expected: 2**{exp} is a power of two >= "
                          f"16 KiB, so a metafile recording exactly "
                          f"{value} (what TorrentFileV2 does), or at the "
                          f"very least the piece-length error\n"
                          f"       happened: {verdict}; metafile exists = "
                          f"{os.path.exists(out)}")
    finally:
        shutil.rmtree(tmp, ignore_errors=True)
    if violations:
        print(f"\nC12 VIOLATED for {len(violations)} input(s)")
        return 1
    print("\nC12 holds for the inputs tried")
    return 0


if __name__ == "__main__":
    sys.exit(main())
