#!/usr/bin/env python
"""
C10 finding 1 (interpretation-dependent, see notes.md):

TorrentAssembler selects hybrid mode with the test `meta_version == "3"`
(torrent.py:715), i.e. only for the *string* "3" that argparse delivers.
MetaFile documents the parameter as `meta_version : int` (torrent.py:234).
A library caller who follows the documentation and asks the class behind
the command line for a hybrid torrent with meta_version=3 silently gets a
v2-only info dictionary (no `pieces`, no `files`), which is not identical
to the info dictionary TorrentFileHybrid builds for the same payload.

Oracle: the expected v1 part of a hybrid info dictionary is computed here
with hashlib only.

exit 1 = property violated, exit 0 = not violated.
"""
import contextlib
import hashlib
import io
import os
import shutil
import sys
import tempfile

from torrentfile.torrent import TorrentAssembler, TorrentFileHybrid

PIECE = 2**14


def norm(obj):
    """bytes/bytearray -> bytes, recursively."""
    if isinstance(obj, (bytes, bytearray)):
        return bytes(obj)
    if isinstance(obj, dict):
        return {k: norm(v) for k, v in obj.items()}
    if isinstance(obj, list):
        return [norm(v) for v in obj]
    return obj


def build(cls, **kwargs):
    with contextlib.redirect_stdout(io.StringIO()):
        torrent = cls(progress=0, piece_length=PIECE, **kwargs)
    return norm(torrent.meta["info"])


def main():
    tmp = tempfile.mkdtemp(prefix="c10-f1-")
    try:
        root = os.path.join(tmp, "payload")
        os.mkdir(root)
        data = b"x" * 20000  # one full piece and one short piece
        with open(os.path.join(root, "a.bin"), "wb") as fd:
            fd.write(data)

        # independent expectation for the v1 half of a hybrid info dict
        pad = -len(data) % PIECE
        padded = data + bytes(pad)
        exp_pieces = b"".join(
            hashlib.sha1(padded[i:i + PIECE]).digest()
            for i in range(0, len(padded), PIECE))
        exp_files = [
            {"length": len(data), "path": ["a.bin"]},
            {"attr": "p", "length": pad, "path": [".pad", str(pad)]},
        ]

        ref = build(TorrentFileHybrid, path=root)
        as_str = build(TorrentAssembler, path=root, meta_version="3")
        as_int = build(TorrentAssembler, path=root, meta_version=3)

        bad = False
        for label, info in [
            ("TorrentFileHybrid()", ref),
            ('TorrentAssembler(meta_version="3")', as_str),
            ("TorrentAssembler(meta_version=3)", as_int),
        ]:
            ok = (info.get("pieces") == exp_pieces
                  and info.get("files") == exp_files)
            same = info == ref
            print(f"{label:38s} info keys = {sorted(info)}")
            print(f"{'':38s} v1 part matches hashlib oracle: {ok}; "
                  f"identical to TorrentFileHybrid info: {same}")
            if not (ok and same):
                bad = True

        if bad:
            print("\nEXPECTED: a hybrid request to TorrentAssembler yields "
                  "the same info dictionary as TorrentFileHybrid "
                  "(with `pieces` and `files`).")
            print("HAPPENED: TorrentAssembler(meta_version=3) silently "
                  "produced a v2-only info dictionary.")
            return 1
        print("\nno violation")
        return 0
    finally:
        shutil.rmtree(tmp, ignore_errors=True)


if __name__ == "__main__":
    sys.exit(main())
