#!/usr/bin/env python3
"""
C03 finding 1 (borderline: library route, second use of a creator object).

The public ``assemble()`` method of both hybrid creators is not idempotent.
``__init__`` already calls it once; when a caller invokes it again on the same
object (e.g. to refresh the metafile after the content changed) and then calls
``write()``, the v2 file tree is rebuilt from scratch, but the v1 accumulators
(``self.files``, ``self.pieces``) keep the entries of the first run.  The
written hybrid metafile then lists every file twice in the v1 view (directory
case) or carries twice as many v1 pieces as ``length`` allows (single file),
while the v2 view describes each file once.

Oracle: own bencode decoder + hashlib over the files on disk.
Exit status 1 when the property is violated, 0 otherwise.

Run:  PYTHONPATH=/tmp/hunt-C03 /venv/bin/python finding1.py
"""
import contextlib
import hashlib
import io
import os
import shutil
import sys
import tempfile

from torrentfile.torrent import TorrentAssembler, TorrentFileHybrid

PL = 16384


def bdecode(data, i=0):
    c = data[i:i + 1]
    if c == b"i":
        j = data.index(b"e", i)
        return int(data[i + 1:j]), j + 1
    if c == b"l":
        i += 1
        out = []
        while data[i:i + 1] != b"e":
            v, i = bdecode(data, i)
            out.append(v)
        return out, i + 1
    if c == b"d":
        i += 1
        out = {}
        while data[i:i + 1] != b"e":
            k, i = bdecode(data, i)
            v, i = bdecode(data, i)
            out[k] = v
        return out, i + 1
    j = data.index(b":", i)
    n = int(data[i:j])
    return data[j + 1:j + 1 + n], j + 1 + n


def leaves(tree, prefix=()):
    out = []
    for key, val in tree.items():
        if key == b"":
            out.append((prefix, val[b"length"]))
        else:
            out.extend(leaves(val, prefix + (key, )))
    return out


def sha1_pieces(stream):
    return b"".join(
        hashlib.sha1(stream[i:i + PL]).digest()
        for i in range(0, len(stream), PL))


def examine(metafile, content):
    """Return (problems, details) for the hybrid metafile."""
    info = bdecode(open(metafile, "rb").read())[0][b"info"]
    v2 = leaves(info[b"file tree"])
    problems = []
    stream = bytearray()
    if b"files" in info:
        v1 = []
        offset = 0
        for entry in info[b"files"]:
            if b"p" in entry.get(b"attr", b""):
                stream += bytes(entry[b"length"])
            else:
                if offset % PL:
                    problems.append(
                        f"file {entry[b'path']} starts at offset {offset}")
                v1.append((tuple(entry[b"path"]), entry[b"length"]))
                full = os.path.join(os.fsencode(content), *entry[b"path"])
                stream += open(full, "rb").read()
            offset += entry[b"length"]
        if v1 != v2:
            problems.append(
                f"v1 non-padding entries {v1}\n"
                f"              != file-tree leaves    {v2}")
    else:
        stream += open(content, "rb").read()
        if len(stream) != info[b"length"]:
            problems.append("declared length differs from the file")
    expected = sha1_pieces(bytes(stream))
    if expected != info[b"pieces"]:
        problems.append(
            f"v1 piece string has {len(info[b'pieces']) // 20} piece(s), the "
            f"stream of the listed files hashes to {len(expected) // 20}")
    return problems


def main():
    tmp = tempfile.mkdtemp(prefix="c03-finding1-")
    failed = False
    try:
        content_dir = os.path.join(tmp, "d")
        os.mkdir(content_dir)
        single = os.path.join(content_dir, "f")
        with open(single, "wb") as fd:
            fd.write(b"x")
        creators = (
            ("TorrentFileHybrid", TorrentFileHybrid, {}),
            ("TorrentAssembler(meta_version='3')", TorrentAssembler, {
                "meta_version": "3"
            }),
        )
        for label, cls, extra in creators:
            for kind, target in (("directory", content_dir), ("single file",
                                                               single)):
                for calls in (0, 1):
                    out = os.path.join(tmp, "out.torrent")
                    with contextlib.redirect_stdout(io.StringIO()):
                        torrent = cls(path=target,
                                      piece_length=PL,
                                      outfile=out,
                                      progress=0,
                                      **extra)
                        for _ in range(calls):
                            torrent.assemble()
                        torrent.write()
                    problems = examine(out, target)
                    tag = ("constructed once" if calls == 0 else
                           "assemble() called again before write()")
                    if problems:
                        failed = True
                        print(f"VIOLATION  {label}, {kind}, {tag}:")
                        print("  expected : v1 list == file-tree leaves, "
                              "pieces == SHA-1 of exactly that stream")
                        for problem in problems:
                            print(f"  observed : {problem}")
                    else:
                        print(f"ok         {label}, {kind}, {tag}")
    finally:
        shutil.rmtree(tmp, ignore_errors=True)
    return 1 if failed else 0


if __name__ == "__main__":
    sys.exit(main())
