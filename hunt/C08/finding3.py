#!/usr/bin/env python3
"""
C08 finding 3: with progress mode 1 or 2 `create` crashes when the payload
lives below a directory whose name is not valid UTF-8 (legal on Linux, common
on disks written with a legacy encoding); with progress mode 0 or -q the very
same command succeeds.  The copy of the tree below an ASCII-named directory
works in every mode.  So the result depends on where the payload lives and on
the progress mode.

    T/ok/tree/a.txt             <- payload, copy 1
    T/\\xe9/tree/a.txt           <- payload, copy 2 (parent name = byte 0xE9)

The info dictionary never contains the parent's name, so nothing prevents the
torrent from being created - only the progress bar title (the full path) is
written to stdout and that raises UnicodeEncodeError.

Environment: an ordinary UTF-8 locale such as en_US.UTF-8 gives Python a
stdout with errors="strict".  The sandbox only has C/POSIX (where Python uses
"surrogateescape"), so the script reproduces the ordinary setting with
PYTHONIOENCODING=utf-8:strict, and COLUMNS=300 so that the 80-column
fallback of a pipe does not truncate the title before the odd name.

Oracle: own bencode encoder/decoder + hashlib.
Run with PYTHONPATH=/tmp/hunt-C08 .  Exit 1 = property violated, 0 = holds.
"""
import hashlib
import os
import shutil
import subprocess
import sys
import tempfile

PLEN = 16384
DATA = b"hello"


def benc(x):
    if isinstance(x, int):
        return b"i%de" % x
    if isinstance(x, str):
        x = x.encode("utf-8")
    if isinstance(x, bytes):
        return b"%d:%s" % (len(x), x)
    if isinstance(x, list):
        return b"l" + b"".join(benc(i) for i in x) + b"e"
    items = sorted((k.encode("utf-8"), v) for k, v in x.items())
    return b"d" + b"".join(benc(k) + benc(v) for k, v in items) + b"e"


def skip(b, i):
    c = b[i:i + 1]
    if c == b"i":
        return b.index(b"e", i) + 1
    if c in (b"l", b"d"):
        i += 1
        while b[i:i + 1] != b"e":
            i = skip(b, i)
        return i + 1
    j = b.index(b":", i)
    return j + 1 + int(b[i:j])


def raw_info(path):
    data = open(path, "rb").read()
    i = 1
    while data[i:i + 1] != b"e":
        j = skip(data, i)
        key = data[data.index(b":", i) + 1:j]
        k = skip(data, j)
        if key == b"info":
            return data[j:k]
        i = k
    raise KeyError("info")


def main():
    import torrentfile
    here = os.fsencode(os.path.dirname(os.path.abspath(__file__)))
    top = tempfile.mkdtemp(prefix=b"f3-", dir=here)
    bad = False
    try:
        trees = {}
        for label, parent in (("ascii parent", b"ok"), ("0xE9 parent ", b"\xe9")):
            tree = os.path.join(top, parent, b"tree")
            os.makedirs(tree)
            with open(os.path.join(tree, b"a.txt"), "wb") as fd:
                fd.write(DATA)
            trees[label] = tree
        out = os.path.join(top, b"out.torrent")
        exp = benc({"name": "tree", "piece length": PLEN,
                    "files": [{"length": len(DATA), "path": ["a.txt"]}],
                    "pieces": hashlib.sha1(DATA).digest()})
        exp_hash = hashlib.sha1(exp).hexdigest()
        env = dict(os.environ)
        env["PYTHONPATH"] = os.path.dirname(os.path.dirname(
            torrentfile.__file__))
        env["PYTHONIOENCODING"] = "utf-8:strict"
        env["COLUMNS"] = "300"
        exe = os.fsencode(sys.executable)
        for label, tree in trees.items():
            for mode in ([b"--prog", b"0"], [b"--prog", b"1"],
                         [b"--prog", b"2"], [b"-q"]):
                pre = [b"-q"] if mode == [b"-q"] else []
                post = [] if mode == [b"-q"] else mode
                if os.path.exists(out):
                    os.remove(out)
                proc = subprocess.run(
                    [exe, b"-m", b"torrentfile"] + pre +
                    [b"create", b"--piece-length", b"%d" % PLEN] + post +
                    [b"-o", out, tree],
                    cwd=top, env=env, capture_output=True)
                what = b" ".join(mode).decode()
                if proc.returncode or not os.path.exists(out):
                    err = proc.stderr.decode("utf-8", "replace")
                    err = err.strip().splitlines()[-1:]
                    print(f"{label} {what:9} expected {exp_hash[:16]}  "
                          f"got: exit {proc.returncode}, no metafile; {err}")
                    bad = True
                    continue
                got = hashlib.sha1(raw_info(out)).hexdigest()
                ok = got == exp_hash
                bad |= not ok
                print(f"{label} {what:9} expected {exp_hash[:16]}  "
                      f"got {got[:16]}  {'ok' if ok else 'MISMATCH'}")
    finally:
        shutil.rmtree(top, ignore_errors=True)
    if bad:
        print("VIOLATION: the same tree and options succeed or crash "
              "depending on the payload's location and the progress mode.")
        return 1
    print("property holds")
    return 0


if __name__ == "__main__":
    sys.exit(main())
