#!/usr/bin/env python3
"""
C08 finding 2: whether a metafile (and so an info-hash) is produced at all
depends on the working directory / output directory: if that directory
happens to contain a sub-directory called ".torrent", `create` aborts with
IsADirectoryError before a single byte is hashed.

    T/pay/a.txt                 <- the payload
    T/w1/                       <- working directory 1 (empty)
    T/w2/.torrent/              <- working directory 2 (has a dir ".torrent")

`torrentfile create T/pay` (no -o: the metafile goes to <cwd>/pay.torrent)
works from w1 and crashes from w2.  The same happens with `-o T/w2/`.
Nothing named ".torrent" is ever meant to be written: the file that will be
written is pay.torrent.

Oracle: own bencode encoder/decoder + hashlib.
Run with PYTHONPATH=/tmp/hunt-C08 .  Exit 1 = property violated, 0 = holds.
"""
import hashlib
import os
import shutil
import subprocess
import sys
import tempfile

PLEN = 16384
DATA = b"hello"


def benc(x):
    if isinstance(x, int):
        return b"i%de" % x
    if isinstance(x, str):
        x = x.encode("utf-8")
    if isinstance(x, bytes):
        return b"%d:%s" % (len(x), x)
    if isinstance(x, list):
        return b"l" + b"".join(benc(i) for i in x) + b"e"
    items = sorted((k.encode("utf-8"), v) for k, v in x.items())
    return b"d" + b"".join(benc(k) + benc(v) for k, v in items) + b"e"


def skip(b, i):
    c = b[i:i + 1]
    if c == b"i":
        return b.index(b"e", i) + 1
    if c in (b"l", b"d"):
        i += 1
        while b[i:i + 1] != b"e":
            i = skip(b, i)
        return i + 1
    j = b.index(b":", i)
    return j + 1 + int(b[i:j])


def raw_info(path):
    data = open(path, "rb").read()
    i = 1
    while data[i:i + 1] != b"e":
        j = skip(data, i)
        key = data[data.index(b":", i) + 1:j]
        k = skip(data, j)
        if key == b"info":
            return data[j:k]
        i = k
    raise KeyError("info")


def main():
    import torrentfile
    here = os.path.dirname(os.path.abspath(__file__))
    top = tempfile.mkdtemp(prefix="f2-", dir=here)
    bad = False
    try:
        pay = os.path.join(top, "pay")
        w1 = os.path.join(top, "w1")
        w2 = os.path.join(top, "w2")
        os.makedirs(pay)
        os.makedirs(w1)
        os.makedirs(os.path.join(w2, ".torrent"))
        with open(os.path.join(pay, "a.txt"), "wb") as fd:
            fd.write(DATA)
        exp = benc({"name": "pay", "piece length": PLEN,
                    "files": [{"length": len(DATA), "path": ["a.txt"]}],
                    "pieces": hashlib.sha1(DATA).digest()})
        exp_hash = hashlib.sha1(exp).hexdigest()
        env = dict(os.environ)
        env["PYTHONPATH"] = os.path.dirname(os.path.dirname(
            torrentfile.__file__))
        base = [sys.executable, "-m", "torrentfile", "create",
                "--piece-length", str(PLEN), "--prog", "0"]
        runs = [
            ("cwd=w1, no -o      ", w1, [pay], os.path.join(w1, "pay.torrent")),
            ("cwd=w2, no -o      ", w2, [pay], os.path.join(w2, "pay.torrent")),
            ("cwd=w1, -o <w1>/   ", w1, ["-o", w1 + "/", pay],
             os.path.join(w1, "pay.torrent")),
            ("cwd=w1, -o <w2>/   ", w1, ["-o", w2 + "/", pay],
             os.path.join(w2, "pay.torrent")),
        ]
        for label, cwd, args, out in runs:
            if os.path.exists(out):
                os.remove(out)
            proc = subprocess.run(base + args, cwd=cwd, env=env,
                                  capture_output=True)
            if proc.returncode or not os.path.exists(out):
                err = proc.stderr.decode().strip().splitlines()[-1:]
                print(f"{label} expected info-hash {exp_hash[:16]}  "
                      f"got: exit {proc.returncode}, no metafile; {err}")
                bad = True
                continue
            got = hashlib.sha1(raw_info(out)).hexdigest()
            ok = got == exp_hash
            bad |= not ok
            print(f"{label} expected info-hash {exp_hash[:16]}  "
                  f"got {got[:16]}  {'ok' if ok else 'MISMATCH'}")
    finally:
        shutil.rmtree(top, ignore_errors=True)
    if bad:
        print("VIOLATION: the same payload and options give a metafile in one "
              "working/output directory and an IsADirectoryError in another.")
        return 1
    print("property holds")
    return 0


if __name__ == "__main__":
    sys.exit(main())
