#!/usr/bin/env python3
"""
C08 finding 1: the info name (hence the info-hash) depends on how the payload
path is spelled when the spelling ends in ".." behind a symbolic link.

    T/real/            <- the payload (a.txt, sub/b.txt)
    T/other/link  ->  T/real/sub

From cwd T/other the spellings  "../real"  and  "link/.."  denote the same
directory (os.path.samefile agrees).  The tool names the second torrent
"other" - the working directory, which is not the payload at all.

Oracle: own bencode decoder/encoder + hashlib; the expected info dictionary is
built by this script from the bytes on disk.
Run with PYTHONPATH=/tmp/hunt-C08 .  Exit 1 = property violated, 0 = holds.
"""
import hashlib
import os
import shutil
import subprocess
import sys
import tempfile

PLEN = 16384
DATA = b"hello"
DATB = b"world!"


def benc(x):
    if isinstance(x, int):
        return b"i%de" % x
    if isinstance(x, str):
        x = x.encode("utf-8")
    if isinstance(x, bytes):
        return b"%d:%s" % (len(x), x)
    if isinstance(x, list):
        return b"l" + b"".join(benc(i) for i in x) + b"e"
    items = sorted((k.encode("utf-8"), v) for k, v in x.items())
    return b"d" + b"".join(benc(k) + benc(v) for k, v in items) + b"e"


def skip(b, i):
    """Return the index just behind the bencoded value starting at i."""
    c = b[i:i + 1]
    if c == b"i":
        return b.index(b"e", i) + 1
    if c in (b"l", b"d"):
        i += 1
        while b[i:i + 1] != b"e":
            i = skip(b, i)
        return i + 1
    j = b.index(b":", i)
    return j + 1 + int(b[i:j])


def raw_info(path):
    data = open(path, "rb").read()
    i = 1
    while data[i:i + 1] != b"e":
        j = skip(data, i)
        key = data[data.index(b":", i) + 1:j]
        k = skip(data, j)
        if key == b"info":
            return data[j:k]
        i = k
    raise KeyError("info")


def expected_info(version):
    info = {"name": "real", "piece length": PLEN}
    if version == "1":
        info["files"] = [{"length": len(DATA), "path": ["a.txt"]},
                         {"length": len(DATB), "path": ["sub", "b.txt"]}]
        info["pieces"] = hashlib.sha1(DATA + DATB).digest()
    else:
        info["meta version"] = 2
        info["file tree"] = {
            "a.txt": {"": {"length": len(DATA),
                           "pieces root": hashlib.sha256(DATA).digest()}},
            "sub": {"b.txt": {"": {
                "length": len(DATB),
                "pieces root": hashlib.sha256(DATB).digest()}}}}
    return benc(info)


def main():
    import torrentfile
    here = os.path.dirname(os.path.abspath(__file__))
    top = tempfile.mkdtemp(prefix="f1-", dir=here)
    bad = False
    try:
        real = os.path.join(top, "real")
        other = os.path.join(top, "other")
        os.makedirs(os.path.join(real, "sub"))
        os.makedirs(other)
        with open(os.path.join(real, "a.txt"), "wb") as fd:
            fd.write(DATA)
        with open(os.path.join(real, "sub", "b.txt"), "wb") as fd:
            fd.write(DATB)
        os.symlink(os.path.join(real, "sub"), os.path.join(other, "link"))
        out = os.path.join(top, "out.torrent")
        env = dict(os.environ)
        env["PYTHONPATH"] = os.path.dirname(os.path.dirname(
            torrentfile.__file__))
        for version in ("1", "2"):
            exp = expected_info(version)
            exp_hash = (hashlib.sha1 if version == "1" else hashlib.sha256)
            for spelling in ("../real", "link/..", "link/../"):
                same = os.path.samefile(os.path.join(other, spelling), real)
                if os.path.exists(out):
                    os.remove(out)
                proc = subprocess.run(
                    [sys.executable, "-m", "torrentfile", "create",
                     "--meta-version", version, "--piece-length", str(PLEN),
                     "--prog", "0", "-o", out, spelling],
                    cwd=other, env=env, capture_output=True)
                if proc.returncode or not os.path.exists(out):
                    print(f"v{version} {spelling!r}: create failed:",
                          proc.stderr.decode()[-200:])
                    bad = True
                    continue
                got = raw_info(out)
                ok = got == exp
                bad |= not ok
                name = got[got.index(b"4:name") + 6:][:12]
                print(f"v{version} cwd=other spelling={spelling!r:11} "
                      f"samefile(real)={same} "
                      f"expected={exp_hash(exp).hexdigest()[:16]} "
                      f"got={exp_hash(got).hexdigest()[:16]} "
                      f"{'ok' if ok else 'MISMATCH name field: ' + repr(name)}")
    finally:
        shutil.rmtree(top, ignore_errors=True)
    if bad:
        print("VIOLATION: two spellings of the same directory give different "
              "info dictionaries (expected name 'real' for both).")
        return 1
    print("property holds")
    return 0


if __name__ == "__main__":
    sys.exit(main())
