#!/usr/bin/env python
"""
C17 finding 1: an edit request whose value cannot be bencoded (a bool) is not
rejected; the previous metafile is replaced by bytes that are not bencode at
all, so the path holds neither the complete previous nor a complete edited
metafile.

Run:  PYTHONPATH=/tmp/hunt-C17 /venv/bin/python finding1.py
exit 1 = property violated, exit 0 = property holds.
"""
import hashlib
import os
import shutil
import sys
import tempfile

from torrentfile.edit import edit_torrent


# ---------- independent strict bencode codec (stdlib only) -----------------
def benc(obj) -> bytes:
    if isinstance(obj, bytes):
        return str(len(obj)).encode() + b":" + obj
    if isinstance(obj, str):
        return benc(obj.encode("utf-8"))
    if isinstance(obj, int) and not isinstance(obj, bool):
        return b"i%de" % obj
    if isinstance(obj, list):
        return b"l" + b"".join(benc(i) for i in obj) + b"e"
    if isinstance(obj, dict):
        items = sorted((k.encode() if isinstance(k, str) else k, v)
                       for k, v in obj.items())
        return b"d" + b"".join(benc(k) + benc(v) for k, v in items) + b"e"
    raise TypeError(obj)


def bdec(data: bytes):
    def parse(i):
        c = data[i:i + 1]
        if c == b"i":
            j = data.index(b"e", i)
            body = data[i + 1:j]
            if not (body.lstrip(b"-").isdigit()):
                raise ValueError(f"bad integer {body!r} at offset {i}")
            return int(body), j + 1
        if c.isdigit():
            j = data.index(b":", i)
            n = int(data[i:j])
            if j + 1 + n > len(data):
                raise ValueError(f"string overruns data at offset {i}")
            return data[j + 1:j + 1 + n], j + 1 + n
        if c == b"l":
            out, i = [], i + 1
            while data[i:i + 1] != b"e":
                val, i = parse(i)
                out.append(val)
            return out, i + 1
        if c == b"d":
            out, i = {}, i + 1
            while data[i:i + 1] != b"e":
                key, i = parse(i)
                if not isinstance(key, bytes):
                    raise ValueError(f"non-string dict key at offset {i}")
                val, i = parse(i)
                out[key] = val
            return out, i + 1
        raise ValueError(f"unexpected byte {c!r} at offset {i}")

    obj, end = parse(0)
    if end != len(data):
        raise ValueError("trailing data")
    return obj


def is_complete_metafile(data: bytes):
    """Return (True, decoded) if data is a decodable v1 metafile."""
    try:
        meta = bdec(data)
    except (ValueError, IndexError) as err:
        return False, f"not bencode: {err}"
    if not isinstance(meta, dict) or not isinstance(meta.get(b"info"), dict):
        return False, "no info dict"
    for key in (b"name", b"piece length", b"pieces", b"length"):
        if key not in meta[b"info"]:
            return False, f"info lacks {key!r}"
    return True, meta


def main() -> int:
    tmp = tempfile.mkdtemp(prefix="c17f1-")
    violations = 0
    try:
        original = benc({
            "announce": "http://tracker.example/announce",
            "info": {
                "length": 3,
                "name": "a",
                "piece length": 16384,
                "pieces": hashlib.sha1(b"abc").digest(),
            },
        })
        assert is_complete_metafile(original)[0]

        requests = [
            {"comment": True},     # minimal
            {"source": False},
            {"announce": [True]},  # same root cause, list-valued option
        ]
        for request in requests:
            shown = dict(request)
            path = os.path.join(tmp, "m.torrent")
            with open(path, "wb") as fd:
                fd.write(original)
            try:
                edit_torrent(path, request)
                outcome = "returned normally"
            except BaseException as err:  # pylint: disable=broad-except
                outcome = f"raised {type(err).__name__}: {err}"
            with open(path, "rb") as fd:
                after = fd.read()
            ok, detail = is_complete_metafile(after)
            print(f"request {shown!r}: edit_torrent {outcome}")
            if after == original:
                print("   metafile path holds the complete previous metafile"
                      " (fine)")
            elif ok:
                print("   metafile path holds a complete, decodable edited "
                      "metafile (fine)")
            else:
                violations += 1
                print("   EXPECTED: bencode has no boolean type, so the value "
                      "cannot be encoded -> the edit must fail and leave the "
                      "original metafile (or write a decodable one)")
                print(f"   OBSERVED: the original is gone and the path now "
                      f"holds {len(after)} bytes that are {detail}")
                print(f"   content: {after!r}")
    finally:
        shutil.rmtree(tmp, ignore_errors=True)

    if violations:
        print(f"\nC17 VIOLATED for {violations} request(s): the previous "
              "metafile was lost and replaced by undecodable bytes.")
        return 1
    print("\nC17 holds for the probed requests.")
    return 0


if __name__ == "__main__":
    sys.exit(main())
