#!/usr/bin/env python
"""C02 finding 2: one dangling symlink in the content directory.

content/f         1 byte  b"x"
content/dangling  -> "nonexistent"   (a symlink whose target does not exist)

The only file of the content tree is f.
Expected: a metafile whose file tree has exactly one file entry,
          f -> {length 1, pieces root sha256(b"x")}; piece layers {}.
Observed: every v2 / hybrid creator raises MissingPathError (message None)
          and writes nothing.

Run: PYTHONPATH=/tmp/hunt-C02 /venv/bin/python finding2.py   (exit 1 = violated)
"""
import contextlib
import hashlib
import io
import os
import shutil
import sys
import tempfile


def bdecode(data):
    def dec(i):
        c = data[i:i + 1]
        if c == b"i":
            j = data.index(b"e", i)
            return int(data[i + 1:j]), j + 1
        if c == b"l":
            i += 1
            out = []
            while data[i:i + 1] != b"e":
                v, i = dec(i)
                out.append(v)
            return out, i + 1
        if c == b"d":
            i += 1
            out = {}
            while data[i:i + 1] != b"e":
                k, i = dec(i)
                v, i = dec(i)
                out[k] = v
            return out, i + 1
        j = data.index(b":", i)
        n = int(data[i:j])
        return data[j + 1:j + 1 + n], j + 1 + n
    return dec(0)[0]


def leaves(tree, prefix=()):
    """file entries of a BEP 52 file tree: {path tuple: properties}"""
    out = {}
    for key, val in tree.items():
        if key == b"":
            out[prefix] = val
        else:
            out.update(leaves(val, prefix + (key,)))
    return out


def main():
    from torrentfile.torrent import (TorrentAssembler, TorrentFileHybrid,
                                     TorrentFileV2)
    tmp = tempfile.mkdtemp(prefix="c02f2_")
    failed = False
    try:
        root = os.path.join(tmp, "content")
        os.mkdir(root)
        with open(os.path.join(root, "f"), "wb") as fd:
            fd.write(b"x")
        os.symlink("nonexistent", os.path.join(root, "dangling"))
        # independent view of the content: regular files reachable from root
        fs_files = {}
        for dpath, _, fnames in os.walk(root, followlinks=True):
            for fname in fnames:
                full = os.path.join(dpath, fname)
                if os.path.isfile(full):
                    rel = tuple(os.fsencode(p) for p in
                                os.path.relpath(full, root).split(os.sep))
                    with open(full, "rb") as fd:
                        fs_files[rel] = fd.read()
        expected = {
            rel: {b"length": len(data),
                  b"pieces root": hashlib.sha256(data).digest()}
            for rel, data in fs_files.items()
        }
        print("content tree : content/f (1 byte), content/dangling -> "
              "nonexistent")
        print("expected     : file entries %r, piece layers {}" % expected)
        creators = [
            ("TorrentFileV2", TorrentFileV2, {}),
            ("TorrentFileHybrid", TorrentFileHybrid, {}),
            ("TorrentAssembler v2", TorrentAssembler, {"meta_version": "2"}),
            ("TorrentAssembler hybrid", TorrentAssembler,
             {"meta_version": "3"}),
        ]
        for label, cls, kws in creators:
            out = os.path.join(tmp, "out.torrent")
            if os.path.exists(out):
                os.remove(out)
            try:
                with contextlib.redirect_stdout(io.StringIO()):
                    cls(path=root, piece_length=16384, outfile=out,
                        progress=0, **kws).write()
            except Exception as exc:  # pylint: disable=broad-except
                failed = True
                print("observed     : %-24s raised %s: %s" %
                      (label, type(exc).__name__, exc))
                continue
            with open(out, "rb") as fd:
                meta = bdecode(fd.read())
            got = leaves(meta[b"info"][b"file tree"])
            layers = meta.get(b"piece layers")
            if got != expected or layers != {}:
                failed = True
                print("observed     : %-24s entries %r layers %r" %
                      (label, got, layers))
            else:
                print("observed     : %-24s ok" % label)
    finally:
        shutil.rmtree(tmp, ignore_errors=True)
    print("RESULT:", "PROPERTY VIOLATED" if failed else "property holds")
    return 1 if failed else 0


if __name__ == "__main__":
    sys.exit(main())
