#!/usr/bin/env python
"""C02 finding 1: a content tree with a file name that is not valid UTF-8.

BEP 52, "file tree": keys are path elements; "Keys may contain invalid UTF-8
sequences" - only names whose native encoding is known must be converted.
On Linux a file name is a byte string; b"\\xff.bin" is a perfectly good name.

Expected: every v2 / hybrid creator writes a metafile whose file tree is
          {b"\\xff.bin": {b"": {length: 1, pieces root: sha256(b"x")}}}
          and whose piece layers dict is empty.
Observed: UnicodeEncodeError, no metafile.

Run: PYTHONPATH=/tmp/hunt-C02 /venv/bin/python finding1.py   (exit 1 = violated)
"""
import contextlib
import hashlib
import io
import os
import shutil
import sys
import tempfile


def bdecode(data):
    def dec(i):
        c = data[i:i + 1]
        if c == b"i":
            j = data.index(b"e", i)
            return int(data[i + 1:j]), j + 1
        if c == b"l":
            i += 1
            out = []
            while data[i:i + 1] != b"e":
                v, i = dec(i)
                out.append(v)
            return out, i + 1
        if c == b"d":
            i += 1
            out = {}
            while data[i:i + 1] != b"e":
                k, i = dec(i)
                v, i = dec(i)
                out[k] = v
            return out, i + 1
        j = data.index(b":", i)
        n = int(data[i:j])
        return data[j + 1:j + 1 + n], j + 1 + n
    return dec(0)[0]


def main():
    from torrentfile.torrent import (TorrentAssembler, TorrentFileHybrid,
                                     TorrentFileV2)
    name = b"\xff.bin"
    tmp = tempfile.mkdtemp(prefix="c02f1_")
    failed = False
    try:
        root = os.path.join(tmp, "content")
        os.mkdir(root)
        try:
            with open(os.path.join(os.fsencode(root), name), "wb") as fd:
                fd.write(b"x")
        except OSError as exc:
            print("SKIP: filesystem refuses non-UTF-8 names:", exc)
            return 0
        expected_tree = {
            name: {b"": {b"length": 1,
                         b"pieces root": hashlib.sha256(b"x").digest()}}
        }
        print("content tree : content/%r (1 byte)" % name)
        print("expected     : file tree %r, piece layers {}" % expected_tree)
        creators = [
            ("TorrentFileV2", TorrentFileV2, {}),
            ("TorrentFileHybrid", TorrentFileHybrid, {}),
            ("TorrentAssembler v2", TorrentAssembler, {"meta_version": "2"}),
            ("TorrentAssembler hybrid", TorrentAssembler,
             {"meta_version": "3"}),
        ]
        for label, cls, kws in creators:
            out = os.path.join(tmp, "out.torrent")
            if os.path.exists(out):
                os.remove(out)
            try:
                with contextlib.redirect_stdout(io.StringIO()):
                    cls(path=root, piece_length=16384, outfile=out,
                        progress=0, **kws).write()
            except Exception as exc:  # pylint: disable=broad-except
                failed = True
                print("observed     : %-24s raised %s: %s" %
                      (label, type(exc).__name__, exc))
                continue
            with open(out, "rb") as fd:
                meta = bdecode(fd.read())
            tree = meta[b"info"][b"file tree"]
            layers = meta.get(b"piece layers")
            if tree != expected_tree or layers != {}:
                failed = True
                print("observed     : %-24s tree %r layers %r" %
                      (label, tree, layers))
            else:
                print("observed     : %-24s ok" % label)
    finally:
        shutil.rmtree(tmp, ignore_errors=True)
    print("RESULT:", "PROPERTY VIOLATED" if failed else "property holds")
    return 1 if failed else 0


if __name__ == "__main__":
    sys.exit(main())
