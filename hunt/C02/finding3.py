#!/usr/bin/env python
"""C02 finding 3: v2 / hybrid creation aborts when stdout cannot encode U+2588.

Environment: the process' stdout encoding is not UTF-8 (here forced with
PYTHONIOENCODING=ascii; the same happens with latin-1, or with
LC_ALL=C PYTHONUTF8=0 PYTHONCOERCECLOCALE=0, or any ISO-8859-x locale).
Input: content/f = 1 byte b"x";  torrentfile create --meta-version {2,3}
with the DEFAULT progress mode (1) - nothing else.

Expected: exit status 0 and a metafile whose file tree is
          {f: {"": {length 1, pieces root sha256(b"x")}}}, piece layers {}.
Observed: UnicodeEncodeError from the progress bar, exit status 1, no
          metafile.  (--prog 0 in the same environment works.)

Run: PYTHONPATH=/tmp/hunt-C02 /venv/bin/python finding3.py   (exit 1 = violated)
"""
import hashlib
import os
import shutil
import subprocess
import sys
import tempfile


def bdecode(data):
    def dec(i):
        c = data[i:i + 1]
        if c == b"i":
            j = data.index(b"e", i)
            return int(data[i + 1:j]), j + 1
        if c == b"l":
            i += 1
            out = []
            while data[i:i + 1] != b"e":
                v, i = dec(i)
                out.append(v)
            return out, i + 1
        if c == b"d":
            i += 1
            out = {}
            while data[i:i + 1] != b"e":
                k, i = dec(i)
                v, i = dec(i)
                out[k] = v
            return out, i + 1
        j = data.index(b":", i)
        n = int(data[i:j])
        return data[j + 1:j + 1 + n], j + 1 + n
    return dec(0)[0]


def main():
    import torrentfile
    pkg_parent = os.path.dirname(os.path.dirname(torrentfile.__file__))
    tmp = tempfile.mkdtemp(prefix="c02f3_")
    failed = False
    try:
        root = os.path.join(tmp, "content")
        os.mkdir(root)
        with open(os.path.join(root, "f"), "wb") as fd:
            fd.write(b"x")
        expected_tree = {
            b"f": {b"": {b"length": 1,
                         b"pieces root": hashlib.sha256(b"x").digest()}}
        }
        env = dict(os.environ)
        env["PYTHONPATH"] = pkg_parent
        env["PYTHONIOENCODING"] = "ascii"
        print("environment  : PYTHONIOENCODING=ascii (stdout is not UTF-8)")
        print("expected     : exit 0, file tree %r, piece layers {}" %
              expected_tree)
        for version in ("2", "3"):
            for prog in (None, "0"):
                out = os.path.join(tmp, "out.torrent")
                if os.path.exists(out):
                    os.remove(out)
                cmd = [sys.executable, "-m", "torrentfile", "create",
                       "--meta-version", version, "-o", out, root]
                if prog is not None:
                    cmd += ["--prog", prog]
                label = "--meta-version %s %s" % (
                    version, "(default --prog 1)" if prog is None
                    else "--prog 0 (control)")
                proc = subprocess.run(cmd, env=env, cwd=tmp,
                                      capture_output=True, check=False)
                if proc.returncode != 0 or not os.path.exists(out):
                    if prog is None:
                        failed = True
                    last = proc.stderr.decode("ascii", "replace").strip()
                    last = last.splitlines()[-1] if last else ""
                    print("observed     : %-38s exit %d, metafile written: %s"
                          % (label, proc.returncode, os.path.exists(out)))
                    print("               %s" % last)
                    continue
                with open(out, "rb") as fd:
                    meta = bdecode(fd.read())
                tree = meta[b"info"][b"file tree"]
                layers = meta.get(b"piece layers")
                good = tree == expected_tree and layers == {}
                if not good and prog is None:
                    failed = True
                print("observed     : %-38s exit 0, tree/layers %s" %
                      (label, "ok" if good else "WRONG %r %r" %
                       (tree, layers)))
    finally:
        shutil.rmtree(tmp, ignore_errors=True)
    print("RESULT:", "PROPERTY VIOLATED" if failed else "property holds")
    return 1 if failed else 0


if __name__ == "__main__":
    sys.exit(main())
