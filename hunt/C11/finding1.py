#!/usr/bin/env python
"""
C11 finding 1: a metafile that went through the interactive editor (even with
no change requested) makes magnet() raise TypeError instead of producing a URI.

Run:  PYTHONPATH=/tmp/hunt-C11 /venv/bin/python finding1.py
exit 1 = property violated, exit 0 = not violated.
"""
import contextlib
import hashlib
import io
import os
import shutil
import sys
import tempfile
from urllib.parse import unquote_plus

from torrentfile import interactive
from torrentfile.commands import magnet
from torrentfile.torrent import TorrentFile

TRACKERS = ["http://t1.example/announce", "http://t2.example/announce"]


def bdecode(buf, i=0):
    """Independent bencode decoder: byte strings stay bytes."""
    c = buf[i:i + 1]
    if c == b"i":
        j = buf.index(b"e", i)
        return int(buf[i + 1:j]), j + 1
    if c == b"l":
        i += 1
        out = []
        while buf[i:i + 1] != b"e":
            val, i = bdecode(buf, i)
            out.append(val)
        return out, i + 1
    if c == b"d":
        i += 1
        out = {}
        while buf[i:i + 1] != b"e":
            key, i = bdecode(buf, i)
            start = i
            val, i = bdecode(buf, i)
            out[key] = val
            if key == b"info":
                out["__info_span__"] = (start, i)
        return out, i + 1
    j = buf.index(b":", i)
    n = int(buf[i:j])
    return buf[j + 1:j + 1 + n], j + 1 + n


def flat(x):
    """All byte strings below x, in file order, whatever the nesting."""
    if isinstance(x, bytes):
        return [x]
    return [s for item in x for s in flat(item)]


def main():
    tmp = tempfile.mkdtemp(prefix="c11f1-")
    try:
        content = os.path.join(tmp, "payload.bin")
        with open(content, "wb") as fd:
            fd.write(b"x" * 100)
        metafile = os.path.join(tmp, "payload.torrent")
        sink = io.StringIO()
        with contextlib.redirect_stdout(sink), contextlib.redirect_stderr(sink):
            TorrentFile(path=content, announce=list(TRACKERS),
                        outfile=metafile, progress=0).write()
            before = magnet(metafile)
        print("magnet before interactive edit :", before)

        # interactive session: (e)dit, <metafile>, DONE  -> no change requested
        old_stdin = sys.stdin
        sys.stdin = io.StringIO(f"e\n{metafile}\ndone\n")
        try:
            with contextlib.redirect_stdout(sink):
                interactive.select_action()
        finally:
            sys.stdin = old_stdin

        raw = open(metafile, "rb").read()
        meta, _ = bdecode(raw)
        a, b = meta["__info_span__"]
        want_hash = hashlib.sha1(raw[a:b]).hexdigest()
        want_tr = [u.decode() for u in flat(meta.get(b"announce-list", []))]
        print("file after edit, announce       :", meta.get(b"announce"))
        print("file after edit, announce-list  :", meta.get(b"announce-list"))
        print("expected: magnet with btih", want_hash, "and tr =", want_tr)
        try:
            with contextlib.redirect_stdout(sink):
                uri = magnet(metafile)
        except Exception as exc:  # pylint: disable=broad-except
            print("observed: magnet() raised", repr(exc))
            return 1
        got_tr = [unquote_plus(p[3:]) for p in uri.split("&")
                  if p.startswith("tr=")]
        print("observed:", uri)
        if got_tr != want_tr or ("urn:btih:" + want_hash) not in uri:
            return 1
        print("no violation")
        return 0
    finally:
        shutil.rmtree(tmp, ignore_errors=True)


if __name__ == "__main__":
    sys.exit(main())
