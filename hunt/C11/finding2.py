#!/usr/bin/env python
"""
C11 finding 2: a metafile whose only tracker is in `announce`, and which also
carries an `announce-list` without any URL in it (empty list, or one empty
tier), gets a magnet URI without any tr parameter.

Run:  PYTHONPATH=/tmp/hunt-C11 /venv/bin/python finding2.py
exit 1 = property violated, exit 0 = not violated.
"""
import contextlib
import hashlib
import io
import os
import shutil
import sys
import tempfile
from urllib.parse import unquote_plus

from torrentfile.commands import magnet

TRACKER = "http://tracker.example/announce?a=1&b=2"


def benc(x):
    """Independent reference bencoder (sorted raw-byte keys)."""
    if isinstance(x, int):
        return b"i%de" % x
    if isinstance(x, str):
        x = x.encode("utf-8")
    if isinstance(x, bytes):
        return b"%d:%s" % (len(x), x)
    if isinstance(x, list):
        return b"l" + b"".join(benc(i) for i in x) + b"e"
    if isinstance(x, dict):
        items = sorted((k.encode("utf-8"), v) for k, v in x.items())
        return b"d" + b"".join(benc(k) + benc(v) for k, v in items) + b"e"
    raise TypeError(x)


def main():
    info = {
        "length": 1,
        "name": "payload.bin",
        "piece length": 16384,
        "pieces": hashlib.sha1(b"x").digest(),
    }
    want_hash = hashlib.sha1(benc(info)).hexdigest()
    bad = 0
    tmp = tempfile.mkdtemp(prefix="c11f2-")
    try:
        for label, alist in (("announce-list = []", []),
                             ("announce-list = [[]]", [[]]),
                             ("no announce-list (control)", None)):
            meta = {"announce": TRACKER, "info": info}
            if alist is not None:
                meta["announce-list"] = alist
            path = os.path.join(tmp, "t.torrent")
            with open(path, "wb") as fd:
                fd.write(benc(meta))
            with contextlib.redirect_stdout(io.StringIO()):
                uri = magnet(path)
            got_tr = [unquote_plus(p[3:]) for p in uri.split("&")
                      if p.startswith("tr=")]
            ok_hash = ("xt=urn:btih:" + want_hash) in uri
            print(f"{label}\n  expected tr = {[TRACKER]}\n  observed tr = "
                  f"{got_tr}   (info-hash ok: {ok_hash})\n  {uri}")
            if got_tr != [TRACKER] or not ok_hash:
                bad += 1
    finally:
        shutil.rmtree(tmp, ignore_errors=True)
    if bad:
        print(f"VIOLATION: {bad} metafile(s) lost their tracker in the magnet")
        return 1
    print("no violation")
    return 0


if __name__ == "__main__":
    sys.exit(main())
