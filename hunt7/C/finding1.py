#!/usr/bin/env python
"""
finding1 (dd89ae4, INCOMPLETE): an interactive edit that only changes the
comment (or changes nothing at all) still rewrites the trackers: the tiers of
announce-list are merged into one tier and `announce` is overwritten with the
first announce-list url, so a tracker that was only in `announce` disappears.

Oracle: own bencode encoder/decoder; the top-level dictionary before and
after the edit is compared key by key.
exit 1 = problem present, exit 0 = not present.
"""
import io
import os
import shutil
import sys
import tempfile


def benc(o):
    if isinstance(o, bytes):
        return str(len(o)).encode() + b":" + o
    if isinstance(o, str):
        return benc(o.encode("utf-8"))
    if isinstance(o, int):
        return b"i%de" % o
    if isinstance(o, list):
        return b"l" + b"".join(benc(i) for i in o) + b"e"
    if isinstance(o, dict):
        items = sorted((k.encode() if isinstance(k, str) else k, v)
                       for k, v in o.items())
        return b"d" + b"".join(benc(k) + benc(v) for k, v in items) + b"e"
    raise TypeError(o)


def bdec(b, i=0):
    c = b[i:i + 1]
    if c == b"i":
        j = b.index(b"e", i)
        return int(b[i + 1:j]), j + 1
    if c == b"l":
        i += 1
        out = []
        while b[i:i + 1] != b"e":
            v, i = bdec(b, i)
            out.append(v)
        return out, i + 1
    if c == b"d":
        i += 1
        out = {}
        while b[i:i + 1] != b"e":
            k, i = bdec(b, i)
            v, i = bdec(b, i)
            out[k] = v
        return out, i + 1
    j = b.index(b":", i)
    n = int(b[i:j])
    return b[j + 1:j + 1 + n], j + 1 + n


def interactive_edit(path, answers):
    from torrentfile import interactive
    old_in, old_out = sys.stdin, sys.stdout
    sys.stdin = io.StringIO("".join(a + "\n" for a in answers))
    sys.stdout = io.StringIO()
    try:
        interactive.select_action()
    finally:
        sys.stdin, sys.stdout = old_in, old_out


def main():
    info = {"length": 3, "name": "n", "piece length": 16384,
            "pieces": b"\x00" * 20}
    meta = {
        "announce": "http://primary.example/announce",
        "announce-list": [["http://t1.example/announce"],
                          ["http://t2.example/announce"]],
        "info": info,
    }
    tmp = tempfile.mkdtemp(prefix="finding1-")
    try:
        bad = 0
        for label, answers in (
            ("nothing edited", ["done"]),
            ("comment only", ["1", "hello", "done"]),
        ):
            path = os.path.join(tmp, "t.torrent")
            with open(path, "wb") as fd:
                fd.write(benc(meta))
            before = bdec(benc(meta))[0]
            interactive_edit(path, ["e", path] + answers)
            with open(path, "rb") as fd:
                after = bdec(fd.read())[0]
            for key in (b"announce", b"announce-list"):
                if before.get(key) != after.get(key):
                    bad = 1
                    print(f"[{label}] {key.decode()} was not edited")
                    print(f"   expected: {before.get(key)!r}")
                    print(f"   observed: {after.get(key)!r}")
        return bad
    finally:
        shutil.rmtree(tmp, ignore_errors=True)


if __name__ == "__main__":
    sys.exit(main())
