#!/usr/bin/env python
"""
finding3 (aaff1df / 74b6a0b, INCOMPLETE): the check is specific to `bool`, but
the cause - pyben writes every int subclass as 'i' + str(value) + 'e' - applies
to any int subclass whose str() is not a decimal number.  The common
`class Level(int, Enum)` idiom is written as 'iLevel.HIGHe': edit_torrent
returns normally and the metafile has been replaced by undecodable bytes.

Oracle: own strict bencode decoder + byte snapshot of the original.
Accepted outcomes: an exception with the original bytes still in place, or a
file that decodes.  exit 1 = problem present, exit 0 = not present.
"""
import enum
import os
import shutil
import sys
import tempfile


def bdec(b, i=0):
    c = b[i:i + 1]
    if c == b"i":
        j = b.index(b"e", i)
        body = b[i + 1:j]
        digits = body[1:] if body[:1] == b"-" else body
        if not digits.isdigit():
            raise ValueError(f"integer {body!r} at offset {i}")
        return int(body), j + 1
    if c == b"l":
        i += 1
        out = []
        while b[i:i + 1] != b"e":
            if i >= len(b):
                raise ValueError("truncated")
            v, i = bdec(b, i)
            out.append(v)
        return out, i + 1
    if c == b"d":
        i += 1
        out = {}
        while b[i:i + 1] != b"e":
            if i >= len(b):
                raise ValueError("truncated")
            k, i = bdec(b, i)
            if not isinstance(k, bytes):
                raise ValueError(f"key {k!r} is not a string")
            v, i = bdec(b, i)
            out[k] = v
        return out, i + 1
    if c.isdigit():
        j = b.index(b":", i)
        n = int(b[i:j])
        if j + 1 + n > len(b):
            raise ValueError("truncated")
        return b[j + 1:j + 1 + n], j + 1 + n
    raise ValueError(f"unexpected byte {c!r} at offset {i}")


class Level(int, enum.Enum):
    LOW = 1
    HIGH = 2


ORIGINAL = (b"d8:announce8:http://a4:infod6:lengthi3e4:name1:n"
            b"12:piece lengthi16384e6:pieces20:" + b"\x00" * 20 + b"ee")


def main():
    from torrentfile.edit import edit_torrent
    bdec(ORIGINAL)
    tmp = tempfile.mkdtemp(prefix="finding3-")
    bad = 0
    try:
        for label, request in (
            ("int-mixin Enum as value", {"comment": Level.HIGH}),
            ("int-mixin Enum inside a list", {"url-list": [Level.HIGH]}),
        ):
            path = os.path.join(tmp, "t.torrent")
            with open(path, "wb") as fd:
                fd.write(ORIGINAL)
            try:
                edit_torrent(path, request)
                raised = None
            except Exception as err:  # pylint: disable=broad-except
                raised = err
            with open(path, "rb") as fd:
                now = fd.read()
            if raised is not None and now == ORIGINAL:
                continue
            try:
                _, end = bdec(now)
                if end != len(now):
                    raise ValueError("trailing bytes")
            except ValueError as err:
                bad = 1
                print(f"[{label}] edit_torrent(path, {request!r})")
                print("   expected: an error with the original left in place "
                      "(as for True), or a decodable metafile")
                print(f"   observed: raised={raised!r}; file no longer "
                      f"decodes ({err}): {now[:60]!r}...")
        return bad
    finally:
        shutil.rmtree(tmp, ignore_errors=True)


if __name__ == "__main__":
    sys.exit(main())
