#!/usr/bin/env python
"""
finding2 (dd89ae4, REGRESSION): a metafile whose announce-list is a plain list
of urls (not BEP 12 tiers - a malformed but readable file) is
shredded by any interactive edit: the new flattening iterates the characters
of every url, so announce becomes 'h' and announce-list one tier of single
characters.  At dd89ae4~1 the same session left a correct
announce / announce-list behind.

Oracle: own bencode encoder/decoder; every tracker string in the edited file
must be one of the original urls and every original url must still be there.
exit 1 = problem present, exit 0 = not present.
"""
import io
import os
import shutil
import sys
import tempfile


def benc(o):
    if isinstance(o, bytes):
        return str(len(o)).encode() + b":" + o
    if isinstance(o, str):
        return benc(o.encode("utf-8"))
    if isinstance(o, int):
        return b"i%de" % o
    if isinstance(o, list):
        return b"l" + b"".join(benc(i) for i in o) + b"e"
    if isinstance(o, dict):
        items = sorted((k.encode() if isinstance(k, str) else k, v)
                       for k, v in o.items())
        return b"d" + b"".join(benc(k) + benc(v) for k, v in items) + b"e"
    raise TypeError(o)


def bdec(b, i=0):
    c = b[i:i + 1]
    if c == b"i":
        j = b.index(b"e", i)
        return int(b[i + 1:j]), j + 1
    if c == b"l":
        i += 1
        out = []
        while b[i:i + 1] != b"e":
            v, i = bdec(b, i)
            out.append(v)
        return out, i + 1
    if c == b"d":
        i += 1
        out = {}
        while b[i:i + 1] != b"e":
            k, i = bdec(b, i)
            v, i = bdec(b, i)
            out[k] = v
        return out, i + 1
    j = b.index(b":", i)
    n = int(b[i:j])
    return b[j + 1:j + 1 + n], j + 1 + n


def interactive_edit(path, answers):
    from torrentfile import interactive
    old_in, old_out = sys.stdin, sys.stdout
    sys.stdin = io.StringIO("".join(a + "\n" for a in answers))
    sys.stdout = io.StringIO()
    try:
        interactive.select_action()
    finally:
        sys.stdin, sys.stdout = old_in, old_out


def main():
    info = {"length": 3, "name": "n", "piece length": 16384,
            "pieces": b"\x00" * 20}
    urls = ["http://t1.example/announce", "http://t2.example/announce"]
    meta = {"announce": urls[0], "announce-list": list(urls), "info": info}
    tmp = tempfile.mkdtemp(prefix="finding2-")
    try:
        path = os.path.join(tmp, "t.torrent")
        with open(path, "wb") as fd:
            fd.write(benc(meta))
        interactive_edit(path, ["e", path, "1", "hello", "done"])
        with open(path, "rb") as fd:
            after = bdec(fd.read())[0]

        def strings(obj):
            if isinstance(obj, bytes):
                yield obj.decode()
            elif isinstance(obj, list):
                for item in obj:
                    yield from strings(item)

        found = list(strings(after.get(b"announce-list", [])))
        announce = after.get(b"announce")
        ok = (sorted(set(found)) == sorted(urls) and len(found) == len(urls)
              and announce == urls[0].encode())
        if ok:
            return 0
        print("interactive edit of the comment only, flat announce-list")
        print(f"   expected trackers: announce={urls[0]!r} list={urls!r}")
        print(f"   observed         : announce={announce!r} list={found!r}")
        return 1
    finally:
        shutil.rmtree(tmp, ignore_errors=True)


if __name__ == "__main__":
    sys.exit(main())
