#!/usr/bin/env python
"""
finding1 - commit 57e0362 (and de43e08 on top of it) is INCOMPLETE.

"a broken symbolic link inside the content no longer aborts create" holds only
for links whose stat() fails with ENOENT / ENOTDIR.  The walk decides with
pathlib's Path.is_file(), which swallows ENOENT, ENOTDIR, EBADF and ELOOP and
RE-RAISES every other errno.  A link that cannot be resolved for another
reason still aborts every creator - and now with a raw OSError instead of the
MissingPathError the parent commit raised:

  variant A  link whose target text has a component longer than NAME_MAX
             (ln -s <300 chars> content/stale)            -> OSError errno 36
  variant B  link into a directory the user may not search
             (ln -s ../private/f content/lnk, private is 0700 of another
             user; needs a non-root uid, so as root the script forks and
             drops to uid 65534)                           -> PermissionError

Neither link contributes a byte of payload: the expected metafile is the one
for the single regular file next to it (computed here with hashlib and read
back with an own bencode decoder).  The v2 walk (os.path.isfile, 6d6c645)
would skip both links; the v1 listing that every creator runs first aborts.

exit 1: problem shows at HEAD; exit 0: not reproduced.
"""
import contextlib
import hashlib
import io
import os
import shutil
import sys
import tempfile

from torrentfile.torrent import TorrentAssembler, TorrentFile

PLEN = 16384
DATA = bytes(range(256)) * 100  # 25600 bytes -> two v1 pieces


def bdecode(buf, i=0):
    c = buf[i:i + 1]
    if c == b"i":
        j = buf.index(b"e", i)
        return int(buf[i + 1:j]), j + 1
    if c == b"l":
        i += 1
        out = []
        while buf[i:i + 1] != b"e":
            val, i = bdecode(buf, i)
            out.append(val)
        return out, i + 1
    if c == b"d":
        i += 1
        out = {}
        while buf[i:i + 1] != b"e":
            key, i = bdecode(buf, i)
            val, i = bdecode(buf, i)
            out[key] = val
        return out, i + 1
    j = buf.index(b":", i)
    n = int(buf[i:j])
    return buf[j + 1:j + 1 + n], j + 1 + n


def merkle_root(data):
    blocks = [
        hashlib.sha256(data[i:i + 16384]).digest()
        for i in range(0, len(data), 16384)
    ]
    n = 1
    while n < len(blocks):
        n *= 2
    blocks += [bytes(32)] * (n - len(blocks))
    while len(blocks) > 1:
        blocks = [
            hashlib.sha256(blocks[i] + blocks[i + 1]).digest()
            for i in range(0, len(blocks), 2)
        ]
    return blocks[0]


def expected_v1():
    pieces = b"".join(
        hashlib.sha1(DATA[i:i + PLEN]).digest()
        for i in range(0, len(DATA), PLEN))
    return [{b"length": len(DATA), b"path": [b"a.bin"]}], pieces


def run_creators(content, outdir):
    """Return list of problem strings for this content directory."""
    problems = []
    files, pieces = expected_v1()
    for label, cls, version in (("v1", TorrentFile, "1"),
                                ("v2", TorrentAssembler, "2"),
                                ("hybrid", TorrentAssembler, "3")):
        out = os.path.join(outdir, label + ".torrent")
        try:
            with contextlib.redirect_stdout(io.StringIO()):
                torrent = cls(path=content, piece_length=PLEN,
                              meta_version=version, progress=1)
                torrent.write(out)
        except BaseException as err:  # pylint: disable=broad-except
            problems.append(
                f"{label}: expected a metafile listing only a.bin, "
                f"observed {type(err).__name__}: {str(err)[:90]}")
            continue
        with open(out, "rb") as fd:
            info = bdecode(fd.read())[0][b"info"]
        if label == "v1":
            if info.get(b"files") != files or info.get(b"pieces") != pieces:
                problems.append(f"{label}: files/pieces differ from oracle")
        else:
            want = {b"a.bin": {b"": {b"length": len(DATA),
                                     b"pieces root": merkle_root(DATA)}}}
            if info.get(b"file tree") != want:
                problems.append(f"{label}: file tree differs from oracle: "
                                f"{sorted(info.get(b'file tree', {}))}")
    return problems


def variant_a(tmp):
    content = os.path.join(tmp, "A", "content")
    os.makedirs(content)
    with open(os.path.join(content, "a.bin"), "wb") as fd:
        fd.write(DATA)
    os.symlink("n" * 300, os.path.join(content, "stale"))
    return run_creators(content, os.path.join(tmp, "A"))


def variant_b(tmp):
    """A link into a directory this user may not search (needs uid != 0)."""
    base = os.path.join(tmp, "B")
    content = os.path.join(base, "content")
    private = os.path.join(base, "private")
    os.makedirs(content)
    os.makedirs(private)
    with open(os.path.join(content, "a.bin"), "wb") as fd:
        fd.write(DATA)
    with open(os.path.join(private, "f"), "wb") as fd:
        fd.write(b"secret")
    os.symlink("../private/f", os.path.join(content, "lnk"))
    outdir = os.path.join(base, "out")
    os.makedirs(outdir)

    if os.getuid() != 0:
        os.chmod(private, 0)
        try:
            return run_creators(content, outdir)
        finally:
            os.chmod(private, 0o700)

    # root ignores permissions: run the creators in a child with uid 65534
    for path in (tmp, base, content, os.path.join(content, "a.bin")):
        os.chmod(path, 0o755)
    os.chmod(outdir, 0o777)
    os.chmod(private, 0o700)
    rfd, wfd = os.pipe()
    pid = os.fork()
    if pid == 0:  # child
        os.close(rfd)
        text = "SKIP"
        try:
            os.setgroups([])
            os.setgid(65534)
            os.setuid(65534)
            text = "\n".join(run_creators(content, outdir))
        except BaseException as err:  # pylint: disable=broad-except
            text = f"SKIP {type(err).__name__} {err}"
        finally:
            os.write(wfd, text.encode("utf8", "replace"))
            os._exit(0)
    os.close(wfd)
    chunks = []
    while True:
        chunk = os.read(rfd, 65536)
        if not chunk:
            break
        chunks.append(chunk)
    os.close(rfd)
    os.waitpid(pid, 0)
    text = b"".join(chunks).decode("utf8", "replace")
    if text.startswith("SKIP"):
        print("variant B skipped (cannot drop privileges):", text)
        return []
    return [line for line in text.split("\n") if line]


def main():
    tmp = tempfile.mkdtemp(prefix="rev7H-f1-")
    try:
        # warm-up on a clean tree: loads every lazily imported module before
        # the child of variant B loses read access to the interpreter's files
        warm = os.path.join(tmp, "W", "content")
        os.makedirs(warm)
        with open(os.path.join(warm, "a.bin"), "wb") as fd:
            fd.write(DATA)
        base = run_creators(warm, os.path.join(tmp, "W"))
        if base:
            print("baseline without any link is already wrong:", base)
            return 0
        prob_a = variant_a(tmp)
        prob_b = variant_b(tmp)
    finally:
        shutil.rmtree(tmp, ignore_errors=True)

    if not (prob_a or prob_b):
        print("not reproduced: both unresolvable links were skipped")
        return 0
    print("EXPECTED: the link carries no payload and is skipped like any "
          "other broken link;\n          metafile == metafile of the lone "
          "regular file a.bin")
    for name, probs in (("A (target name too long, ENAMETOOLONG)", prob_a),
                        ("B (target in unsearchable dir, EACCES)", prob_b)):
        for line in probs:
            print(f"OBSERVED variant {name}: {line}")
    return 1


if __name__ == "__main__":
    sys.exit(main())
