#!/usr/bin/env python
"""
finding2 - commit de43e08 is INCOMPLETE (same root cause as finding1, but the
opposite expectation: this input must be REFUSED, and refused the documented
way).

de43e08: "A cycle (ELOOP) raises MissingPathError as it did before".  That is
only true while the kernel reports the cycle as ELOOP.  When the cyclic link
has a long name (>= ~100 characters) the spelled path
content/<name>/<name>/... passes PATH_MAX (4096) before it passes 40 links, the
kernel answers ENAMETOOLONG, and Path.is_file() at the top of
utils._filelist_total re-raises it: the creators die with a bare
OSError(errno 36).  Before 57e0362 the same tree raised MissingPathError
(os.path.exists() is False for any OSError), and that is the only exception a
library caller can be expected to catch for "unusable content path".

Oracle: the filesystem itself (os.readlink says the entry points at its own
directory, i.e. the tree is cyclic) - the expected outcome is
utils.MissingPathError for every creator, for short and for long link names
alike.

exit 1: problem shows at HEAD; exit 0: not reproduced.
"""
import contextlib
import io
import os
import shutil
import sys
import tempfile

from torrentfile import utils
from torrentfile.torrent import TorrentAssembler, TorrentFile


def build(tmp, sub, linkname):
    content = os.path.join(tmp, sub, "content")
    os.makedirs(content)
    with open(os.path.join(content, "a.bin"), "wb") as fd:
        fd.write(b"x" * 1000)
    os.symlink(".", os.path.join(content, linkname))
    assert os.readlink(os.path.join(content, linkname)) == "."
    assert os.path.samefile(os.path.join(content, linkname), content)
    return content


def outcome(cls, version, content):
    try:
        with contextlib.redirect_stdout(io.StringIO()):
            cls(path=content, piece_length=16384, meta_version=version,
                progress=1)
    except utils.MissingPathError:
        return "MissingPathError"
    except BaseException as err:  # pylint: disable=broad-except
        return f"{type(err).__name__}(errno={getattr(err, 'errno', None)})"
    return "NO EXCEPTION (cycle accepted)"


def main():
    tmp = tempfile.mkdtemp(prefix="rev7H-f2-")
    rows = []
    try:
        short = build(tmp, "S", "loop")
        long_ = build(tmp, "L", "L" * 200)
        for label, cls, ver in (("v1", TorrentFile, "1"),
                                ("v2", TorrentAssembler, "2"),
                                ("hybrid", TorrentAssembler, "3")):
            rows.append((label, "loop -> .", outcome(cls, ver, short)))
            rows.append((label, "'L'*200 -> .", outcome(cls, ver, long_)))
    finally:
        shutil.rmtree(tmp, ignore_errors=True)

    bad = [row for row in rows if row[2] != "MissingPathError"]
    if not bad:
        print("not reproduced: every cyclic tree raised MissingPathError")
        return 0
    print("EXPECTED: a symbolic link cycle is refused with "
          "utils.MissingPathError whatever the link is called")
    for label, link, res in rows:
        mark = "ok      " if res == "MissingPathError" else "OBSERVED"
        print(f"{mark} {label:6} {link:14} -> {res}")
    return 1


if __name__ == "__main__":
    sys.exit(main())
