#!/usr/bin/env python
"""
finding3 - REGRESSION of 37bdeed (low severity, deprecated interactive editor):
an interactive session that edits only the comment now deletes an unnamed
`url-list` / `httpseeds` key whose value is an empty list or [""].

torrentfile.interactive.InteractiveEditor pre-loads its request with the
CURRENT value of every field and sends all of them to edit_torrent.  Before
37bdeed a current value of [] or [""] was written back unchanged; since
37bdeed ("a list with only blank entries is a cleared field") it is a clear
request, so fields the user never selected disappear from the metafile.
(The info-hash is not affected.)

Oracle: own bencode decoder, raw byte spans of the top-level values.
exit 1 = problem present, exit 0 = absent.
"""
import builtins
import contextlib
import hashlib
import io
import os
import shutil
import sys
import tempfile


def benc(o):
    if isinstance(o, int):
        return b"i%de" % o
    if isinstance(o, str):
        o = o.encode()
    if isinstance(o, bytes):
        return b"%d:%s" % (len(o), o)
    if isinstance(o, list):
        return b"l" + b"".join(benc(i) for i in o) + b"e"
    items = sorted((k.encode() if isinstance(k, str) else k, v)
                   for k, v in o.items())
    return b"d" + b"".join(benc(k) + benc(v) for k, v in items) + b"e"


def bdec(b, i=0, spans=None):
    c = b[i:i + 1]
    if c == b"i":
        e = b.index(b"e", i)
        return int(b[i + 1:e]), e + 1
    if c == b"l":
        i += 1
        out = []
        while b[i:i + 1] != b"e":
            v, i = bdec(b, i)
            out.append(v)
        return out, i + 1
    if c == b"d":
        i += 1
        out = {}
        while b[i:i + 1] != b"e":
            k, i = bdec(b, i)
            start = i
            v, i = bdec(b, i)
            if spans is not None:
                spans[k] = b[start:i]
            out[k] = v
        return out, i + 1
    col = b.index(b":", i)
    n = int(b[i:col])
    return b[col + 1:col + 1 + n], col + 1 + n



def main():
    payload = b"hello"
    meta = {
        "announce": "http://t.example/a",
        "announce-list": [["http://t.example/a"]],
        "httpseeds": [""],
        "url-list": [],
        "info": {
            "length": len(payload),
            "name": "hello.bin",
            "piece length": 16384,
            "pieces": hashlib.sha1(payload).digest(),
        },
    }
    tmp = tempfile.mkdtemp(prefix="finding3-")
    problems = []
    real_input = builtins.input
    try:
        path = os.path.join(tmp, "a.torrent")
        open(path, "wb").write(benc(meta))
        before = {}
        bdec(open(path, "rb").read(), 0, before)

        from torrentfile import interactive
        answers = iter(["e", path, "1", "a new comment", "DONE"])
        builtins.input = lambda *_: next(answers)
        with contextlib.redirect_stdout(io.StringIO()):
            interactive.select_action()
        builtins.input = real_input

        after = {}
        top, _ = bdec(open(path, "rb").read(), 0, after)
        if top[b"info"].get(b"comment") != b"a new comment":
            problems.append("the comment edit itself did not happen: %r"
                            % top[b"info"].get(b"comment"))
        for key in (b"url-list", b"httpseeds", b"announce", b"announce-list"):
            if before.get(key) != after.get(key):
                problems.append(
                    "unnamed field %s: expected bytes %r, observed %r"
                    % (key.decode(), before.get(key), after.get(key)))
    finally:
        builtins.input = real_input
        shutil.rmtree(tmp, ignore_errors=True)

    if problems:
        print("finding3: PROBLEM PRESENT")
        for p in problems:
            print("  -", p)
        return 1
    print("finding3: not reproduced")
    return 0


if __name__ == "__main__":
    sys.exit(main())
