#!/usr/bin/env python
"""
finding2 - INCOMPLETE 37bdeed: a blank value is recognised only when it is a
list in which EVERY entry is blank, or the exact string "".

37bdeed: "a blank value given as a list ... is a cleared field, not a tracker
called ''".  Still at HEAD:
 (a) CLI  --tracker "" http://new   (e.g. --tracker "$UNSET" http://new)
       -> announce = "" (a tracker called ""), announce-list = [["", new]]
     same for --web-seed / --http-seed: a "" url is written into the list.
 (b) library {"announce": " "} (blank string with white space; the list form
     [" "] IS treated as a clear) -> uncaught IndexError from val.split()[0]
 (c) library {"url-list": " "} / {"httpseeds": " "} -> the key is written as
     an empty list `le` instead of being removed (again [" "] removes it).

Oracle: own bencode encoder/decoder + hashlib.
exit 1 = problem present, exit 0 = absent.
"""
import hashlib
import os
import shutil
import subprocess
import sys
import tempfile


def benc(o):
    if isinstance(o, int):
        return b"i%de" % o
    if isinstance(o, str):
        o = o.encode()
    if isinstance(o, bytes):
        return b"%d:%s" % (len(o), o)
    if isinstance(o, list):
        return b"l" + b"".join(benc(i) for i in o) + b"e"
    items = sorted((k.encode() if isinstance(k, str) else k, v)
                   for k, v in o.items())
    return b"d" + b"".join(benc(k) + benc(v) for k, v in items) + b"e"


def bdec(b, i=0, spans=None):
    c = b[i:i + 1]
    if c == b"i":
        e = b.index(b"e", i)
        return int(b[i + 1:e]), e + 1
    if c == b"l":
        i += 1
        out = []
        while b[i:i + 1] != b"e":
            v, i = bdec(b, i)
            out.append(v)
        return out, i + 1
    if c == b"d":
        i += 1
        out = {}
        while b[i:i + 1] != b"e":
            k, i = bdec(b, i)
            start = i
            v, i = bdec(b, i)
            if spans is not None:
                spans[k] = b[start:i]
            out[k] = v
        return out, i + 1
    col = b.index(b":", i)
    n = int(b[i:col])
    return b[col + 1:col + 1 + n], col + 1 + n



NEW = "http://new.example/announce"


def meta0():
    payload = b"hello"
    return {
        "announce": "http://old.example/announce",
        "announce-list": [["http://old.example/announce"]],
        "httpseeds": ["http://old.example/h"],
        "url-list": ["http://old.example/w"],
        "info": {
            "length": len(payload),
            "name": "hello.bin",
            "piece length": 16384,
            "pieces": hashlib.sha1(payload).digest(),
        },
    }


def load(path):
    return bdec(open(path, "rb").read())[0]


def main():
    tmp = tempfile.mkdtemp(prefix="finding2-")
    problems = []
    try:
        env = dict(os.environ, PYTHONDONTWRITEBYTECODE="1")
        # (a) command line, one blank entry among real ones
        path = os.path.join(tmp, "a.torrent")
        open(path, "wb").write(benc(meta0()))
        proc = subprocess.run(
            [sys.executable, "-m", "torrentfile", "edit", path,
             "--tracker", "", NEW, "--web-seed", "", "http://new.example/w"],
            env=env, stdout=subprocess.PIPE, stderr=subprocess.PIPE)
        meta = load(path)
        if proc.returncode != 0:
            problems.append("(a) CLI edit failed: %r" % proc.stderr[-300:])
        if meta.get(b"announce") != NEW.encode():
            problems.append(
                "(a) --tracker \"\" %s: expected announce = %r, observed %r"
                % (NEW, NEW.encode(), meta.get(b"announce")))
        tiers = meta.get(b"announce-list", [])
        if any(url == b"" for tier in tiers for url in tier):
            problems.append(
                "(a) expected no empty url in announce-list, observed %r"
                % tiers)
        if b"" in meta.get(b"url-list", []):
            problems.append(
                "(a) --web-seed \"\" <url>: expected no empty url in "
                "url-list, observed %r" % meta.get(b"url-list"))

        from torrentfile.edit import edit_torrent

        # reference: the list form of the same blank value clears the field
        path = os.path.join(tmp, "ref.torrent")
        open(path, "wb").write(benc(meta0()))
        edit_torrent(path, {"announce": [" "], "url-list": [" "],
                            "httpseeds": [" "]})
        ref = load(path)
        ref_clears = not ({b"announce", b"url-list", b"httpseeds"} & set(ref))

        # (b) blank string for the tracker
        path = os.path.join(tmp, "b.torrent")
        open(path, "wb").write(benc(meta0()))
        try:
            edit_torrent(path, {"announce": " "})
        except Exception as exc:  # pylint: disable=broad-except
            problems.append(
                "(b) edit_torrent(.., {'announce': ' '}): expected the field "
                "cleared (as for [' ']: %s), observed %s: %s"
                % (ref_clears, type(exc).__name__, exc))
        else:
            if b"announce" in load(path):
                problems.append("(b) announce still present: %r"
                                % load(path)[b"announce"])

        # (c) blank string for the seed lists
        for key in ("url-list", "httpseeds"):
            path = os.path.join(tmp, "c.torrent")
            open(path, "wb").write(benc(meta0()))
            try:
                edit_torrent(path, {key: " "})
            except Exception as exc:  # pylint: disable=broad-except
                problems.append("(c) %s: %s: %s"
                                % (key, type(exc).__name__, exc))
                continue
            meta = load(path)
            if key.encode() in meta:
                problems.append(
                    "(c) edit_torrent(.., {%r: ' '}): expected key removed "
                    "(as for [' ']: %s), observed %s = %r"
                    % (key, ref_clears, key, meta[key.encode()]))
    finally:
        shutil.rmtree(tmp, ignore_errors=True)

    if problems:
        print("finding2: PROBLEM PRESENT")
        for p in problems:
            print("  -", p)
        return 1
    print("finding2: not reproduced")
    return 0


if __name__ == "__main__":
    sys.exit(main())
