#!/usr/bin/env python
"""
finding1 - REGRESSION of a0e99ab: `edit --comment ""` no longer removes the
comment of a metafile that keeps its comment at the top level.

Every mainstream client (qBittorrent, Transmission, mktorrent, libtorrent)
writes `comment` as a TOP-LEVEL key.  Up to and including a0e99ab~1, clearing
the comment removed that key; since a0e99ab the clear only looks in `info`,
so the request is silently a no-op and `torrentfile info` keeps printing the
comment the user has just cleared.  Removing a top-level key never touches the
info-hash, so nothing in C07 required giving this up.

Oracle: own bencode encoder/decoder + hashlib; the tool is run as a
subprocess (CLI) and in-process (library).
exit 1 = problem present, exit 0 = absent.
"""
import hashlib
import os
import shutil
import subprocess
import sys
import tempfile


def benc(o):
    if isinstance(o, int):
        return b"i%de" % o
    if isinstance(o, str):
        o = o.encode()
    if isinstance(o, bytes):
        return b"%d:%s" % (len(o), o)
    if isinstance(o, list):
        return b"l" + b"".join(benc(i) for i in o) + b"e"
    items = sorted((k.encode() if isinstance(k, str) else k, v)
                   for k, v in o.items())
    return b"d" + b"".join(benc(k) + benc(v) for k, v in items) + b"e"


def bdec(b, i=0, spans=None):
    c = b[i:i + 1]
    if c == b"i":
        e = b.index(b"e", i)
        return int(b[i + 1:e]), e + 1
    if c == b"l":
        i += 1
        out = []
        while b[i:i + 1] != b"e":
            v, i = bdec(b, i)
            out.append(v)
        return out, i + 1
    if c == b"d":
        i += 1
        out = {}
        while b[i:i + 1] != b"e":
            k, i = bdec(b, i)
            start = i
            v, i = bdec(b, i)
            if spans is not None:
                spans[k] = b[start:i]
            out[k] = v
        return out, i + 1
    col = b.index(b":", i)
    n = int(b[i:col])
    return b[col + 1:col + 1 + n], col + 1 + n


def foreign_meta():
    payload = b"hello"
    return {
        "announce": "http://tracker.example/announce",
        "comment": "made by some other client",      # top level, as usual
        "created by": "qBittorrent v4.6.0",
        "creation date": 1700000000,
        "info": {
            "length": len(payload),
            "name": "hello.bin",
            "piece length": 16384,
            "pieces": hashlib.sha1(payload).digest(),
        },
    }


def snapshot(path):
    raw = open(path, "rb").read()
    spans = {}
    meta, _ = bdec(raw, 0, spans)
    return meta, hashlib.sha1(spans[b"info"]).hexdigest()


def main():
    tmp = tempfile.mkdtemp(prefix="finding1-")
    problems = []
    try:
        env = dict(os.environ, PYTHONDONTWRITEBYTECODE="1")
        # --- command line
        path = os.path.join(tmp, "cli.torrent")
        open(path, "wb").write(benc(foreign_meta()))
        _, hash0 = snapshot(path)
        proc = subprocess.run(
            [sys.executable, "-m", "torrentfile", "edit", path,
             "--comment", ""],
            env=env, stdout=subprocess.PIPE, stderr=subprocess.PIPE)
        meta, hash1 = snapshot(path)
        if proc.returncode != 0:
            problems.append("CLI edit failed: %r" % proc.stderr[-300:])
        if hash0 != hash1:
            problems.append("CLI: info-hash changed")
        if b"comment" in meta:
            problems.append(
                "CLI  `edit --comment \"\"`: expected no comment left in the "
                "metafile, observed top-level comment = %r" % meta[b"comment"])
        # what the tool itself shows afterwards
        proc = subprocess.run(
            [sys.executable, "-m", "torrentfile", "info", path],
            env=env, stdout=subprocess.PIPE, stderr=subprocess.PIPE)
        if b"made by some other client" in proc.stdout:
            problems.append(
                "CLI  `torrentfile info` still prints the cleared comment")

        # --- library
        from torrentfile.edit import edit_torrent
        path = os.path.join(tmp, "lib.torrent")
        open(path, "wb").write(benc(foreign_meta()))
        edit_torrent(path, {"comment": ""})
        meta, hash2 = snapshot(path)
        if hash2 != hash0:
            problems.append("library: info-hash changed")
        if b"comment" in meta:
            problems.append(
                "library edit_torrent(.., {'comment': ''}): expected comment "
                "removed, observed top-level comment = %r" % meta[b"comment"])
    finally:
        shutil.rmtree(tmp, ignore_errors=True)

    if problems:
        print("finding1: PROBLEM PRESENT")
        for p in problems:
            print("  -", p)
        return 1
    print("finding1: not reproduced (clearing removes a top-level comment)")
    return 0


if __name__ == "__main__":
    sys.exit(main())
