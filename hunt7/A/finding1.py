#!/usr/bin/env python
"""
finding1 - INCOMPLETE (family of 2f97daf: text/boolean confusion in
parse_config_file).

2f97daf stopped the *text* options comment/source from being coerced to
booleans.  The mirror image is still wrong at HEAD: the *boolean* options
(private, align) are only a boolean when the value is literally "true" or
"false"; every other ini false-word (no / 0 / off - the vocabulary of
ConfigParser.getboolean) is kept as a non-empty string, which is truthy, so

    [config]
    private = no        ->  info["private"] = 1   (torrent becomes private)
    align = 0           ->  BEP 47 padding entries are inserted

Oracle: own bencode decoder + the ini convention for false words
(RawConfigParser.BOOLEAN_STATES from the standard library).
Exit 1 when the problem shows, 0 otherwise.
"""
import configparser
import contextlib
import io
import os
import shutil
import sys
import tempfile


def bdecode(data, i=0):
    c = data[i:i + 1]
    if c == b"i":
        j = data.index(b"e", i)
        return int(data[i + 1:j]), j + 1
    if c == b"l":
        i += 1
        out = []
        while data[i:i + 1] != b"e":
            v, i = bdecode(data, i)
            out.append(v)
        return out, i + 1
    if c == b"d":
        i += 1
        out = {}
        while data[i:i + 1] != b"e":
            k, i = bdecode(data, i)
            v, i = bdecode(data, i)
            out[k] = v
        return out, i + 1
    j = data.index(b":", i)
    n = int(data[i:j])
    return data[j + 1:j + 1 + n], j + 1 + n


def run(argv):
    from torrentfile.cli import execute
    buf = io.StringIO()
    with contextlib.redirect_stdout(buf), contextlib.redirect_stderr(buf):
        try:
            execute(argv)
        except SystemExit as exc:
            return "SystemExit(%s)" % exc.code
        except Exception as exc:  # pylint: disable=broad-except
            return repr(exc)
    return None


def main():
    false_words = [
        k for k, v in configparser.RawConfigParser.BOOLEAN_STATES.items()
        if v is False
    ]  # '0', 'no', 'false', 'off'
    tmp = tempfile.mkdtemp(prefix="finding1-")
    problems = []
    try:
        content = os.path.join(tmp, "payload")
        os.mkdir(content)
        with open(os.path.join(content, "a.bin"), "wb") as fd:
            fd.write(b"A" * 20000)
        with open(os.path.join(content, "b.bin"), "wb") as fd:
            fd.write(b"B" * 20000)

        # reference: the flag route without -p / --align
        ref = os.path.join(tmp, "ref.torrent")
        err = run(["create", "--piece-length", "14", "-o", ref, content])
        if err:
            print("reference create failed:", err)
            return 0
        with open(ref, "rb") as fd:
            ref_info = bdecode(fd.read())[0][b"info"]
        assert b"private" not in ref_info
        assert not any(b"attr" in f for f in ref_info[b"files"])

        for option in ("private", "align"):
            for word in false_words:
                ini = os.path.join(tmp, "c.ini")
                with open(ini, "w", encoding="utf8") as fd:
                    fd.write("[config]\npiece-length = 14\n%s = %s\n" %
                             (option, word))
                out = os.path.join(tmp, "%s-%s.torrent" % (option, word))
                err = run([
                    "create", "--config", "--config-path", ini, "-o", out,
                    content
                ])
                if err or not os.path.exists(out):
                    problems.append("%s = %s: create failed: %s" %
                                    (option, word, err))
                    continue
                with open(out, "rb") as fd:
                    info = bdecode(fd.read())[0][b"info"]
                npad = sum(1 for f in info[b"files"] if b"attr" in f)
                if option == "private" and info.get(b"private"):
                    problems.append(
                        "private = %s: expected no info.private (option "
                        "switched off), observed info.private = %r" %
                        (word, info[b"private"]))
                if option == "align" and npad:
                    problems.append(
                        "align = %s: expected 0 padding entries (option "
                        "switched off), observed %d padding entries" %
                        (word, npad))
                if info != ref_info and not problems:
                    problems.append("%s = %s: info differs from the flag "
                                    "route without the flag" % (option, word))
    finally:
        shutil.rmtree(tmp, ignore_errors=True)

    if problems:
        print("PROBLEM: boolean create options in the configuration file "
              "are switched ON by ini false-words")
        for line in problems:
            print("  " + line)
        return 1
    print("ok: every ini false-word switches private/align off")
    return 0


if __name__ == "__main__":
    sys.exit(main())
