#!/usr/bin/env python
"""
finding2 - INCOMPLETE (family of 5122192: a meta-version value that is not
spelled exactly as the code expects silently produces a v2-only metafile).

5122192 made the int 3 / 1 equal to the strings "3" / "1", but the dispatch
is still "== '1' -> v1, == '3' -> hybrid, ANYTHING ELSE -> v2".  The command
line is protected by argparse `choices=["1","2","3"]`; the configuration file
route (and the library keyword) is not, so

    [config]
    meta-version = 4         (or: v1, hybrid, 03, 1.0, an empty value ...)

exits 0 and writes a v2-only metafile, while `--meta-version 4` is refused,
and an empty `meta-version =` yields v2 although omitting the option (and an
empty `piece-length =`) means "default", i.e. v1.

Oracle: own bencode decoder; the documented value set {1,2,3}.
Exit 1 when the problem shows, 0 otherwise.
"""
import contextlib
import io
import os
import shutil
import sys
import tempfile


def bdecode(data, i=0):
    c = data[i:i + 1]
    if c == b"i":
        j = data.index(b"e", i)
        return int(data[i + 1:j]), j + 1
    if c == b"l":
        i += 1
        out = []
        while data[i:i + 1] != b"e":
            v, i = bdecode(data, i)
            out.append(v)
        return out, i + 1
    if c == b"d":
        i += 1
        out = {}
        while data[i:i + 1] != b"e":
            k, i = bdecode(data, i)
            v, i = bdecode(data, i)
            out[k] = v
        return out, i + 1
    j = data.index(b":", i)
    n = int(data[i:j])
    return data[j + 1:j + 1 + n], j + 1 + n


def run(argv):
    from torrentfile.cli import execute
    buf = io.StringIO()
    with contextlib.redirect_stdout(buf), contextlib.redirect_stderr(buf):
        try:
            execute(argv)
        except SystemExit as exc:
            return "SystemExit(%s)" % exc.code
        except Exception as exc:  # pylint: disable=broad-except
            return repr(exc)
    return None


def kind(path):
    with open(path, "rb") as fd:
        info = bdecode(fd.read())[0][b"info"]
    v1 = b"pieces" in info
    v2 = b"file tree" in info
    return {(True, False): "v1", (False, True): "v2",
            (True, True): "hybrid"}.get((v1, v2), "?")


def main():
    tmp = tempfile.mkdtemp(prefix="finding2-")
    problems = []
    try:
        content = os.path.join(tmp, "payload")
        os.mkdir(content)
        with open(os.path.join(content, "a.bin"), "wb") as fd:
            fd.write(b"A" * 20000)

        # what the flag route does with the same words
        for word, expect in [("4", "refused"), ("v1", "refused"),
                             ("hybrid", "refused"), ("03", "refused"),
                             ("1.0", "refused"), ("", "v1 (default)")]:
            out_flag = os.path.join(tmp, "flag.torrent")
            if os.path.exists(out_flag):
                os.remove(out_flag)
            if word:
                err = run(["create", "--meta-version", word, "-o", out_flag,
                           content])
                flag_result = ("refused: " + err) if err else kind(out_flag)
            else:
                err = run(["create", "-o", out_flag, content])
                flag_result = kind(out_flag)

            ini = os.path.join(tmp, "c.ini")
            with open(ini, "w", encoding="utf8") as fd:
                fd.write("[config]\nmeta-version = %s\n" % word)
            out_cfg = os.path.join(tmp, "cfg.torrent")
            if os.path.exists(out_cfg):
                os.remove(out_cfg)
            err = run(["create", "--config", "--config-path", ini, "-o",
                       out_cfg, content])
            if err:
                cfg_result = "refused: " + err
            else:
                cfg_result = kind(out_cfg)

            good = (cfg_result.startswith("refused") if expect == "refused"
                    else cfg_result == "v1")
            if not good:
                problems.append(
                    "meta-version = %-6r expected: %s (flag route: %s); "
                    "observed: exit 0, %s metafile written" %
                    (word, expect, flag_result, cfg_result))

        # library keyword route: same dispatch
        from torrentfile.torrent import TorrentAssembler
        buf = io.StringIO()
        with contextlib.redirect_stdout(buf), contextlib.redirect_stderr(buf):
            try:
                t = TorrentAssembler(path=content, meta_version=3.0)
                lib = "hybrid" if "pieces" in t.meta["info"] else "v2"
            except Exception as exc:  # pylint: disable=broad-except
                lib = "refused: %r" % exc
        if lib == "v2":
            problems.append(
                "TorrentAssembler(meta_version=3.0) expected: hybrid or "
                "refused; observed: v2-only (no v1 pieces)")
    finally:
        shutil.rmtree(tmp, ignore_errors=True)

    if problems:
        print("PROBLEM: unrecognised meta-version values silently select v2")
        for line in problems:
            print("  " + line)
        return 1
    print("ok: unrecognised meta-version values are refused / defaulted")
    return 0


if __name__ == "__main__":
    sys.exit(main())
