#!/usr/bin/env python
"""
finding1 - f0da8c7 INCOMPLETE: the writability probe still creates a file
through a dangling symbolic link and leaves it behind.

C18: create writes exactly one file, the output metafile.

Case A: `create -o OUT/ CONTENT` (or no -o at all, probing the cwd) while
        OUT/.torrent is a dangling symlink  ->  the probe opens the link in
        append mode, which creates the link's *target* (possibly in a totally
        unrelated directory), and because lexists() said "existed" nothing is
        removed.  A successful create has written two files.
Case B: `create -o LINK.torrent` where LINK.torrent is a dangling symlink and
        the command then fails (bad piece length) -> a failed create has
        left a new empty file at the link's target.

Oracle: plain filesystem snapshots (names, kinds, link targets, sha1 of bytes).
"""
import hashlib
import os
import shutil
import subprocess
import sys
import tempfile


def snap(top):
    out = {}
    for dp, dn, fn in os.walk(top):
        for n in dn + fn:
            p = os.path.join(dp, n)
            rel = os.path.relpath(p, top)
            if os.path.islink(p):
                out[rel] = "link->" + os.readlink(p)
            elif os.path.isdir(p):
                out[rel] = "dir"
            else:
                with open(p, "rb") as fd:
                    out[rel] = "file:" + hashlib.sha1(fd.read()).hexdigest()
    return out


def run(args, cwd):
    # cwd is always a neutral directory so that `-m torrentfile` resolves the
    # package through PYTHONPATH and not through the caller's cwd
    proc = subprocess.run(
        [sys.executable, "-m", "torrentfile"] + args,
        cwd=cwd, capture_output=True, text=True, timeout=120)
    return proc.returncode, (proc.stderr.strip().splitlines() or [""])[-1]


def diff(before, after):
    added = sorted(set(after) - set(before))
    removed = sorted(set(before) - set(after))
    changed = sorted(k for k in before if k in after and before[k] != after[k])
    return added, removed, changed


def main():
    bad = 0
    root = tempfile.mkdtemp(prefix="rev7G-f1-")
    try:
        # ---- case A: OUT/.torrent is a dangling link, create succeeds
        for label, use_cwd in (("A1 (-o OUT/)", False), ("A2 (no -o, cwd)", True)):
            w = os.path.join(root, "a" + str(int(use_cwd)))
            os.makedirs(os.path.join(w, "content"))
            os.makedirs(os.path.join(w, "out"))
            os.makedirs(os.path.join(w, "elsewhere"))
            with open(os.path.join(w, "content", "f.bin"), "wb") as fd:
                fd.write(bytes(range(256)) * 200)
            os.symlink(os.path.join(w, "elsewhere", "ghost"),
                       os.path.join(w, "out", ".torrent"))
            before = snap(w)
            if use_cwd:
                rc, err = run(["create", os.path.join(w, "content")],
                              cwd=os.path.join(w, "out"))
            else:
                rc, err = run(["create", "-o", os.path.join(w, "out") + "/",
                               os.path.join(w, "content")], cwd=root)
            added, removed, changed = diff(before, snap(w))
            expected = ["out/content.torrent"]
            if rc != 0 or added != expected or removed or changed:
                bad = 1
                print(f"case {label}: create with a dangling symlink OUT/.torrent")
                print(f"  expected: exit 0, new entries {expected}, nothing else touched")
                print(f"  observed: exit {rc} {err!r}, new entries {added}, "
                      f"removed {removed}, changed {changed}")

        # ---- case B: -o is itself a dangling link and create fails
        w = os.path.join(root, "b")
        os.makedirs(os.path.join(w, "content"))
        os.makedirs(os.path.join(w, "elsewhere"))
        with open(os.path.join(w, "content", "f.bin"), "wb") as fd:
            fd.write(bytes(range(256)) * 200)
        os.symlink(os.path.join(w, "elsewhere", "real.torrent"),
                   os.path.join(w, "link.torrent"))
        before = snap(w)
        rc, err = run(["create", "-o", os.path.join(w, "link.torrent"),
                       "--piece-length", "3", os.path.join(w, "content")], cwd=root)
        added, removed, changed = diff(before, snap(w))
        if rc == 0 or added or removed or changed:
            bad = 1
            print("case B: failing create (--piece-length 3) with -o = dangling symlink")
            print("  expected: non-zero exit, directory tree unchanged "
                  "(as with an ordinary non-existent -o path)")
            print(f"  observed: exit {rc} {err!r}, new entries {added}, "
                  f"removed {removed}, changed {changed}")
    finally:
        shutil.rmtree(root, ignore_errors=True)
    if not bad:
        print("ok: probe leaves nothing behind")
    return bad


if __name__ == "__main__":
    sys.exit(main())
