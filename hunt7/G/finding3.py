#!/usr/bin/env python
"""
finding3 - 2a5ebe3 INCOMPLETE: other directory entries named `.torrent` still
abort (or hang) create although <dir>/<name>.torrent is perfectly writable.

2a5ebe3 special-cases a *directory* called `.torrent`.  The same probe
open(<dir>/.torrent, "ab") also cannot be carried out when that entry is
  - a FIFO                 -> open() blocks forever: create hangs before hashing
  - a symlink to itself    -> OSError ELOOP   (not PermissionError -> traceback)
  - a unix socket          -> OSError ENXIO
In none of these cases is the entry in the way of OUT/<name>.torrent.

Oracle: exit status / timeout of the CLI and a filesystem listing.
"""
import os
import shutil
import socket
import subprocess
import sys
import tempfile

TIMEOUT = 20


def main():
    bad = 0
    root = tempfile.mkdtemp(prefix="rev7G-f3-")
    socks = []
    try:
        for kind in ("fifo", "selflink", "socket"):
            w = os.path.join(root, kind)
            os.makedirs(os.path.join(w, "content"))
            os.makedirs(os.path.join(w, "out"))
            with open(os.path.join(w, "content", "f.bin"), "wb") as fd:
                fd.write(b"\x5a" * 40000)
            probe = os.path.join(w, "out", ".torrent")
            if kind == "fifo":
                os.mkfifo(probe)
            elif kind == "selflink":
                os.symlink(".torrent", probe)
            else:
                sock = socket.socket(socket.AF_UNIX)
                sock.bind(probe)
                socks.append(sock)
            try:
                proc = subprocess.run(
                    [sys.executable, "-m", "torrentfile", "create", "-o",
                     os.path.join(w, "out") + "/", os.path.join(w, "content")],
                    cwd=root, capture_output=True, text=True, timeout=TIMEOUT)
                status = f"exit {proc.returncode}"
                tail = (proc.stderr.strip().splitlines() or [""])[-1]
            except subprocess.TimeoutExpired:
                status, tail = f"HANG (> {TIMEOUT}s, killed)", ""
            listing = sorted(os.listdir(os.path.join(w, "out")))
            if status != "exit 0" or listing != [".torrent", "content.torrent"]:
                bad = 1
                print(f"OUT/.torrent is a {kind}:  create -o OUT/ CONTENT")
                print("  expected: exit 0, OUT contains ['.torrent', 'content.torrent']")
                print(f"  observed: {status} {tail!r}, OUT contains {listing}")
    finally:
        for sock in socks:
            sock.close()
        shutil.rmtree(root, ignore_errors=True)
    if not bad:
        print("ok")
    return bad


if __name__ == "__main__":
    sys.exit(main())
