#!/usr/bin/env python
"""
finding2 - 2a5ebe3 REGRESSION: `create -o EXISTING_DIR` (no trailing slash)
no longer fails fast; the whole payload is hashed first and the command then
dies with the very same IsADirectoryError.

The new `if os.path.isdir(path): return True` is applied to *every* path given
to check_path_writable, not only to the synthesised `<dir>/.torrent` probe
name.  For a user-supplied -o that is a directory the comment "(and is not in
the way)" is false: MetaFile.write() only appends <name>.torrent when the
string ends in a slash, so pyben.dump(meta, EXISTING_DIR) is bound to fail.
Before the commit the probe raised IsADirectoryError before a single payload
byte was read - which is the whole purpose of the probe.

Oracle: a CPython audit hook that counts open() calls on the payload file
between the start of the command and its failure (independent of torrentfile).
Expected (= behaviour of 2a5ebe3~1): either the command succeeds and writes
EXISTING_DIR/<name>.torrent, or it fails without having opened the payload.
"""
import contextlib
import io
import os
import shutil
import sys
import tempfile

STATE = {"armed": False, "opens": 0, "payload": None}


def hook(event, args):
    if event == "open" and STATE["armed"]:
        try:
            if os.fspath(args[0]) == STATE["payload"]:
                STATE["opens"] += 1
        except TypeError:
            pass


def main():
    root = tempfile.mkdtemp(prefix="rev7G-f2-")
    try:
        outdir = os.path.join(root, "out")
        os.makedirs(outdir)
        payload = os.path.join(root, "payload.bin")
        with open(payload, "wb") as fd:
            fd.write(os.urandom(1 << 20))
        STATE["payload"] = payload
        sys.addaudithook(hook)
        from torrentfile.cli import execute

        error = None
        STATE["armed"] = True
        try:
            with contextlib.redirect_stdout(io.StringIO()), \
                    contextlib.redirect_stderr(io.StringIO()):
                execute(["create", "-o", outdir, payload])
        except BaseException as exc:  # noqa
            error = exc
        STATE["armed"] = False

        wrote = os.listdir(outdir)
        if error is None and wrote:
            print("ok: create wrote", wrote)
            return 0
        if error is not None and STATE["opens"] == 0:
            print("ok: failed fast with", type(error).__name__)
            return 0
        print("create -o EXISTING_DIR PAYLOAD  (1 MiB payload)")
        print("  expected: fails before reading the payload (0 opens of the payload), "
              "as at 2a5ebe3~1, or succeeds")
        print(f"  observed: {type(error).__name__}: {error} -- after the payload "
              f"was opened {STATE['opens']} time(s) and hashed completely")
        return 1
    finally:
        shutil.rmtree(root, ignore_errors=True)


if __name__ == "__main__":
    sys.exit(main())
