#!/usr/bin/env python
"""
finding1 - commit 4b2165b (recheck: content path spelled '.')

REGRESSION.  find_root() now makes the path absolute *before* the
"is the last component the torrent's name?" test.  When the directory that
CONTAINS the payload happens to carry the same name as the payload
(.../Album/Album/..., the usual result of "extract here" or of a client that
creates a folder per torrent), running recheck from inside that parent
directory with the content path '.' (or from inside the payload with '..')
used to find <parent>/<name> through the listdir branch and report 100%.
At HEAD the parent itself is taken for the payload root: every file is
"missing", the verdict is 0% (multi-file) or IsADirectoryError (single file).

Oracle: the metafile is written by this script (own bencoder + hashlib), the
payload on disk is intact and is snapshotted before/after, so the only
correct verdict is exactly 100.0 (property C05, content path = parent).

exit 1 = problem present, exit 0 = not present.
"""
import contextlib
import hashlib
import io
import os
import shutil
import sys
import tempfile


def benc(x):
    if isinstance(x, int):
        return b"i%de" % x
    if isinstance(x, str):
        x = x.encode()
    if isinstance(x, (bytes, bytearray)):
        return b"%d:%s" % (len(x), bytes(x))
    if isinstance(x, list):
        return b"l" + b"".join(benc(i) for i in x) + b"e"
    if isinstance(x, dict):
        items = sorted((k.encode(), v) for k, v in x.items())
        return b"d" + b"".join(benc(k) + benc(v) for k, v in items) + b"e"
    raise TypeError(x)


def snapshot(top):
    out = {}
    for d, _, fs in os.walk(top):
        for f in fs:
            p = os.path.join(d, f)
            with open(p, "rb") as fd:
                out[os.path.relpath(p, top)] = hashlib.sha256(fd.read()).hexdigest()
    return out


def check(metafile, cwd, content):
    from torrentfile.recheck import Checker
    os.chdir(cwd)
    try:
        with contextlib.redirect_stdout(io.StringIO()):
            return Checker(metafile, content).results()
    except Exception as exc:  # pylint: disable=broad-except
        return repr(exc)
    finally:
        os.chdir("/")


def main():
    start = os.getcwd()
    tmp = tempfile.mkdtemp(prefix="rev7D-f1-")
    failures = []
    try:
        plen = 16384
        # ---- multi-file v1 torrent "Album", payload at <tmp>/Album/Album
        parent = os.path.join(tmp, "Album")
        root = os.path.join(parent, "Album")
        os.makedirs(os.path.join(root, "cd1"))
        files = [(["cd1", "a.bin"], os.urandom(40000)),
                 (["b.bin"], os.urandom(20000))]
        stream = b""
        for parts, data in files:
            with open(os.path.join(root, *parts), "wb") as fd:
                fd.write(data)
            stream += data
        pieces = b"".join(hashlib.sha1(stream[i:i + plen]).digest()
                          for i in range(0, len(stream), plen))
        multi = os.path.join(tmp, "multi.torrent")
        with open(multi, "wb") as fd:
            fd.write(benc({"info": {
                "name": "Album", "piece length": plen, "pieces": pieces,
                "files": [{"length": len(d), "path": p} for p, d in files]}}))

        # ---- single-file v1 torrent "disc.iso", file at <tmp>/disc.iso/disc.iso
        sparent = os.path.join(tmp, "disc.iso")
        os.makedirs(sparent)
        sdata = os.urandom(50000)
        with open(os.path.join(sparent, "disc.iso"), "wb") as fd:
            fd.write(sdata)
        spieces = b"".join(hashlib.sha1(sdata[i:i + plen]).digest()
                           for i in range(0, len(sdata), plen))
        single = os.path.join(tmp, "single.torrent")
        with open(single, "wb") as fd:
            fd.write(benc({"info": {"name": "disc.iso", "piece length": plen,
                                    "pieces": spieces, "length": len(sdata)}}))

        before = snapshot(tmp)
        cases = [
            ("multi-file, cwd=<parent named like the torrent>, content '.'",
             multi, parent, "."),
            ("multi-file, cwd=<payload root>/cd1, content '../..'",
             multi, os.path.join(root, "cd1"), "../.."),
            ("single-file, cwd=<parent named like the torrent>, content '.'",
             single, sparent, "."),
            # control: the payload root itself spelled '.', what the commit fixed
            ("control: multi-file, cwd=<payload root>, content '.'",
             multi, root, "."),
        ]
        for label, mf, cwd, content in cases:
            got = check(mf, cwd, content)
            ok = got == 100.0
            print(f"{'ok  ' if ok else 'FAIL'} {label}: expected 100.0, "
                  f"observed {got}")
            if not ok and not label.startswith("control"):
                failures.append(label)
        if snapshot(tmp) != before:
            print("payload changed on disk?!")
            failures.append("snapshot")
    finally:
        os.chdir(start if os.path.isdir(start) else "/")
        shutil.rmtree(tmp, ignore_errors=True)
    return 1 if failures else 0


if __name__ == "__main__":
    sys.exit(main())
