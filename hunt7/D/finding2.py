#!/usr/bin/env python
"""
finding2 - commit 4b2165b (recheck: content path spelled '.')

REGRESSION.  find_root() tests `os.path.exists(path)` on the path as typed
(resolved by the operating system) but then continues with
`Path(os.path.abspath(path))`, which removes '..' components *lexically*.
When a component before the '..' is a symbolic link to a directory, the two
disagree: 'link/..' is the parent of the link's target for the OS and for the
user (shell completion, ls), yet abspath() turns it into the directory that
holds the link.  Before the commit Path(path) kept the '..', listdir() went
through the OS and the payload was found (100%).  At HEAD recheck looks in
the wrong directory: FileNotFoundError, or - when a same-named directory
exists next to the link - a silent verdict about a directory the user did
not name.

Oracle: metafile written here (own bencoder + hashlib); payload intact
(snapshotted); os.path.samefile() tells which directory the typed path
denotes.  Expected verdict 100.0 and a root that is the real payload.

exit 1 = problem present, exit 0 = not present (or symlinks unavailable).
"""
import contextlib
import hashlib
import io
import os
import shutil
import sys
import tempfile


def benc(x):
    if isinstance(x, int):
        return b"i%de" % x
    if isinstance(x, str):
        x = x.encode()
    if isinstance(x, (bytes, bytearray)):
        return b"%d:%s" % (len(x), bytes(x))
    if isinstance(x, list):
        return b"l" + b"".join(benc(i) for i in x) + b"e"
    if isinstance(x, dict):
        items = sorted((k.encode(), v) for k, v in x.items())
        return b"d" + b"".join(benc(k) + benc(v) for k, v in items) + b"e"
    raise TypeError(x)


def snapshot(top):
    out = {}
    for d, _, fs in os.walk(top):
        for f in fs:
            p = os.path.join(d, f)
            with open(p, "rb") as fd:
                out[os.path.relpath(p, top)] = hashlib.sha256(fd.read()).hexdigest()
    return out


def check(metafile, cwd, content):
    from torrentfile.recheck import Checker
    os.chdir(cwd)
    try:
        with contextlib.redirect_stdout(io.StringIO()):
            chk = Checker(metafile, content)
            return chk.results(), os.path.realpath(str(chk.root))
    except Exception as exc:  # pylint: disable=broad-except
        return repr(exc), None
    finally:
        os.chdir("/")


def main():
    start = os.getcwd()
    tmp = os.path.realpath(tempfile.mkdtemp(prefix="rev7D-f2-"))
    failures = []
    try:
        plen = 16384
        store = os.path.join(tmp, "store")          # real place of the data
        root = os.path.join(store, "pay")            # the payload
        os.makedirs(root)
        os.makedirs(os.path.join(store, "incoming"))
        work = os.path.join(tmp, "work")
        os.makedirs(work)
        try:
            os.symlink(os.path.join(store, "incoming"),
                       os.path.join(work, "link"))
        except (OSError, NotImplementedError):
            print("symlinks not available, nothing to show")
            return 0
        files = [(["a.bin"], os.urandom(40000)), (["b.bin"], os.urandom(9000))]
        stream = b""
        for parts, data in files:
            with open(os.path.join(root, *parts), "wb") as fd:
                fd.write(data)
            stream += data
        pieces = b"".join(hashlib.sha1(stream[i:i + plen]).digest()
                          for i in range(0, len(stream), plen))
        mf = os.path.join(tmp, "m.torrent")
        with open(mf, "wb") as fd:
            fd.write(benc({"info": {
                "name": "pay", "piece length": plen, "pieces": pieces,
                "files": [{"length": len(d), "path": p} for p, d in files]}}))

        # what the typed paths denote, according to the operating system
        os.chdir(work)
        assert os.path.samefile("link/..", store)
        assert os.path.samefile("link/../pay", root)
        os.chdir("/")
        before = snapshot(tmp)

        def report(label, content):
            got, where = check(mf, work, content)
            ok = got == 100.0 and where == os.path.realpath(root)
            print(f"{'ok  ' if ok else 'FAIL'} {label}: expected 100.0 on "
                  f"{root}, observed {got} on {where}")
            if not ok:
                failures.append(label)

        report("content 'link/..' (parent of the payload)", "link/..")
        report("content 'link/../pay' (the payload itself)", "link/../pay")
        report("absolute '<work>/link/..'", os.path.join(work, "link", ".."))

        # a same-named directory next to the link: now silently the wrong one
        decoy = os.path.join(work, "pay")
        os.makedirs(decoy)
        for parts, data in files:
            with open(os.path.join(decoy, *parts), "wb") as fd:
                fd.write(bytes(len(data)))
        report("content 'link/..' with unrelated <work>/pay present", "link/..")
        shutil.rmtree(decoy)

        if snapshot(tmp) != before:
            print("payload changed on disk?!")
            failures.append("snapshot")
    finally:
        os.chdir(start if os.path.isdir(start) else "/")
        shutil.rmtree(tmp, ignore_errors=True)
    return 1 if failures else 0


if __name__ == "__main__":
    sys.exit(main())
