#!/usr/bin/env python
"""
finding1 - INCOMPLETE (c26acbf / 4c88878): an *integer* piece length that is
too large to print still ends in a bare ValueError / OverflowError.

c26acbf and 4c88878 made sure that a piece length with more than 4300 decimal
digits yields PieceLengthValueError instead of the interpreter's
"Exceeds the limit (4300 digits) for integer string conversion" ValueError.
That only covers values normalize_piece_length() *rejects*.  A power of two
with more than 4300 digits (1 << 14285 and up) passes
normalize_piece_length() (it IS a power of two >= 16 KiB), is stored in
info["piece length"], and then

  * v2 / hybrid-assembler: pyben.dump() calls str() on it  -> the very same
    bare ValueError (digit limit) reaches the caller;
  * v1 / hybrid: bytearray(piece_length) -> bare OverflowError.

Property C12 allows two outcomes only: the piece-length error, or a metafile
that records exactly that value.

Oracle: exception class + own bencode reader (no int()/str() on the big value).
Exit 1 when the problem shows, 0 otherwise.
"""
import os
import shutil
import sys
import tempfile

from torrentfile import utils
from torrentfile.torrent import (TorrentAssembler, TorrentFile,
                                 TorrentFileHybrid, TorrentFileV2)

VALUE = 1 << 14285  # smallest power of two with 4301 decimal digits


def parse_digits(raw: bytes) -> int:
    """Decimal digits -> int without tripping the int() digit limit."""
    val = 0
    for i in range(0, len(raw), 2000):
        chunk = raw[i:i + 2000]
        val = val * 10**len(chunk) + int(chunk)
    return val


def bdecode(data: bytes, i: int = 0):
    """Minimal independent bencode reader."""
    c = data[i:i + 1]
    if c == b"i":
        end = data.index(b"e", i)
        raw = data[i + 1:end]
        neg = raw.startswith(b"-")
        val = parse_digits(raw[1:] if neg else raw)
        return (-val if neg else val), end + 1
    if c == b"l":
        i += 1
        out = []
        while data[i:i + 1] != b"e":
            item, i = bdecode(data, i)
            out.append(item)
        return out, i + 1
    if c == b"d":
        i += 1
        out = {}
        while data[i:i + 1] != b"e":
            key, i = bdecode(data, i)
            out[key], i = bdecode(data, i)
        return out, i + 1
    colon = data.index(b":", i)
    size = int(data[i:colon])
    return data[colon + 1:colon + 1 + size], colon + 1 + size


def attempt(label, factory, outfile):
    """Return None when the outcome is allowed by C12, else a description."""
    if os.path.lexists(outfile):
        os.remove(outfile)
    try:
        torrent = factory()
        torrent.write()
    except utils.PieceLengthValueError:
        return None  # allowed: the piece-length error
    except MemoryError:
        return None  # not what this finding is about
    except Exception as err:  # pylint: disable=broad-except
        return (f"{label}: expected PieceLengthValueError or a metafile "
                f"recording 2**14285; observed {type(err).__name__}: "
                f"{str(err)[:90]}")
    if not os.path.isfile(outfile):
        return f"{label}: no exception and no metafile"
    with open(outfile, "rb") as fd:
        meta, _ = bdecode(fd.read())
    recorded = meta[b"info"][b"piece length"]
    if recorded != VALUE:
        return f"{label}: metafile records a different piece length"
    return None  # allowed: metafile records exactly that value


def main():
    tmp = tempfile.mkdtemp(prefix="finding1-")
    problems = []
    try:
        content = os.path.join(tmp, "content")
        os.mkdir(content)
        with open(os.path.join(content, "a.bin"), "wb") as fd:
            fd.write(bytes(range(256)) * 160)  # 40960 bytes
        out = os.path.join(tmp, "out.torrent")

        # sanity: the neighbouring non-power-of-two IS rejected properly
        try:
            utils.normalize_piece_length(3 << 14285)
            problems.append("3 << 14285 was accepted")
        except utils.PieceLengthValueError:
            pass
        except Exception as err:  # pylint: disable=broad-except
            problems.append(f"3 << 14285: {type(err).__name__}")

        kws = {"path": content, "piece_length": VALUE, "outfile": out,
               "progress": 0}
        cases = [
            ("TorrentFile (v1)", lambda: TorrentFile(**kws)),
            ("TorrentFileV2", lambda: TorrentFileV2(**kws)),
            ("TorrentFileHybrid", lambda: TorrentFileHybrid(**kws)),
            ("TorrentAssembler meta_version=2",
             lambda: TorrentAssembler(meta_version="2", **kws)),
            ("TorrentAssembler meta_version=3",
             lambda: TorrentAssembler(meta_version="3", **kws)),
        ]
        for label, factory in cases:
            res = attempt(label, factory, out)
            if res:
                problems.append(res)
    finally:
        shutil.rmtree(tmp, ignore_errors=True)

    if problems:
        print("piece_length = 1 << 14285 (power of two, 4301 digits)")
        for line in problems:
            print("  " + line)
        return 1
    print("ok: huge power-of-two piece length is rejected with the "
          "piece-length error or recorded exactly")
    return 0


if __name__ == "__main__":
    sys.exit(main())
