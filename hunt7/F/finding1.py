#!/usr/bin/env python
"""finding1 - e72391f: a directory at a file's path is skipped silently, but
the file is still counted as rebuilt (C13: "Every file it counts as rebuilt is
present in the destination afterwards").

Oracle: own bencode encoder / hashlib for the metafile, filesystem snapshot +
sha256 for "present", compared with the number assemble_torrents() returns.
exit 1 = problem shows, exit 0 = not.
"""
import contextlib
import hashlib
import io
import os
import shutil
import sys
import tempfile


def benc(o):
    if isinstance(o, int):
        return b"i%de" % o
    if isinstance(o, str):
        o = o.encode()
    if isinstance(o, bytes):
        return b"%d:%s" % (len(o), o)
    if isinstance(o, list):
        return b"l" + b"".join(benc(x) for x in o) + b"e"
    items = sorted((k.encode(), v) for k, v in o.items())
    return b"d" + b"".join(benc(k) + benc(v) for k, v in items) + b"e"


def merkle_root(data):
    leaves = [hashlib.sha256(data[i:i + 16384]).digest()
              for i in range(0, len(data), 16384)]
    n = 1
    while n < len(leaves):
        n *= 2
    leaves += [bytes(32)] * (n - len(leaves))
    while len(leaves) > 1:
        leaves = [hashlib.sha256(leaves[i] + leaves[i + 1]).digest()
                  for i in range(0, len(leaves), 2)]
    return leaves[0]


def make_v1(name, files, plen):
    data = b"".join(b for _, b in files)
    pieces = b"".join(hashlib.sha1(data[i:i + plen]).digest()
                      for i in range(0, len(data), plen))
    return benc({"info": {"name": name, "piece length": plen,
                          "pieces": pieces,
                          "files": [{"length": len(b), "path": p}
                                    for p, b in files]}})


def make_v2(name, files, plen):
    tree = {}
    for p, b in files:
        t = tree
        for el in p[:-1]:
            t = t.setdefault(el, {})
        t[p[-1]] = {"": {"length": len(b), "pieces root": merkle_root(b)}}
    return benc({"info": {"name": name, "piece length": plen,
                          "meta version": 2, "file tree": tree},
                 "piece layers": {}})


def write(path, data):
    os.makedirs(os.path.dirname(path), exist_ok=True)
    with open(path, "wb") as fd:
        fd.write(data)


def present(dest, name, files):
    """Independent count of files that really are at their assigned path."""
    good = 0
    for p, b in files:
        full = os.path.join(dest, name, *p)
        if os.path.isfile(full) and not os.path.islink(full):
            with open(full, "rb") as fd:
                if hashlib.sha256(fd.read()).digest() == \
                        hashlib.sha256(b).digest():
                    good += 1
    return good


def run(kind, base, obstacle):
    from torrentfile.rebuild import Assembler
    root = os.path.join(base, kind + "-" + obstacle)
    search, dest = os.path.join(root, "search"), os.path.join(root, "dest")
    elsewhere = os.path.join(root, "elsewhere")
    os.makedirs(dest)
    os.makedirs(elsewhere)
    files = [(["a.bin"], os.urandom(40000)),      # larger than a dir inode
             (["sub", "b.bin"], os.urandom(20000)),
             (["c.bin"], os.urandom(100))]        # smaller than a dir inode
    for p, b in files:
        write(os.path.join(search, "stuff", *p), b)
    meta = os.path.join(root, "m.torrent")
    maker = make_v1 if kind == "v1" else make_v2
    with open(meta, "wb") as fd:
        fd.write(maker("name", files, 16384))
    # the destination already holds directories where two files belong
    os.makedirs(os.path.join(dest, "name"))
    for fname in ("a.bin", "c.bin"):
        if obstacle == "dir":
            os.makedirs(os.path.join(dest, "name", fname))
        else:  # a symlink to a directory in the file's place
            os.symlink(elsewhere, os.path.join(dest, "name", fname))
    buf = io.StringIO()
    error = None
    counted = None
    with contextlib.redirect_stdout(buf), contextlib.redirect_stderr(buf):
        try:
            counted = Assembler([meta], [search], dest).assemble_torrents()
        except Exception as exc:  # an error would be an honest answer
            error = exc
    actually = present(dest, "name", files)
    if error is not None:
        print(f"[{kind}/{obstacle}] rebuild raised {type(error).__name__}: "
              "obstruction reported, not counted - fine")
        return True
    ok = counted == actually
    print(f"[{kind}/{obstacle}] expected: count of rebuilt files == files "
          f"present at their assigned path ({actually})")
    print(f"[{kind}/{obstacle}] observed: assemble_torrents() returned "
          f"{counted}; present and correct in destination: {actually}"
          f" -> {'ok' if ok else 'PROBLEM'}")
    return ok


def main():
    base = tempfile.mkdtemp(prefix="rev7F-f1-")
    try:
        results = [run(kind, base, obstacle)
                   for kind in ("v1", "v2") for obstacle in ("dir", "dirlink")]
    finally:
        shutil.rmtree(base, ignore_errors=True)
    return 0 if all(results) else 1


if __name__ == "__main__":
    sys.exit(main())
