#!/usr/bin/env python
"""finding2 - bec6a35 (incomplete): only a symlink at the *last* component of
a file's path is replaced.  A symlink at a parent component (dest/<name> or
dest/<name>/<subdir>) is still written through - files are created and a
shorter file is overwritten outside the destination - and a dangling one makes
rebuild abort with FileExistsError.

Oracle: sha256 snapshots of a directory that lies outside the destination,
taken before and after; own bencode encoder / hashlib for the metafiles.
Everything lives >= 10 levels deep inside a private temp dir.
exit 1 = problem shows, exit 0 = not.
"""
import contextlib
import hashlib
import io
import os
import shutil
import sys
import tempfile


def benc(o):
    if isinstance(o, int):
        return b"i%de" % o
    if isinstance(o, str):
        o = o.encode()
    if isinstance(o, bytes):
        return b"%d:%s" % (len(o), o)
    if isinstance(o, list):
        return b"l" + b"".join(benc(x) for x in o) + b"e"
    items = sorted((k.encode(), v) for k, v in o.items())
    return b"d" + b"".join(benc(k) + benc(v) for k, v in items) + b"e"


def merkle_root(data):
    leaves = [hashlib.sha256(data[i:i + 16384]).digest()
              for i in range(0, len(data), 16384)]
    n = 1
    while n < len(leaves):
        n *= 2
    leaves += [bytes(32)] * (n - len(leaves))
    while len(leaves) > 1:
        leaves = [hashlib.sha256(leaves[i] + leaves[i + 1]).digest()
                  for i in range(0, len(leaves), 2)]
    return leaves[0]


def make_v1(name, files, plen):
    data = b"".join(b for _, b in files)
    pieces = b"".join(hashlib.sha1(data[i:i + plen]).digest()
                      for i in range(0, len(data), plen))
    return benc({"info": {"name": name, "piece length": plen,
                          "pieces": pieces,
                          "files": [{"length": len(b), "path": p}
                                    for p, b in files]}})


def make_v2(name, files, plen):
    tree = {}
    for p, b in files:
        t = tree
        for el in p[:-1]:
            t = t.setdefault(el, {})
        t[p[-1]] = {"": {"length": len(b), "pieces root": merkle_root(b)}}
    return benc({"info": {"name": name, "piece length": plen,
                          "meta version": 2, "file tree": tree},
                 "piece layers": {}})


def write(path, data):
    os.makedirs(os.path.dirname(path), exist_ok=True)
    with open(path, "wb") as fd:
        fd.write(data)




def snap(root):
    out = {}
    for dp, dn, fn in os.walk(root):
        for n in dn + fn:
            p = os.path.join(dp, n)
            rel = os.path.relpath(p, root)
            if os.path.islink(p):
                out[rel] = "link:" + os.readlink(p)
            elif os.path.isdir(p):
                out[rel] = "dir"
            else:
                with open(p, "rb") as fd:
                    out[rel] = hashlib.sha256(fd.read()).hexdigest()[:16]
    return out


def run(kind, base, where, dangling):
    from torrentfile.rebuild import Assembler
    root = os.path.join(base, f"{kind}-{where}-{'dangling' if dangling else 'live'}")
    search, dest = os.path.join(root, "search"), os.path.join(root, "dest")
    outside = os.path.join(root, "outside")
    os.makedirs(dest)
    os.makedirs(outside)
    files = [(["sub", "a.bin"], os.urandom(40000)),
             (["sub", "b.bin"], os.urandom(100))]
    for p, b in files:
        write(os.path.join(search, "stuff", *p), b)
    meta = os.path.join(root, "m.torrent")
    maker = make_v1 if kind == "v1" else make_v2
    with open(meta, "wb") as fd:
        fd.write(maker("name", files, 16384))
    # somebody else's data outside the destination; b.bin is shorter than the
    # torrent's b.bin so that copypath regards it as an incomplete copy
    write(os.path.join(outside, "sub", "b.bin"), b"precious")
    write(os.path.join(outside, "b.bin"), b"precious")
    target = os.path.join(outside, "missing") if dangling else outside
    if where == "name":          # dest/name -> outside
        os.symlink(target, os.path.join(dest, "name"))
    else:                        # dest/name/sub -> outside
        os.makedirs(os.path.join(dest, "name"))
        os.symlink(target, os.path.join(dest, "name", "sub"))
    before = snap(outside)
    buf = io.StringIO()
    error = None
    with contextlib.redirect_stdout(buf), contextlib.redirect_stderr(buf):
        try:
            Assembler([meta], [search], dest).assemble_torrents()
        except Exception as exc:
            error = exc
    after = snap(outside)
    tag = f"[{kind} link at dest/{'name' if where == 'name' else 'name/sub'}" \
          f"{' (dangling)' if dangling else ''}]"
    ok = True
    print(f"{tag} expected: nothing outside the destination is created or "
          "overwritten; no traceback")
    if after != before:
        ok = False
        new = sorted(k for k in after if k not in before)
        changed = sorted(k for k in before if after.get(k) != before[k])
        print(f"{tag} observed: outside the destination created={new} "
              f"overwritten={changed} -> PROBLEM")
    if error is not None and not isinstance(error, (ValueError,)):
        ok = False
        print(f"{tag} observed: rebuild aborted with "
              f"{type(error).__name__}: {str(error)[:60]}... -> PROBLEM")
    if ok:
        print(f"{tag} observed: outside untouched -> ok")
    return ok


def main():
    base = tempfile.mkdtemp(prefix="rev7F-f2-")
    deep = os.path.join(base, *["l%d" % i for i in range(10)])
    os.makedirs(deep)
    try:
        results = [run(kind, deep, where, dangling)
                   for kind in ("v1", "v2")
                   for where in ("name", "sub")
                   for dangling in (False, True)]
    finally:
        shutil.rmtree(base, ignore_errors=True)
    return 0 if all(results) else 1


if __name__ == "__main__":
    sys.exit(main())
