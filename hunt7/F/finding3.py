#!/usr/bin/env python
"""finding3 - e72391f (incomplete, mirror case): the commit handles a directory
sitting at a *file's* path; a regular file sitting at a *directory's* path
(dest/<name>/sub is a file, the metafile wants dest/<name>/sub/b.bin) is still
unhandled: copypath sees os.path.exists(dir) and skips mkdir, shutil.copy then
raises NotADirectoryError, which nobody catches - the whole batch is aborted
and the following, unobstructed metafile is never rebuilt although intact
copies of all of its files are available (C13, "batches of several metafiles").

Oracle: own bencode encoder / hashlib for the metafiles, sha256 check of the
files of the second torrent in the destination.
exit 1 = problem shows, exit 0 = not.
"""
import contextlib
import hashlib
import io
import os
import shutil
import sys
import tempfile


def benc(o):
    if isinstance(o, int):
        return b"i%de" % o
    if isinstance(o, str):
        o = o.encode()
    if isinstance(o, bytes):
        return b"%d:%s" % (len(o), o)
    if isinstance(o, list):
        return b"l" + b"".join(benc(x) for x in o) + b"e"
    items = sorted((k.encode(), v) for k, v in o.items())
    return b"d" + b"".join(benc(k) + benc(v) for k, v in items) + b"e"


def merkle_root(data):
    leaves = [hashlib.sha256(data[i:i + 16384]).digest()
              for i in range(0, len(data), 16384)]
    n = 1
    while n < len(leaves):
        n *= 2
    leaves += [bytes(32)] * (n - len(leaves))
    while len(leaves) > 1:
        leaves = [hashlib.sha256(leaves[i] + leaves[i + 1]).digest()
                  for i in range(0, len(leaves), 2)]
    return leaves[0]


def make_v1(name, files, plen):
    data = b"".join(b for _, b in files)
    pieces = b"".join(hashlib.sha1(data[i:i + plen]).digest()
                      for i in range(0, len(data), plen))
    return benc({"info": {"name": name, "piece length": plen,
                          "pieces": pieces,
                          "files": [{"length": len(b), "path": p}
                                    for p, b in files]}})


def make_v2(name, files, plen):
    tree = {}
    for p, b in files:
        t = tree
        for el in p[:-1]:
            t = t.setdefault(el, {})
        t[p[-1]] = {"": {"length": len(b), "pieces root": merkle_root(b)}}
    return benc({"info": {"name": name, "piece length": plen,
                          "meta version": 2, "file tree": tree},
                 "piece layers": {}})


def write(path, data):
    os.makedirs(os.path.dirname(path), exist_ok=True)
    with open(path, "wb") as fd:
        fd.write(data)


def present(dest, name, files):
    """Independent count of files that really are at their assigned path."""
    good = 0
    for p, b in files:
        full = os.path.join(dest, name, *p)
        if os.path.isfile(full) and not os.path.islink(full):
            with open(full, "rb") as fd:
                if hashlib.sha256(fd.read()).digest() == \
                        hashlib.sha256(b).digest():
                    good += 1
    return good




def run(kind, base):
    from torrentfile.rebuild import Assembler
    root = os.path.join(base, kind)
    search, dest = os.path.join(root, "search"), os.path.join(root, "dest")
    os.makedirs(dest)
    files1 = [(["a.bin"], os.urandom(40000)),
              (["sub", "b.bin"], os.urandom(20000))]
    files2 = [(["x.bin"], os.urandom(30000)),
              (["deep", "y.bin"], os.urandom(5000))]
    maker = make_v1 if kind == "v1" else make_v2
    metas = []
    for name, files in (("first", files1), ("second", files2)):
        for p, b in files:
            write(os.path.join(search, "stuff", name, *p), b)
        meta = os.path.join(root, name + ".torrent")
        with open(meta, "wb") as fd:
            fd.write(maker(name, files, 16384))
        metas.append(meta)
    # an unrelated regular file where the first torrent needs a directory
    write(os.path.join(dest, "first", "sub"), b"unrelated file")
    buf = io.StringIO()
    error = None
    with contextlib.redirect_stdout(buf), contextlib.redirect_stderr(buf):
        try:
            Assembler(metas, [search], dest).assemble_torrents()
        except Exception as exc:
            error = exc
    got2 = present(dest, "second", files2)
    with open(os.path.join(dest, "first", "sub"), "rb") as fd:
        untouched = fd.read() == b"unrelated file"
    ok = error is None and got2 == len(files2) and untouched
    print(f"[{kind}] expected: obstructed file of 'first' skipped (or "
          f"reported), 'second' rebuilt completely ({len(files2)} files), "
          "no traceback")
    print(f"[{kind}] observed: exception="
          f"{type(error).__name__ if error else None}; files of 'second' "
          f"present and correct: {got2}/{len(files2)}; obstructing file "
          f"untouched: {untouched} -> {'ok' if ok else 'PROBLEM'}")
    return ok


def main():
    base = tempfile.mkdtemp(prefix="rev7F-f3-")
    try:
        results = [run(kind, base) for kind in ("v1", "v2")]
    finally:
        shutil.rmtree(base, ignore_errors=True)
    return 0 if all(results) else 1


if __name__ == "__main__":
    sys.exit(main())
