#!/usr/bin/env python3
"""
finding3 (low severity) - commit 6084755: the new empty-file loop counts a
file as rebuilt although it is not in the destination afterwards.

Input: v1 torrent "tor" with the single empty file e.txt (an empty-files-only
torrent, the case 6084755 adds); the search directory holds an empty e.txt;
the destination already has a *directory* at tor/e.txt.

Expected (C13, last sentence): every file counted as rebuilt is present in
the destination afterwards -> either the count is 0, or tor/e.txt is a file.
Observed at HEAD: assemble_torrents() returns 1, tor/e.txt is still a
directory (copypath returns silently, the callback is fired regardless).

The same unconditional callback exists at the two older call sites
(_match_v1 piece loop, _match_v2); 6084755 adds a third one.
Exit 1 = problem present, exit 0 = not present.
"""
import contextlib
import io
import os
import shutil
import sys
import tempfile


def main():
    tmp = tempfile.mkdtemp(prefix="finding3-")
    try:
        src = os.path.join(tmp, "src")
        os.mkdir(src)
        open(os.path.join(src, "e.txt"), "wb").close()
        meta = os.path.join(tmp, "t.torrent")
        with open(meta, "wb") as fd:
            fd.write(b"d4:infod5:filesld6:lengthi0e4:pathl5:e.txteee"
                     b"4:name3:tor12:piece lengthi16384e6:pieces0:ee")
        dest = os.path.join(tmp, "dest")
        target = os.path.join(dest, "tor", "e.txt")
        os.makedirs(target)  # a directory sits at the file's path
        from torrentfile.rebuild import Assembler
        with contextlib.redirect_stdout(io.StringIO()):
            count = Assembler([meta], [src], dest).assemble_torrents()
        present = os.path.isfile(target)
        if count > 0 and not present:
            print("PROBLEM")
            print("  expected: count 0, or tor/e.txt present as a file")
            print(f"  observed: count {count}, tor/e.txt is "
                  f"{'a directory' if os.path.isdir(target) else 'absent'}")
            return 1
        print(f"ok: count {count}, file present: {present}")
        return 0
    finally:
        shutil.rmtree(tmp, ignore_errors=True)


if __name__ == "__main__":
    sys.exit(main())
