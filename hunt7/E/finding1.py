#!/usr/bin/env python3
"""
finding1 - commit 3ae561f (INCOMPLETE): the v1 candidate search is still
combinatorial when same-named, same-sized candidates have *different* bytes.

Scenario A: a v1 torrent  pkg/m00/docs/index.txt ... pkg/m11/docs/index.txt
            (twelve 3-byte files, every one with its own content, one piece).
            The search directory is an exact, intact copy of that tree and
            nothing else.
Scenario B: a v1 torrent  pkg/m00/f00.txt ... pkg/m25/f25.txt  (26 x 9 bytes,
            one piece); the search directories are an older release of the
            same tree (same names and sizes, other bytes - decoys) and the
            intact release, in that order.

Expected (C13): rebuild finishes promptly and the destination holds every
file, byte-identical, so that the SHA1 of the concatenation equals the piece
recorded in the metafile.
Observed at HEAD: the rebuild does not terminate within the time limit
(12**11 resp. 2**25 piece hashes are enumerated).

Oracle: own bencoder, hashlib, filesystem comparison.  The rebuild runs in a
child process so that it can be killed.
Exit 1 = problem present, exit 0 = not present.
"""
import hashlib
import os
import shutil
import subprocess
import sys
import tempfile
import time

LIMIT = 60  # seconds per scenario; a linear search needs milliseconds
PIECE_LENGTH = 16384

CHILD = r"""
import sys, io, contextlib
from torrentfile.rebuild import Assembler
meta, dest = sys.argv[1], sys.argv[2]
with contextlib.redirect_stdout(io.StringIO()):
    Assembler([meta], sys.argv[3:], dest).assemble_torrents()
"""


def benc(obj):
    if isinstance(obj, int):
        return b"i%de" % obj
    if isinstance(obj, str):
        obj = obj.encode("utf-8")
    if isinstance(obj, bytes):
        return b"%d:%s" % (len(obj), obj)
    if isinstance(obj, list):
        return b"l" + b"".join(benc(i) for i in obj) + b"e"
    if isinstance(obj, dict):
        items = sorted((k.encode("utf-8"), v) for k, v in obj.items())
        return b"d" + b"".join(benc(k) + benc(v) for k, v in items) + b"e"
    raise TypeError(obj)


def write(path, data):
    os.makedirs(os.path.dirname(path), exist_ok=True)
    with open(path, "wb") as fd:
        fd.write(data)


def run_scenario(label, tmp, entries, search_dirs):
    """entries: list of (path components, bytes) in torrent order."""
    payload = b"".join(data for _, data in entries)
    pieces = b"".join(
        hashlib.sha1(payload[i:i + PIECE_LENGTH]).digest()
        for i in range(0, len(payload), PIECE_LENGTH))
    info = {
        "name": "pkg",
        "piece length": PIECE_LENGTH,
        "pieces": pieces,
        "files": [{"length": len(d), "path": list(p)} for p, d in entries],
    }
    meta = os.path.join(tmp, label + ".torrent")
    with open(meta, "wb") as fd:
        fd.write(benc({"info": info}))
    dest = os.path.join(tmp, label + "-dest")
    os.mkdir(dest)
    env = dict(os.environ)
    start = time.time()
    proc = subprocess.Popen(
        [sys.executable, "-c", CHILD, meta, dest, *search_dirs],
        env=env, stdout=subprocess.DEVNULL, stderr=subprocess.PIPE)
    try:
        _, err = proc.communicate(timeout=LIMIT)
        timed_out = False
    except subprocess.TimeoutExpired:
        proc.kill()
        _, err = proc.communicate()
        timed_out = True
    elapsed = time.time() - start
    rebuilt = b""
    missing = []
    for parts, data in entries:
        path = os.path.join(dest, "pkg", *parts)
        if os.path.isfile(path):
            with open(path, "rb") as fd:
                got = fd.read()
        else:
            got = None
        if got != data:
            missing.append("/".join(parts))
        rebuilt += got or b""
    verifies = not missing and pieces == b"".join(
        hashlib.sha1(rebuilt[i:i + PIECE_LENGTH]).digest()
        for i in range(0, len(rebuilt), PIECE_LENGTH))
    if timed_out or not verifies:
        print(f"[{label}] PROBLEM")
        print(f"  expected: rebuild of {len(entries)} small files finishes "
              f"and the destination verifies 100%")
        if timed_out:
            print(f"  observed: rebuild still running after {LIMIT} s "
                  f"(killed); {len(missing)} of {len(entries)} files absent "
                  f"from the destination")
        else:
            print(f"  observed: finished in {elapsed:.1f}s rc={proc.returncode}"
                  f" but {len(missing)} files missing/wrong: {missing[:5]}")
            if err:
                print("  stderr tail:", err.decode("utf-8", "replace")[-400:])
        return False
    print(f"[{label}] ok: {len(entries)} files restored in {elapsed:.2f}s")
    return True


def main():
    tmp = tempfile.mkdtemp(prefix="finding1-")
    try:
        # scenario A: exact copy of the torrent tree, no decoys at all
        entries = [(("m%02d" % i, "docs", "index.txt"), b"%03d" % i)
                   for i in range(12)]
        src = os.path.join(tmp, "A-src")
        for parts, data in entries:
            write(os.path.join(src, "pkg", *parts), data)
        if not run_scenario("A", tmp, entries, [src]):
            return 1
        # scenario B: older release (decoys) listed before the intact release
        entries = [(("m%02d" % i, "f%02d.txt" % i), b"v1.1-%03d\n" % i)
                   for i in range(26)]
        old = os.path.join(tmp, "B-old")
        new = os.path.join(tmp, "B-new")
        for i, (parts, data) in enumerate(entries):
            write(os.path.join(new, "pkg", *parts), data)
            write(os.path.join(old, "pkg", *parts), b"v1.0-%03d\n" % i)
        if not run_scenario("B", tmp, entries, [old, new]):
            return 1
        return 0
    finally:
        shutil.rmtree(tmp, ignore_errors=True)


if __name__ == "__main__":
    sys.exit(main())
