#!/usr/bin/env python3
"""
finding2 - commit 3ae561f (INCOMPLETE / plainly wrong in the rewritten
search): PieceNode._find_matches still recurses one generator frame per file
of a piece (5283f05 added a second recursive branch for padding entries), so
a piece that holds about a thousand files raises RecursionError and the whole
rebuild (and the rest of the batch) aborts with a traceback.

Input: v1 torrent  pkg/f00000.txt ... pkg/f01099.txt, 1100 files of 10 bytes
(distinct names, distinct contents), piece length 1 MiB -> one piece.  The
search directory is an exact intact copy.  No decoys, no duplicates.

Expected (C13): all 1100 files are restored, destination verifies 100%.
Observed at HEAD: RecursionError: maximum recursion depth exceeded; nothing
is copied.

Oracle: own bencoder, hashlib, filesystem comparison.
Exit 1 = problem present, exit 0 = not present.
"""
import hashlib
import os
import shutil
import subprocess
import sys
import tempfile

COUNT = 1100
PIECE_LENGTH = 2**20

CHILD = r"""
import sys, io, contextlib
from torrentfile.rebuild import Assembler
meta, dest = sys.argv[1], sys.argv[2]
with contextlib.redirect_stdout(io.StringIO()):
    Assembler([meta], sys.argv[3:], dest).assemble_torrents()
"""


def benc(obj):
    if isinstance(obj, int):
        return b"i%de" % obj
    if isinstance(obj, str):
        obj = obj.encode("utf-8")
    if isinstance(obj, bytes):
        return b"%d:%s" % (len(obj), obj)
    if isinstance(obj, list):
        return b"l" + b"".join(benc(i) for i in obj) + b"e"
    if isinstance(obj, dict):
        items = sorted((k.encode("utf-8"), v) for k, v in obj.items())
        return b"d" + b"".join(benc(k) + benc(v) for k, v in items) + b"e"
    raise TypeError(obj)


def main():
    tmp = tempfile.mkdtemp(prefix="finding2-")
    try:
        entries = [("f%05d.txt" % i, b"%010d" % i) for i in range(COUNT)]
        src = os.path.join(tmp, "src", "pkg")
        os.makedirs(src)
        for name, data in entries:
            with open(os.path.join(src, name), "wb") as fd:
                fd.write(data)
        payload = b"".join(d for _, d in entries)
        pieces = b"".join(
            hashlib.sha1(payload[i:i + PIECE_LENGTH]).digest()
            for i in range(0, len(payload), PIECE_LENGTH))
        info = {
            "name": "pkg",
            "piece length": PIECE_LENGTH,
            "pieces": pieces,
            "files": [{"length": len(d), "path": [n]} for n, d in entries],
        }
        meta = os.path.join(tmp, "pkg.torrent")
        with open(meta, "wb") as fd:
            fd.write(benc({"info": info}))
        dest = os.path.join(tmp, "dest")
        os.mkdir(dest)
        proc = subprocess.run(
            [sys.executable, "-c", CHILD, meta, dest,
             os.path.join(tmp, "src")],
            stdout=subprocess.DEVNULL, stderr=subprocess.PIPE, timeout=600)
        present = 0
        for name, data in entries:
            path = os.path.join(dest, "pkg", name)
            if os.path.isfile(path):
                with open(path, "rb") as fd:
                    present += fd.read() == data
        if proc.returncode != 0 or present != COUNT:
            err = proc.stderr.decode("utf-8", "replace").strip()
            print("PROBLEM")
            print(f"  expected: all {COUNT} files of the single piece restored"
                  f" from the intact copy, exit status 0")
            print(f"  observed: exit status {proc.returncode}, {present} of "
                  f"{COUNT} files present and identical in the destination")
            if err:
                print("  last stderr line:", err.splitlines()[-1])
            return 1
        print(f"ok: {present} files restored")
        return 0
    finally:
        shutil.rmtree(tmp, ignore_errors=True)


if __name__ == "__main__":
    sys.exit(main())
