#!/usr/bin/env python3
"""
C05 finding 3: after Checker.register_callback(<plain function taking the log
message>) every recheck in the process raises TypeError instead of reporting a
percentage.

register_callback() stores the hook as a *class attribute* (cls._hook = hook)
and log_msg() calls it through the instance (self._hook(message)).  A plain
function or lambda stored on a class is a method: it is called as
hook(self, message).  A hook with the documented one-argument shape therefore
fails on the very first log line of Checker.__init__.  Only hooks declared with
*args (as in the project's own test), bound methods and builtins survive.

Oracle: metafile from the small encoder below (hashlib sha1); control run
without a hook gives 100.0 on the same pair.

Run: PYTHONPATH=/tmp/hunt6-C05 /venv/bin/python finding3.py
exit 1 = property violated, exit 0 = not reproduced.
"""
import contextlib
import hashlib
import io
import os
import shutil
import sys
import tempfile

from torrentfile.recheck import Checker


def benc(obj):
    """Minimal canonical bencoder (independent of pyben)."""
    if isinstance(obj, int):
        return b"i%de" % obj
    if isinstance(obj, str):
        obj = obj.encode("utf-8")
    if isinstance(obj, bytes):
        return b"%d:%s" % (len(obj), obj)
    if isinstance(obj, list):
        return b"l" + b"".join(benc(i) for i in obj) + b"e"
    items = sorted((k.encode(), v) for k, v in obj.items())
    return b"d" + b"".join(benc(k) + benc(v) for k, v in items) + b"e"


def recheck(metafile, content):
    try:
        with contextlib.redirect_stdout(io.StringIO()):
            return Checker(metafile, content).results()
    except Exception as err:  # pylint: disable=broad-except
        return f"raised {type(err).__name__}: {err}"


def main():
    tmp = tempfile.mkdtemp(prefix="c05f3_")
    try:
        plen = 16384
        data = bytes(range(256)) * 80
        single = os.path.join(tmp, "single.bin")
        with open(single, "wb") as fd:
            fd.write(data)
        meta = os.path.join(tmp, "file.torrent")
        pieces = b"".join(
            hashlib.sha1(data[i:i + plen]).digest()
            for i in range(0, len(data), plen))
        with open(meta, "wb") as fd:
            fd.write(benc({"info": {
                "name": "single.bin", "piece length": plen, "pieces": pieces,
                "length": len(data)}}))

        control = recheck(meta, single)
        print("no hook registered        : expected 100.0, got", control)

        messages = []

        def hook(message):
            """Collect log lines, e.g. for a GUI log window."""
            messages.append(message)

        Checker.register_callback(hook)
        try:
            result = recheck(meta, single)
        finally:
            Checker.register_callback(None)
        print("hook(message) registered  : expected 100.0, got", result)
        print("messages delivered to hook:", len(messages))
    finally:
        shutil.rmtree(tmp, ignore_errors=True)

    if control == 100.0 and result != 100.0:
        print("VIOLATION: recheck of intact content raises once a "
              "one-argument logging callback is registered")
        return 1
    print("not reproduced")
    return 0


if __name__ == "__main__":
    sys.exit(main())
