#!/usr/bin/env python3
"""
C05 finding 1: a BEP 47 symbolic-link entry (attr "l", length 0) makes recheck
read the link's *target* as if it were the entry's data.

v1 : the target's bytes are injected into the piece stream -> intact payload
     is reported as 50% (or less) instead of 100%.
v2 : the zero-length entry has no pieces root; the hasher still yields a hash
     for the target's data -> TypeError: 'NoneType' object is not subscriptable.

Oracle: the metafiles are written by the small spec-level encoder below
(hashlib only); the payload on disk is exactly what the metafile describes
(one regular file + one symlink to it), which is checked with os.lstat/readlink
and by re-hashing the payload with hashlib before torrentfile is called.

Run: PYTHONPATH=/tmp/hunt6-C05 /venv/bin/python finding1.py
exit 1 = property violated, exit 0 = not reproduced.
"""
import contextlib
import hashlib
import io
import os
import shutil
import stat
import sys
import tempfile

from torrentfile.recheck import Checker

BLOCK = 16384


def benc(obj):
    """Minimal canonical bencoder (independent of pyben)."""
    if isinstance(obj, int):
        return b"i%de" % obj
    if isinstance(obj, str):
        obj = obj.encode("utf-8")
    if isinstance(obj, bytes):
        return b"%d:%s" % (len(obj), obj)
    if isinstance(obj, list):
        return b"l" + b"".join(benc(i) for i in obj) + b"e"
    items = sorted((k.encode() if isinstance(k, str) else k, v)
                   for k, v in obj.items())
    return b"d" + b"".join(benc(k) + benc(v) for k, v in items) + b"e"


def v1_pieces(data, plen):
    return b"".join(
        hashlib.sha1(data[i:i + plen]).digest()
        for i in range(0, len(data), plen))


def v2_root_small(data):
    """pieces root of a file that is not larger than one piece (BEP 52)."""
    leaves = [
        hashlib.sha256(data[i:i + BLOCK]).digest()
        for i in range(0, len(data), BLOCK)
    ]
    size = 1
    while size < len(leaves):
        size *= 2
    leaves += [bytes(32)] * (size - len(leaves))
    while len(leaves) > 1:
        leaves = [
            hashlib.sha256(leaves[i] + leaves[i + 1]).digest()
            for i in range(0, len(leaves), 2)
        ]
    return leaves[0]


def recheck(metafile, content):
    try:
        with contextlib.redirect_stdout(io.StringIO()):
            return Checker(metafile, content).results()
    except Exception as err:  # pylint: disable=broad-except
        return f"raised {type(err).__name__}: {err}"


def main():
    tmp = tempfile.mkdtemp(prefix="c05f1_")
    failures = []
    try:
        plen = 32768
        data = bytes(range(256)) * 80  # 20480 bytes, one short piece
        root = os.path.join(tmp, "payload")
        os.mkdir(root)
        with open(os.path.join(root, "a.bin"), "wb") as fd:
            fd.write(data)
        os.symlink("a.bin", os.path.join(root, "link"))

        # the payload is exactly what the metafiles below describe
        assert stat.S_ISLNK(os.lstat(os.path.join(root, "link")).st_mode)
        assert os.readlink(os.path.join(root, "link")) == "a.bin"
        with open(os.path.join(root, "a.bin"), "rb") as fd:
            assert fd.read() == data

        # ---- v1, BEP 3 + BEP 47 -------------------------------------------
        info1 = {
            "name": "payload",
            "piece length": plen,
            "files": [
                {"length": len(data), "path": ["a.bin"]},
                {"attr": "l", "length": 0, "path": ["link"],
                 "symlink path": ["a.bin"]},
            ],
            # the symlink entry contributes 0 bytes to the piece stream
            "pieces": v1_pieces(data, plen),
        }
        meta1 = os.path.join(tmp, "v1.torrent")
        with open(meta1, "wb") as fd:
            fd.write(benc({"info": info1}))

        # ---- v2, BEP 52 + BEP 47 ------------------------------------------
        root_hash = v2_root_small(data)
        info2 = {
            "name": "payload",
            "piece length": plen,
            "meta version": 2,
            "file tree": {
                "a.bin": {"": {"length": len(data),
                               "pieces root": root_hash}},
                "link": {"": {"attr": "l", "length": 0,
                              "symlink path": ["a.bin"]}},
            },
        }
        meta2 = os.path.join(tmp, "v2.torrent")
        with open(meta2, "wb") as fd:
            fd.write(benc({"info": info2, "piece layers": {}}))

        # control: the same payload and hashes, only the symlink entry is
        # left out of the file list; this must (and does) give 100.
        ctrl = dict(info1, files=info1["files"][:1])
        metac = os.path.join(tmp, "ctrl.torrent")
        with open(metac, "wb") as fd:
            fd.write(benc({"info": ctrl}))
        print("control (no symlink entry), root  :", recheck(metac, root))

        for label, meta in (("v1", meta1), ("v2", meta2)):
            for where, content in (("root", root), ("parent", tmp)):
                result = recheck(meta, content)
                print(f"{label} symlink entry, content={where:6}: "
                      f"expected 100.0, got {result}")
                if result != 100.0:
                    failures.append((label, where, result))
    finally:
        shutil.rmtree(tmp, ignore_errors=True)

    if failures:
        print("VIOLATION: intact payload of a well-formed BEP 47 metafile is "
              "not reported as 100%")
        return 1
    print("not reproduced")
    return 0


if __name__ == "__main__":
    sys.exit(main())
