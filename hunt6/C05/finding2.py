#!/usr/bin/env python3
"""
C05 finding 2: the interactive front end cannot recheck anything when the
operator answers the prompts as they are worded.

interactive.recheck_torrent() asks "Conent Path (...)" first and stores the
answer in `metafile`, then asks "Metafile (*.torrent)" and stores the answer in
`contents`, and calls Checker(metafile, contents).  Answering each prompt with
what it asks for therefore hands the payload to the decoder and the metafile to
the content search: a directory payload raises ArgumentError, a single file
payload raises a decoder error.  Expected: 100.

Oracle: metafile written by the small encoder below, sha1 via hashlib; the
same metafile/payload pair gives 100.0 through Checker directly (control).

Run: PYTHONPATH=/tmp/hunt6-C05 /venv/bin/python finding2.py
exit 1 = property violated, exit 0 = not reproduced.
"""
import builtins
import contextlib
import hashlib
import io
import os
import shutil
import sys
import tempfile

from torrentfile import interactive
from torrentfile.recheck import Checker


def benc(obj):
    """Minimal canonical bencoder (independent of pyben)."""
    if isinstance(obj, int):
        return b"i%de" % obj
    if isinstance(obj, str):
        obj = obj.encode("utf-8")
    if isinstance(obj, bytes):
        return b"%d:%s" % (len(obj), obj)
    if isinstance(obj, list):
        return b"l" + b"".join(benc(i) for i in obj) + b"e"
    items = sorted((k.encode(), v) for k, v in obj.items())
    return b"d" + b"".join(benc(k) + benc(v) for k, v in items) + b"e"


def main():
    tmp = tempfile.mkdtemp(prefix="c05f2_")
    real_input = builtins.input
    failures = []
    try:
        plen = 16384
        data = bytes(range(256)) * 80
        pieces = b"".join(
            hashlib.sha1(data[i:i + plen]).digest()
            for i in range(0, len(data), plen))

        # directory payload
        root = os.path.join(tmp, "payload")
        os.mkdir(root)
        with open(os.path.join(root, "a.bin"), "wb") as fd:
            fd.write(data)
        meta_dir = os.path.join(tmp, "dir.torrent")
        with open(meta_dir, "wb") as fd:
            fd.write(benc({"info": {
                "name": "payload", "piece length": plen, "pieces": pieces,
                "files": [{"length": len(data), "path": ["a.bin"]}]}}))

        # single file payload
        single = os.path.join(tmp, "single.bin")
        with open(single, "wb") as fd:
            fd.write(data)
        meta_file = os.path.join(tmp, "file.torrent")
        with open(meta_file, "wb") as fd:
            fd.write(benc({"info": {
                "name": "single.bin", "piece length": plen, "pieces": pieces,
                "length": len(data)}}))

        for label, meta, content in (("directory", meta_dir, root),
                                     ("single file", meta_file, single)):
            with contextlib.redirect_stdout(io.StringIO()):
                control = Checker(meta, content).results()
            print(f"{label}: Checker(metafile, content) control -> {control}")

            asked = []

            def answer(prompt, meta=meta, content=content, asked=asked):
                """Answer every prompt with what its text asks for."""
                asked.append(prompt)
                low = prompt.lower()
                if "metafile" in low or ".torrent" in low:
                    return meta
                if "path" in low:  # "Conent Path (downloads/complete/...)"
                    return content
                raise AssertionError(f"unexpected prompt {prompt!r}")

            builtins.input = answer
            try:
                with contextlib.redirect_stdout(io.StringIO()):
                    result = interactive.recheck_torrent()
            except Exception as err:  # pylint: disable=broad-except
                result = f"raised {type(err).__name__}: {str(err)[:70]}"
            finally:
                builtins.input = real_input
            print(f"{label}: prompts were {asked}")
            print(f"{label}: interactive recheck expected 100.0, got {result}")
            if result != 100.0:
                failures.append(label)
    finally:
        builtins.input = real_input
        shutil.rmtree(tmp, ignore_errors=True)

    if failures:
        print("VIOLATION: interactive recheck of intact content does not "
              "report 100% when the prompts are answered as worded")
        return 1
    print("not reproduced")
    return 0


if __name__ == "__main__":
    sys.exit(main())
