#!/usr/bin/env python
"""
C11 finding 1 (borderline, see notes.md): torrentfile.magnet(metafile, version=<str>)

The project spells the version request as text everywhere else ("1"/"2"/"3":
CLI choices, create's meta_version, config file).  magnet() compares its
`version` argument with the integers 0/1/3 only, so the same request spelled as
text is silently misread: for a hybrid metafile "1" (v1 only), "3" (both) and
"0" (automatic) all yield a v2-only magnet with no urn:btih at all.

Exit 1 = property violated, 0 = not violated.
"""
import contextlib
import hashlib
import io
import os
import shutil
import sys
import tempfile

import torrentfile
from torrentfile.torrent import TorrentAssembler


def info_span(raw):
    """Return the exact bytes of the top-level info dictionary (own decoder)."""

    def skip(i):
        c = raw[i:i + 1]
        if c == b"i":
            return raw.index(b"e", i) + 1
        if c in (b"l", b"d"):
            i += 1
            while raw[i:i + 1] != b"e":
                i = skip(i)
            return i + 1
        j = raw.index(b":", i)
        return j + 1 + int(raw[i:j])

    i = 1
    while raw[i:i + 1] != b"e":
        j = raw.index(b":", i)
        key = raw[j + 1:j + 1 + int(raw[i:j])]
        i = j + 1 + len(key)
        end = skip(i)
        if key == b"info":
            return raw[i:end]
        i = end
    raise ValueError("no info")


def main():
    tmp = tempfile.mkdtemp()
    bad = 0
    try:
        content = os.path.join(tmp, "payload.bin")
        with open(content, "wb") as fd:
            fd.write(b"x")
        out = os.path.join(tmp, "hybrid.torrent")
        with contextlib.redirect_stdout(io.StringIO()):
            # the create API takes the version as text (as the CLI passes it)
            TorrentAssembler(path=content, meta_version="3",
                             outfile=out).write()
        info = info_span(open(out, "rb").read())
        assert b"6:pieces" in info and b"12:meta version" in info
        btih = "xt=urn:btih:" + hashlib.sha1(info).hexdigest()
        btmh = "xt=urn:btmh:1220" + hashlib.sha256(info).hexdigest()
        want = {0: (True, True), 1: (True, False), 2: (False, True),
                3: (True, True)}
        for req in (0, 1, 2, 3, "0", "1", "2", "3"):
            with contextlib.redirect_stdout(io.StringIO()):
                uri = torrentfile.magnet(out, version=req)
            got = (btih in uri, btmh in uri)
            exp = want[int(req)]
            ok = got == exp
            bad += not ok
            print(f"version={req!r:4} expected btih={exp[0]!s:5} "
                  f"btmh={exp[1]!s:5} got btih={got[0]!s:5} btmh={got[1]!s:5}"
                  f"  {'ok' if ok else 'VIOLATION'}")
    finally:
        shutil.rmtree(tmp, ignore_errors=True)
    if bad:
        print(f"{bad} version request(s) answered with the wrong hash set")
        return 1
    print("property holds")
    return 0


if __name__ == "__main__":
    sys.exit(main())
