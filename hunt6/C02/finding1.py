#!/usr/bin/env python
"""
C02 finding 1: entries that are neither a regular file nor a directory
(here: a dangling symlink; a FIFO or socket behaves the same) are written into the v2 / hybrid
"file tree" as *directory* nodes (`name: {}`), so the file tree names a
directory that the content directory does not have.

Oracle: own strict bencode decoder + os.path.isdir / os.path.isfile on disk.
Exit 1 = property violated, 0 = holds.
"""
import os
import shutil
import sys
import tempfile


def bdecode(data):
    def dec(i):
        c = data[i:i + 1]
        if c == b"i":
            j = data.index(b"e", i)
            return int(data[i + 1:j]), j + 1
        if c == b"l":
            i += 1
            out = []
            while data[i:i + 1] != b"e":
                v, i = dec(i)
                out.append(v)
            return out, i + 1
        if c == b"d":
            i += 1
            out = {}
            while data[i:i + 1] != b"e":
                k, i = dec(i)
                v, i = dec(i)
                out[k] = v
            return out, i + 1
        j = data.index(b":", i)
        n = int(data[i:j])
        return data[j + 1:j + 1 + n], j + 1 + n
    return dec(0)[0]


def tree_nodes(tree, prefix=""):
    """Yield (relpath, kind) for every node of a BEP 52 file tree."""
    for key, val in tree.items():
        rel = os.path.join(prefix, key.decode())
        if set(val) == {b""}:
            yield rel, "file"
        else:
            yield rel, "dir"
            yield from tree_nodes(val, rel)


def disk_nodes(root):
    """Files and directories really present (symlinks followed)."""
    for dirpath, dirs, files in os.walk(root, followlinks=True):
        for d in dirs:
            yield os.path.relpath(os.path.join(dirpath, d), root), "dir"
        for f in files:
            p = os.path.join(dirpath, f)
            if os.path.isfile(p):
                yield os.path.relpath(p, root), "file"


def main():
    from torrentfile.torrent import (TorrentAssembler, TorrentFileHybrid,
                                     TorrentFileV2)
    tmp = tempfile.mkdtemp(prefix="c02f1_")
    failed = False
    try:
        content = os.path.join(tmp, "content")
        os.mkdir(content)
        with open(os.path.join(content, "a.bin"), "wb") as fd:
            fd.write(b"x")
        os.symlink("does-not-exist", os.path.join(content, "broken"))
        expected = sorted(disk_nodes(content))
        creators = [
            ("TorrentAssembler v2 (CLI --meta-version 2)",
             lambda: TorrentAssembler(path=content, piece_length=16384,
                                      progress=0, meta_version="2")),
            ("TorrentAssembler hybrid (CLI --meta-version 3)",
             lambda: TorrentAssembler(path=content, piece_length=16384,
                                      progress=0, meta_version="3")),
            ("TorrentFileV2 (interactive)",
             lambda: TorrentFileV2(path=content, piece_length=16384,
                                   progress=0)),
            ("TorrentFileHybrid (interactive)",
             lambda: TorrentFileHybrid(path=content, piece_length=16384,
                                       progress=0)),
        ]
        for label, make in creators:
            out = os.path.join(tmp, "out.torrent")
            make().write(out)
            with open(out, "rb") as fd:
                meta = bdecode(fd.read())
            got = sorted(tree_nodes(meta[b"info"][b"file tree"]))
            if got != expected:
                failed = True
                print(f"VIOLATION [{label}]")
                print("  content directory holds :", expected)
                print("  file tree describes     :", got)
                extra = [n for n in got if n not in expected]
                print("  nodes without counterpart on disk:", extra)
            else:
                print(f"ok [{label}]")
    finally:
        shutil.rmtree(tmp, ignore_errors=True)
    return 1 if failed else 0


if __name__ == "__main__":
    sys.exit(main())
