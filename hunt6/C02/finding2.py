#!/usr/bin/env python
"""
C02 finding 2: registering a progress callback through the documented
library hook `set_callback(func)` ("callback function which accepts a
single parameter") makes every v2 / hybrid creator raise TypeError for
every content tree, for the rest of the process (CLI `execute` included).

Oracle: hashlib (a 1-byte file has pieces root == sha256(content)) + own
bencode scan.  Exit 1 = property violated, 0 = holds.
"""
import hashlib
import os
import shutil
import sys
import tempfile


def main():
    from torrentfile.torrent import (TorrentAssembler, TorrentFileHybrid,
                                     TorrentFileV2)
    tmp = tempfile.mkdtemp(prefix="c02f2_")
    failed = False
    try:
        content = os.path.join(tmp, "a.bin")
        with open(content, "wb") as fd:
            fd.write(b"x")
        root = hashlib.sha256(b"x").digest()
        wanted = (b"9:file treed5:a.bind0:d6:lengthi1e11:pieces root32:" +
                  root + b"eee")

        seen = []

        def callback(layer_hash):          # one parameter, as documented
            seen.append(layer_hash)

        for cls, mv in ((TorrentFileV2, "2"), (TorrentFileHybrid, "3"),
                        (TorrentAssembler, "2"), (TorrentAssembler, "3")):
            label = f"{cls.__name__} meta_version={mv}"
            out = os.path.join(tmp, "out.torrent")
            cls.set_callback(callback)
            try:
                cls(path=content, piece_length=16384, progress=0,
                    meta_version=mv).write(out)
            except Exception as err:  # pylint: disable=broad-except
                failed = True
                print(f"VIOLATION [{label}]")
                print("  expected: metafile with pieces root", root.hex())
                print(f"  happened: {type(err).__name__}: {err}")
                continue
            with open(out, "rb") as fd:
                data = fd.read()
            if wanted not in data:
                failed = True
                print(f"VIOLATION [{label}]: wrong file tree")
            else:
                print(f"ok [{label}] callback saw {len(seen)} hash(es)")

        # the hook is stored on the hasher class: the CLI in the same
        # process is broken as well
        from torrentfile.cli import execute
        out = os.path.join(tmp, "cli.torrent")
        try:
            execute(["create", "--meta-version", "2", "--prog", "0",
                     "-o", out, content])
            print("ok [CLI after set_callback]")
        except Exception as err:  # pylint: disable=broad-except
            failed = True
            print("VIOLATION [CLI create --meta-version 2 in same process]")
            print(f"  happened: {type(err).__name__}: {err}")
    finally:
        shutil.rmtree(tmp, ignore_errors=True)
    return 1 if failed else 0


if __name__ == "__main__":
    sys.exit(main())
