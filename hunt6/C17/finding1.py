#!/usr/bin/env python
"""
C17 finding 1 - a boolean (or any non-string) used as a dictionary KEY inside
an edit value is not refused: edit_torrent() returns normally and atomically
replaces the metafile with bytes that are not bencode (`...diTruee1:xe...`),
which no decoder - pyben included - can read back.

The earlier repair (`_reject_bool`, torrentfile/edit.py:93-112) walks dict
*values* and list items only.

Run with:  PYTHONPATH=/tmp/hunt6-C17 /venv/bin/python finding1.py
exit 1 = property violated, exit 0 = not violated.
"""
import hashlib
import os
import shutil
import sys
import tempfile

from torrentfile.edit import edit_torrent


# --- independent strict bencode decoder (BEP 3) ----------------------------
def bdecode(b, i=0):
    c = b[i:i + 1]
    if c == b"i":
        j = b.index(b"e", i)
        s = b[i + 1:j]
        body = s[1:] if s[:1] == b"-" else s
        if not body.isdigit() or (len(body) > 1 and body[:1] == b"0") \
                or s == b"-0":
            raise ValueError("malformed integer %r at offset %d" % (s, i))
        return int(s), j + 1
    if c == b"l":
        i += 1
        out = []
        while b[i:i + 1] != b"e":
            v, i = bdecode(b, i)
            out.append(v)
        return out, i + 1
    if c == b"d":
        i += 1
        out = {}
        while b[i:i + 1] != b"e":
            if not b[i:i + 1].isdigit():
                raise ValueError("dictionary key at offset %d is not a "
                                 "byte string: %r" % (i, b[i:i + 8]))
            k, i = bdecode(b, i)
            v, i = bdecode(b, i)
            out[k] = v
        return out, i + 1
    if c.isdigit():
        j = b.index(b":", i)
        n = int(b[i:j])
        s = b[j + 1:j + 1 + n]
        if len(s) != n:
            raise ValueError("string at offset %d runs past end of file" % i)
        return s, j + 1 + n
    raise ValueError("unexpected byte %r at offset %d" % (c, i))


def complete_metafile(raw):
    """Return None if raw is a complete metafile, else the reason it is not."""
    try:
        val, end = bdecode(raw)
    except (ValueError, IndexError) as err:
        return "not bencode: %s" % err
    if end != len(raw):
        return "trailing bytes after offset %d" % end
    if not isinstance(val, dict) or not isinstance(val.get(b"info"), dict):
        return "no info dictionary"
    return None


ORIGINAL = (b"d8:announce9:http://a/4:infod6:lengthi5e4:name1:a"
            b"12:piece lengthi16384e6:pieces20:" + bytes(range(200, 220)) +
            b"ee")
assert complete_metafile(ORIGINAL) is None

# the value of the request cannot be bencoded: dictionary keys must be strings
REQUEST = {"comment": {True: "x"}}


def main():
    tmp = tempfile.mkdtemp(prefix="c17-finding1-")
    try:
        path = os.path.join(tmp, "a.torrent")
        with open(path, "wb") as fd:
            fd.write(ORIGINAL)
        error = None
        try:
            edit_torrent(path, dict(REQUEST))
        except Exception as err:  # a refusal is the expected outcome
            error = err
        if not os.path.exists(path):
            after = None
        else:
            with open(path, "rb") as fd:
                after = fd.read()
        others = sorted(set(os.listdir(tmp)) - {"a.torrent"})
    finally:
        shutil.rmtree(tmp)

    print("request           :", REQUEST)
    print("edit raised       :", repr(error))
    print("sha1 original     :", hashlib.sha1(ORIGINAL).hexdigest())
    print("sha1 at path after:",
          hashlib.sha1(after).hexdigest() if after is not None else "MISSING")
    print("other files left  :", others)

    if after == ORIGINAL:
        print("OK: the path still holds the complete previous metafile")
        return 0
    reason = "file is missing" if after is None else complete_metafile(after)
    if reason is None and error is None:
        print("OK: the path holds a complete edited metafile")
        return 0
    print("EXPECTED: the edit is refused (as it is for {'comment': True} or "
          "{'comment': {'k': True}}) and the path keeps the complete "
          "previous metafile, or the path holds a complete edited metafile")
    print("HAPPENED: no error was raised and the path now holds neither: %s"
          % reason)
    if after is not None:
        print("bytes at path     :", after[:70], "...")
        try:
            import pyben
            pyben.loads(after)
            print("(pyben itself still decodes it)")
        except Exception as err:
            print("(pyben itself cannot load it either: %s: %s)" %
                  (type(err).__name__, err))
    return 1


if __name__ == "__main__":
    sys.exit(main())
