#!/usr/bin/env python
"""
C18 finding 1: create overwrites a payload file when the (default) output
path lies inside the content tree.

Scenario A (no -o at all, the default output path):
    cd d && torrentfile create .        # writes d/d.torrent   (inside payload)
    cd d && torrentfile create .        # hashes d/d.torrent as payload,
                                        # then overwrites it
Scenario B (one run, explicit -o that names a payload file):
    torrentfile create -o d/a.bin d

Oracle: sha256 snapshots of the content tree taken by this script before and
after each run, plus an independent bdecoder + hashlib.sha1 piece check.

exit 1 = property violated, exit 0 = holds.
"""
import hashlib
import os
import shutil
import subprocess
import sys
import tempfile


def bdecode(data, i=0):
    c = data[i:i + 1]
    if c == b"i":
        j = data.index(b"e", i)
        return int(data[i + 1:j]), j + 1
    if c == b"l":
        i += 1
        out = []
        while data[i:i + 1] != b"e":
            val, i = bdecode(data, i)
            out.append(val)
        return out, i + 1
    if c == b"d":
        i += 1
        out = {}
        while data[i:i + 1] != b"e":
            key, i = bdecode(data, i)
            val, i = bdecode(data, i)
            out[key] = val
        return out, i + 1
    j = data.index(b":", i)
    n = int(data[i:j])
    return data[j + 1:j + 1 + n], j + 1 + n


def snapshot(root):
    """relative name -> (kind, sha256/size) for everything under root."""
    out = {}
    for dirpath, dirs, files in os.walk(root):
        for name in dirs:
            out[os.path.relpath(os.path.join(dirpath, name), root)] = ("dir", )
        for name in files:
            path = os.path.join(dirpath, name)
            with open(path, "rb") as fd:
                data = fd.read()
            out[os.path.relpath(path, root)] = (
                "file", len(data), hashlib.sha256(data).hexdigest())
    return out


def torrentfile(args, cwd):
    proc = subprocess.run(
        [sys.executable, "-m", "torrentfile", *args],
        cwd=cwd,
        stdout=subprocess.PIPE,
        stderr=subprocess.STDOUT,
        check=False,
    )
    return proc.returncode, proc.stdout.decode("utf-8", "replace")


def diff(before, after):
    lines = []
    for key in sorted(set(before) | set(after)):
        if before.get(key) != after.get(key):
            lines.append(f"    {key!r}: {before.get(key)} -> {after.get(key)}")
    return lines


def scenario_a(tmp, version):
    """cd d && torrentfile create . (twice)."""
    bad = False
    payload = os.path.join(tmp, f"A{version}", "d")
    os.makedirs(payload)
    with open(os.path.join(payload, "a.bin"), "wb") as fd:
        fd.write(b"0123456789" * 10)
    print(f"--- scenario A, --meta-version {version}: "
          "cd d && torrentfile create .   (run twice)")
    args = ["-q", "create", "--meta-version", version, "."]

    before = snapshot(payload)
    code, out = torrentfile(args, payload)
    after = snapshot(payload)
    print(f"  run 1 exit code {code}")
    new = sorted(set(after) - set(before))
    print(f"  run 1: content directory gained {new} "
          "(the default output path is inside the payload)")
    if not new:
        print("  run 1 did not write inside the payload: scenario not "
              "reproduced")
        return False
    outname = new[0]

    # The payload of run 2 is everything that is in d now.
    before = snapshot(payload)
    code, out = torrentfile(args, payload)
    after = snapshot(payload)
    print(f"  run 2 exit code {code}")
    with open(os.path.join(payload, outname), "rb") as fd:
        meta, _ = bdecode(fd.read())
    info = meta[b"info"]
    if b"files" in info:
        listed = {
            "/".join(p.decode() for p in f[b"path"]): f[b"length"]
            for f in info[b"files"] if f.get(b"attr") != b"p"
        }
    else:
        listed = {
            k.decode(): v[b""][b"length"]
            for k, v in info[b"file tree"].items()
        }
    print(f"  run 2 metafile lists payload files: {listed}")
    changes = diff(before, after)
    payload_changes = [k for k in listed if before.get(k) != after.get(k)]
    print("  expected: every file that run 2 read as payload is "
          "byte-for-byte unchanged")
    if payload_changes:
        bad = True
        print("  OBSERVED: payload file(s) modified by create:")
        for line in changes:
            print(line)
        for k in payload_changes:
            print(f"    metafile says {k!r} has length {listed[k]}, "
                  f"on disk it now has {after[k][1]}")
    else:
        print("  observed: unchanged")

    # independent piece check for v1 / hybrid: the torrent just written
    # does not describe the payload that is on disk
    if b"pieces" in info and b"files" in info:
        plen = info[b"piece length"]
        stream = b""
        for f in info[b"files"]:
            if f.get(b"attr") == b"p":
                stream += bytes(f[b"length"])
                continue
            path = os.path.join(payload, *[p.decode() for p in f[b"path"]])
            with open(path, "rb") as fd:
                stream += fd.read()[:f[b"length"]].ljust(f[b"length"], b"\0")
        want = info[b"pieces"]
        got = b"".join(
            hashlib.sha1(stream[i:i + plen]).digest()
            for i in range(0, len(stream), plen))
        print("  v1 pieces of the new metafile match the payload on disk: "
              f"{want == got}")
    return bad


def scenario_b(tmp):
    """torrentfile create -o d/a.bin d."""
    root = os.path.join(tmp, "B")
    payload = os.path.join(root, "d")
    os.makedirs(payload)
    with open(os.path.join(payload, "a.bin"), "wb") as fd:
        fd.write(b"0123456789" * 10)
    with open(os.path.join(payload, "b.bin"), "wb") as fd:
        fd.write(b"abcdefghij" * 10)
    print("--- scenario B: torrentfile create -o d/a.bin d")
    before = snapshot(payload)
    code, out = torrentfile(["-q", "create", "-o", "d/a.bin", "d"], root)
    after = snapshot(payload)
    print(f"  exit code {code}")
    print("  expected: payload unchanged (create refuses, or writes elsewhere)")
    changes = diff(before, after)
    if changes:
        print("  OBSERVED: payload modified by create:")
        for line in changes:
            print(line)
        return True
    print("  observed: unchanged")
    return False


def main():
    tmp = tempfile.mkdtemp(prefix="c18f1-")
    bad = False
    try:
        for version in ("1", "2", "3"):
            bad |= scenario_a(tmp, version)
        bad |= scenario_b(tmp)
    finally:
        shutil.rmtree(tmp, ignore_errors=True)
    print("RESULT:", "VIOLATION (create modified its payload)"
          if bad else "property holds")
    return 1 if bad else 0


if __name__ == "__main__":
    sys.exit(main())
