#!/usr/bin/env python
"""
C18 finding 2: the writability probe of create can leave a second file behind.

check_path_writable() opens a probe path with mode "ab" and removes it again
only if nothing was there before (os.path.lexists).  When the probe path is a
dangling symbolic link, lexists() is True, open() creates the link's *target*
and nothing removes it.  That is harmless only if the probe path is also the
path the metafile is finally written to.  It is not in these cases:

  A. torrentfile create -o out/ p     probe = out/.torrent, output = out/p.torrent
  B. torrentfile create p             probe = ./.torrent,   output = ./p.torrent
  C. torrentfile create -o link.torrent --piece-length 5 p
                                      probe = link.torrent, then create fails
                                      (invalid piece length): nothing should
                                      have been written at all

Oracle: a recursive snapshot (names, kinds, sha256, link targets) of the whole
sandbox taken by this script before and after the command.

exit 1 = property violated, exit 0 = holds.
"""
import hashlib
import os
import shutil
import subprocess
import sys
import tempfile


def snapshot(root):
    out = {}
    for dirpath, dirs, files in os.walk(root):
        for name in dirs + files:
            path = os.path.join(dirpath, name)
            rel = os.path.relpath(path, root)
            if os.path.islink(path):
                out[rel] = ("symlink", os.readlink(path))
            elif os.path.isdir(path):
                out[rel] = ("dir", )
            else:
                with open(path, "rb") as fd:
                    data = fd.read()
                out[rel] = ("file", len(data),
                            hashlib.sha256(data).hexdigest())
    return out


def torrentfile(args, cwd):
    proc = subprocess.run(
        [sys.executable, "-m", "torrentfile", *args],
        cwd=cwd,
        stdout=subprocess.PIPE,
        stderr=subprocess.STDOUT,
        check=False,
    )
    last = proc.stdout.decode("utf-8", "replace").strip().splitlines()
    return proc.returncode, (last[-1] if last else "")


def sandbox(tmp, label):
    root = os.path.join(tmp, label)
    os.makedirs(os.path.join(root, "p"))
    os.makedirs(os.path.join(root, "out"))
    with open(os.path.join(root, "p", "a.bin"), "wb") as fd:
        fd.write(b"0123456789" * 10)
    return root


def check(label, root, args, allowed_new):
    before = snapshot(root)
    code, last = torrentfile(args, root)
    after = snapshot(root)
    created = sorted(set(after) - set(before))
    changed = sorted(k for k in before if before[k] != after.get(k))
    print(f"--- {label}: torrentfile {' '.join(args)}")
    print(f"  exit code {code}" + (f"   ({last})" if code else ""))
    print(f"  expected: new entries == {sorted(allowed_new)}, "
          "nothing else changed")
    print(f"  observed: new entries == {created}, changed == {changed}")
    for name in created:
        print(f"    {name!r}: {after[name]}")
    bad = created != sorted(allowed_new) or bool(changed)
    print("  ->", "VIOLATION" if bad else "ok")
    return bad


def main():
    tmp = tempfile.mkdtemp(prefix="c18f2-")
    bad = False
    try:
        # A: -o names a directory (trailing slash); that directory holds a
        #    dangling symlink called ".torrent"
        root = sandbox(tmp, "A")
        os.symlink("../ghostA.bin", os.path.join(root, "out", ".torrent"))
        bad |= check("A", root, ["-q", "create", "-o", "out/", "p"],
                     ["out/p.torrent"])

        # B: no -o; the current directory holds a dangling symlink ".torrent"
        root = sandbox(tmp, "B")
        os.symlink("ghostB.bin", os.path.join(root, ".torrent"))
        bad |= check("B", root, ["-q", "create", "p"], ["p.torrent"])

        # C: -o is a dangling symlink and create fails after the probe
        root = sandbox(tmp, "C")
        os.symlink("ghostC.bin", os.path.join(root, "link.torrent"))
        bad |= check(
            "C", root,
            ["-q", "create", "-o", "link.torrent", "--piece-length", "5", "p"],
            [])

        # control: same commands without the symlink write exactly one file
        root = sandbox(tmp, "ctl")
        bad |= check("control", root, ["-q", "create", "-o", "out/", "p"],
                     ["out/p.torrent"])
    finally:
        shutil.rmtree(tmp, ignore_errors=True)
    print("RESULT:",
          "VIOLATION (create wrote a file that is not the output metafile)"
          if bad else "property holds")
    return 1 if bad else 0


if __name__ == "__main__":
    sys.exit(main())
