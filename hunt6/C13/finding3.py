#!/usr/bin/env python3
"""
C13 finding 3: a same-sized file with other content at the destination path
is kept, and still counted as rebuilt.

utils.copypath() returns without copying when the destination path exists
and is at least as large as the verified source - it compares sizes only.
Metadata._match_v1 / _match_v2 call the "copied" callback unconditionally
afterwards.  So when the destination already holds a file of the right name
and size but wrong content (a corrupt earlier download - the typical reason to
run rebuild -, or a same-named/same-sized decoy when the search directory is
itself the destination), rebuild reports the file as rebuilt, yet the result
does not verify against the metafile.

Run:  PYTHONPATH=/tmp/hunt6-C13 /venv/bin/python finding3.py
exit 1 = property violated, exit 0 = not violated.
"""
import contextlib
import hashlib
import io
import os
import shutil
import sys
import tempfile

PLEN = 16384
GOOD = b"G" * 100        # what the torrent describes
STALE = b"S" * 100       # same name, same size, other content


def benc(o):
    if isinstance(o, int):
        return b"i%de" % o
    if isinstance(o, str):
        o = o.encode()
    if isinstance(o, bytes):
        return b"%d:%s" % (len(o), o)
    if isinstance(o, list):
        return b"l" + b"".join(benc(x) for x in o) + b"e"
    if isinstance(o, dict):
        items = sorted((k.encode(), v) for k, v in o.items())
        return b"d" + b"".join(benc(k) + benc(v) for k, v in items) + b"e"
    raise TypeError(type(o))


def metafile(version):
    info = {"name": "T", "piece length": PLEN}
    if version == 1:
        info["files"] = [{"length": len(GOOD), "path": ["a.bin"]}]
        info["pieces"] = hashlib.sha1(GOOD).digest()
        return benc({"info": info})
    # one 16 KiB block: the pieces root is the SHA256 of the content
    info["meta version"] = 2
    info["file tree"] = {"a.bin": {"": {
        "length": len(GOOD), "pieces root": hashlib.sha256(GOOD).digest()}}}
    return benc({"info": info, "piece layers": {}})


def rebuild(meta, search, dest):
    from torrentfile.cli import execute
    with contextlib.redirect_stdout(io.StringIO()):
        return execute(["rebuild", "-m", meta, "-c", search, "-d", dest])


def main():
    tmp = tempfile.mkdtemp(prefix="c13f3-")
    failed = False
    try:
        for version in (1, 2):
            base = os.path.join(tmp, f"v{version}")
            meta = os.path.join(base, "m.torrent")
            os.makedirs(base)
            with open(meta, "wb") as fd:
                fd.write(metafile(version))

            # --- scenario A: separate destination holding a stale copy
            search = os.path.join(base, "search")
            os.makedirs(os.path.join(search, "backup"))
            with open(os.path.join(search, "backup", "a.bin"), "wb") as fd:
                fd.write(GOOD)
            dest = os.path.join(base, "dest")
            os.makedirs(os.path.join(dest, "T"))
            with open(os.path.join(dest, "T", "a.bin"), "wb") as fd:
                fd.write(STALE)
            count = rebuild(meta, search, dest)
            got = open(os.path.join(dest, "T", "a.bin"), "rb").read()
            ok = hashlib.sha1(got).digest() == hashlib.sha1(GOOD).digest()
            print(f"[v{version} stale file in destination] expected: "
                  f"count 1 and dest/T/a.bin == torrent content")
            print(f"[v{version} stale file in destination] observed: "
                  f"count {count}, dest/T/a.bin "
                  f"{'verifies' if ok else 'is still the stale content'}")
            failed |= not ok

            # --- scenario B: rebuilding in place; the search directory is
            # the destination, the decoy sits where the torrent wants the
            # file, the intact copy elsewhere in the same directory
            place = os.path.join(base, "inplace")
            os.makedirs(os.path.join(place, "T"))
            os.makedirs(os.path.join(place, "old"))
            with open(os.path.join(place, "T", "a.bin"), "wb") as fd:
                fd.write(STALE)
            with open(os.path.join(place, "old", "a.bin"), "wb") as fd:
                fd.write(GOOD)
            count = rebuild(meta, place, place)
            got = open(os.path.join(place, "T", "a.bin"), "rb").read()
            ok = got == GOOD
            print(f"[v{version} in place with decoy] expected: "
                  f"count 1 and T/a.bin == torrent content")
            print(f"[v{version} in place with decoy] observed: "
                  f"count {count}, T/a.bin "
                  f"{'verifies' if ok else 'is still the decoy content'}")
            failed |= not ok
    finally:
        shutil.rmtree(tmp, ignore_errors=True)
    if failed:
        print("PROPERTY VIOLATED: a file counted as rebuilt does not verify "
              "against the metafile")
        return 1
    print("property holds")
    return 0


if __name__ == "__main__":
    sys.exit(main())
