#!/usr/bin/env python3
"""
C13 finding 2: a v1 torrent that consists only of empty files is not rebuilt.

The v1 route restores files only while walking the SHA1 pieces
(Metadata._map_pieces: `for i in range(total_pieces)`).  Empty files are
attached to the piece they follow or precede.  A torrent whose files are all
empty has `pieces == b""`, hence no piece node at all, hence nothing is ever
copied: rebuild returns 0 and creates nothing under the destination.  The v2
and hybrid routes restore exactly the same tree ("for v1, v2 and hybrid
metafiles alike").

Run:  PYTHONPATH=/tmp/hunt6-C13 /venv/bin/python finding2.py
exit 1 = property violated, exit 0 = not violated.
"""
import contextlib
import io
import os
import shutil
import sys
import tempfile

PLEN = 16384
FILES = [["a.txt"], ["sub", "b.txt"]]  # both empty


def benc(o):
    if isinstance(o, int):
        return b"i%de" % o
    if isinstance(o, str):
        o = o.encode()
    if isinstance(o, bytes):
        return b"%d:%s" % (len(o), o)
    if isinstance(o, list):
        return b"l" + b"".join(benc(x) for x in o) + b"e"
    if isinstance(o, dict):
        items = sorted((k.encode(), v) for k, v in o.items())
        return b"d" + b"".join(benc(k) + benc(v) for k, v in items) + b"e"
    raise TypeError(type(o))


def metafile(version):
    """The three metafiles of the tree T/{a.txt, sub/b.txt}, all files empty.

    (the same info keys and values that `torrentfile create
    --meta-version 1|2|3` writes for this tree)"""
    info = {"name": "T", "piece length": PLEN}
    if version in (1, 3):
        info["files"] = [{"length": 0, "path": p} for p in FILES]
        info["pieces"] = b""
    if version in (2, 3):
        info["meta version"] = 2
        info["file tree"] = {"a.txt": {"": {"length": 0}},
                             "sub": {"b.txt": {"": {"length": 0}}}}
    meta = {"announce": "http://t/announce", "info": info}
    if version in (2, 3):
        meta["piece layers"] = {}
    return benc(meta)


def main():
    from torrentfile.cli import execute
    tmp = tempfile.mkdtemp(prefix="c13f2-")
    failed = False
    try:
        # search directory: an intact copy of every file, scattered
        search = os.path.join(tmp, "search")
        os.makedirs(os.path.join(search, "x", "y"))
        open(os.path.join(search, "a.txt"), "wb").close()
        open(os.path.join(search, "x", "y", "b.txt"), "wb").close()

        for version, label in ((1, "v1"), (2, "v2"), (3, "hybrid")):
            meta = os.path.join(tmp, f"{label}.torrent")
            with open(meta, "wb") as fd:
                fd.write(metafile(version))
            dest = os.path.join(tmp, f"dest-{label}")
            os.makedirs(dest)
            with contextlib.redirect_stdout(io.StringIO()):
                count = execute(["rebuild", "-m", meta, "-c", search,
                                 "-d", dest])
            # oracle: every file the metafile lists exists with its length
            missing = [
                "/".join(["T"] + p) for p in FILES
                if not os.path.isfile(os.path.join(dest, "T", *p))
                or os.path.getsize(os.path.join(dest, "T", *p)) != 0
            ]
            print(f"[{label}] expected: rebuild returns 2 and "
                  f"T/a.txt, T/sub/b.txt exist (0 bytes)")
            print(f"[{label}] observed: rebuild returned {count}, "
                  f"missing: {missing}")
            failed |= bool(missing) or count != 2
    finally:
        shutil.rmtree(tmp, ignore_errors=True)
    if failed:
        print("PROPERTY VIOLATED: the torrent's directory structure was not "
              "recreated although every file was available")
        return 1
    print("property holds")
    return 0


if __name__ == "__main__":
    sys.exit(main())
