#!/usr/bin/env python3
"""
C13 finding 1: v1 rebuild loses files of a piece-aligned (BEP 47 padded) torrent.

`torrentfile create --align` (and other clients, e.g. libtorrent v1-only
torrents with pad files) writes `attr: "p"` padding entries into info.files.
Metadata._map_pieces / PieceNode._find_matches treat such an entry as a real
file that must be found on disk under its name ("16383", ...).  No such file
exists (padding is virtual), so every piece that touches a padding entry can
never be verified, and every file that has no padding-free piece is silently
not rebuilt - although an intact copy of every (real) file is available.

Run:  PYTHONPATH=/tmp/hunt6-C13 /venv/bin/python finding1.py
exit 1 = property violated, exit 0 = not violated.
"""
import contextlib
import hashlib
import io
import os
import shutil
import sys
import tempfile

PLEN = 16384


# ---------------------------------------------------------------- oracle
def benc(o):
    if isinstance(o, int):
        return b"i%de" % o
    if isinstance(o, str):
        o = o.encode()
    if isinstance(o, (bytes, bytearray)):
        return b"%d:%s" % (len(o), bytes(o))
    if isinstance(o, list):
        return b"l" + b"".join(benc(x) for x in o) + b"e"
    if isinstance(o, dict):
        items = sorted((k.encode() if isinstance(k, str) else k, v)
                       for k, v in o.items())
        return b"d" + b"".join(benc(k) + benc(v) for k, v in items) + b"e"
    raise TypeError(type(o))


def bdec(data, i=0):
    c = data[i:i + 1]
    if c == b"i":
        j = data.index(b"e", i)
        return int(data[i + 1:j]), j + 1
    if c == b"l":
        i += 1
        out = []
        while data[i:i + 1] != b"e":
            v, i = bdec(data, i)
            out.append(v)
        return out, i + 1
    if c == b"d":
        i += 1
        out = {}
        while data[i:i + 1] != b"e":
            k, i = bdec(data, i)
            v, i = bdec(data, i)
            out[k] = v
        return out, i + 1
    j = data.index(b":", i)
    n = int(data[i:j])
    return data[j + 1:j + 1 + n], j + 1 + n


def verify_v1(metafile, dest):
    """Independent v1 verification (hashlib + own decoder), BEP 47 aware.

    Returns (good_pieces, total_pieces, missing_files)."""
    info = bdec(open(metafile, "rb").read())[0][b"info"]
    name = info[b"name"].decode()
    plen = info[b"piece length"]
    stream = b""
    missing = []
    for entry in info[b"files"]:
        if b"p" in entry.get(b"attr", b""):
            stream += bytes(entry[b"length"])  # padding is virtual zeros
            continue
        path = os.path.join(dest, name, *[p.decode() for p in entry[b"path"]])
        if os.path.isfile(path):
            data = open(path, "rb").read()
        else:
            missing.append(os.path.relpath(path, dest))
            data = b""
        # keep the offsets of the following files right
        stream += data.ljust(entry[b"length"], b"\xff")[:entry[b"length"]]
    pieces = info[b"pieces"]
    total = len(pieces) // 20
    good = 0
    for i in range(total):
        chunk = stream[i * plen:(i + 1) * plen]
        if hashlib.sha1(chunk).digest() == pieces[i * 20:i * 20 + 20]:
            good += 1
    return good, total, missing


# ---------------------------------------------------------------- scenario
def rebuild(metafile, search, dest):
    from torrentfile.cli import execute
    with contextlib.redirect_stdout(io.StringIO()):
        return execute(["rebuild", "-m", metafile, "-c", search, "-d", dest])


def main():
    tmp = tempfile.mkdtemp(prefix="c13f1-")
    failed = False
    try:
        # the content: two small files in one directory
        content = os.path.join(tmp, "orig", "T")
        os.makedirs(content)
        payload = {"a.bin": b"A" * 100, "b.bin": b"B" * 5}
        for fname, data in payload.items():
            with open(os.path.join(content, fname), "wb") as fd:
                fd.write(data)

        # the search directory holds an intact copy of every file
        search = os.path.join(tmp, "search")
        shutil.copytree(content, os.path.join(search, "somewhere", "deep"))

        # (A) metafile written by the tool itself: create --align
        from torrentfile.cli import execute
        own = os.path.join(tmp, "own.torrent")
        with contextlib.redirect_stdout(io.StringIO()):
            execute(["create", "--align", "--piece-length", str(PLEN),
                     "-o", own, content])

        # (B) the same content written by an independent encoder the way
        # BEP 47 describes it (padding between files, none after the last)
        pad = PLEN - 100
        files = [
            {"length": 100, "path": ["a.bin"]},
            {"attr": "p", "length": pad, "path": [".pad", str(pad)]},
            {"length": 5, "path": ["b.bin"]},
        ]
        stream = payload["a.bin"] + bytes(pad) + payload["b.bin"]
        pieces = b"".join(hashlib.sha1(stream[i:i + PLEN]).digest()
                          for i in range(0, len(stream), PLEN))
        foreign = os.path.join(tmp, "foreign.torrent")
        with open(foreign, "wb") as fd:
            fd.write(benc({"announce": "http://t/announce",
                           "info": {"name": "T", "piece length": PLEN,
                                    "files": files, "pieces": pieces}}))

        for label, metafile in (("create --align", own),
                                ("foreign BEP 47", foreign)):
            # sanity: the original content verifies 100% with this oracle
            good, total, missing = verify_v1(metafile,
                                             os.path.join(tmp, "orig"))
            assert (good, missing) == (total, []), "oracle/metafile broken"

            dest = os.path.join(tmp, "dest-" + label.split()[0])
            os.makedirs(dest)
            count = rebuild(metafile, search, dest)
            good, total, missing = verify_v1(metafile, dest)
            ok = good == total and not missing and count == len(payload)
            print(f"[{label}] expected: rebuild returns {len(payload)}, "
                  f"{total}/{total} pieces verify, no file missing")
            print(f"[{label}] observed: rebuild returned {count}, "
                  f"{good}/{total} pieces verify, missing: {missing}")
            failed |= not ok
    finally:
        shutil.rmtree(tmp, ignore_errors=True)
    if failed:
        print("PROPERTY VIOLATED: intact copies of every file were in the "
              "search directory, yet the rebuilt torrent is incomplete")
        return 1
    print("property holds")
    return 0


if __name__ == "__main__":
    sys.exit(main())
