#!/usr/bin/env python
"""
C07 finding 2 - edit_torrent() consumes the caller's request dictionary: the
"cleared" entries are deleted from it, so the second use of the same request
(the natural `for f in files: edit_torrent(f, request)` loop) silently does
not clear anything.

Run:  PYTHONPATH=/tmp/hunt6-C07 /venv/bin/python finding2.py
exit 1 = property violated, exit 0 = property holds.

Oracle: own bencode encoder/decoder; the tool is never compared with itself.
"""
import hashlib
import os
import shutil
import sys
import tempfile


# ---------------------------------------------------------------- own bencode
def enc(o):
    if isinstance(o, int):
        return b"i%de" % o
    if isinstance(o, str):
        o = o.encode()
    if isinstance(o, bytes):
        return b"%d:%s" % (len(o), o)
    if isinstance(o, list):
        return b"l" + b"".join(enc(x) for x in o) + b"e"
    if isinstance(o, dict):
        items = sorted((k.encode() if isinstance(k, str) else k, v)
                       for k, v in o.items())
        return b"d" + b"".join(enc(k) + enc(v) for k, v in items) + b"e"
    raise TypeError(type(o))


def dec(b, i=0):
    c = b[i:i + 1]
    if c == b"i":
        j = b.index(b"e", i)
        return int(b[i + 1:j]), j + 1
    if c == b"l":
        i += 1
        out = []
        while b[i:i + 1] != b"e":
            v, i = dec(b, i)
            out.append(v)
        return out, i + 1
    if c == b"d":
        i += 1
        out = {}
        while b[i:i + 1] != b"e":
            k, i = dec(b, i)
            v, i = dec(b, i)
            out[k] = v
        return out, i + 1
    j = b.index(b":", i)
    n = int(b[i:j])
    return b[j + 1:j + 1 + n], j + 1 + n


def raw_value(b, key):
    """Raw bytes of the value of a top-level key (None if absent)."""
    i = 1
    while b[i:i + 1] != b"e":
        k, i = dec(b, i)
        s = i
        _, i = dec(b, i)
        if k == key:
            return b[s:i]
    return None


def infohash(b):
    return hashlib.sha1(raw_value(b, b"info")).hexdigest()


# ------------------------------------------------------------------- scenario
def metafile():
    return enc({
        "announce": "http://old.example/ann",
        "announce-list": [["http://old.example/ann"]],
        "url-list": ["http://ws.example/f"],
        "info": {
            "comment": "old comment",
            "length": 5,
            "name": "f",
            "piece length": 16384,
            "pieces": hashlib.sha1(b"hello").digest(),
        },
    })


def main():
    from torrentfile.edit import edit_torrent

    tmp = tempfile.mkdtemp(prefix="c07f2-")
    bad = []
    try:
        original = metafile()
        paths = []
        for name in ("first.torrent", "second.torrent"):
            path = os.path.join(tmp, name)
            with open(path, "wb") as fd:
                fd.write(original)
            paths.append(path)

        # one edit request: clear the comment and the web seeds
        request = {"comment": "", "url-list": ""}
        print("request before the calls:", request)
        for path in paths:
            edit_torrent(path, request)
        print("request after the calls :", request)

        want = dec(original)[0]
        del want[b"url-list"]
        del want[b"info"][b"comment"]
        want = enc(want)

        for path in paths:
            with open(path, "rb") as fd:
                after = fd.read()
            name = os.path.basename(path)
            print(name)
            print("    expected:", dec(want)[0])
            print("    actual  :", dec(after)[0])
            if after != want:
                bad.append(f"{name}: comment / url-list were named as cleared "
                           "but are still present")
    finally:
        shutil.rmtree(tmp, ignore_errors=True)

    if bad:
        print("PROPERTY VIOLATED:")
        for line in bad:
            print("  -", line)
        return 1
    print("property holds")
    return 0


if __name__ == "__main__":
    sys.exit(main())
