#!/usr/bin/env python
"""
C07 finding 3 - clearing a field deletes the key of that name from BOTH the
top-level dictionary and the info dictionary, although every field lives in
exactly one of them (and set writes only that one).

 (a) clearing the web seeds (a top-level field) also deletes a key called
     "url-list" from the info dictionary -> the info-hash changes although
     only web seeds were named.
 (b) comment lives in info.comment (that is where set writes it); clearing it
     also deletes the unnamed, standard top-level "comment" key that every
     other client writes, which set had left untouched.

Run:  PYTHONPATH=/tmp/hunt6-C07 /venv/bin/python finding3.py
exit 1 = property violated, exit 0 = property holds.

Oracle: own bencode encoder/decoder + hashlib.
"""
import hashlib
import os
import shutil
import subprocess
import sys
import tempfile


# ---------------------------------------------------------------- own bencode
def enc(o):
    if isinstance(o, int):
        return b"i%de" % o
    if isinstance(o, str):
        o = o.encode()
    if isinstance(o, bytes):
        return b"%d:%s" % (len(o), o)
    if isinstance(o, list):
        return b"l" + b"".join(enc(x) for x in o) + b"e"
    if isinstance(o, dict):
        items = sorted((k.encode() if isinstance(k, str) else k, v)
                       for k, v in o.items())
        return b"d" + b"".join(enc(k) + enc(v) for k, v in items) + b"e"
    raise TypeError(type(o))


def dec(b, i=0):
    c = b[i:i + 1]
    if c == b"i":
        j = b.index(b"e", i)
        return int(b[i + 1:j]), j + 1
    if c == b"l":
        i += 1
        out = []
        while b[i:i + 1] != b"e":
            v, i = dec(b, i)
            out.append(v)
        return out, i + 1
    if c == b"d":
        i += 1
        out = {}
        while b[i:i + 1] != b"e":
            k, i = dec(b, i)
            v, i = dec(b, i)
            out[k] = v
        return out, i + 1
    j = b.index(b":", i)
    n = int(b[i:j])
    return b[j + 1:j + 1 + n], j + 1 + n


def raw_value(b, key):
    """Raw bytes of the value of a top-level key (None if absent)."""
    i = 1
    while b[i:i + 1] != b"e":
        k, i = dec(b, i)
        s = i
        _, i = dec(b, i)
        if k == key:
            return b[s:i]
    return None


def infohash(b):
    return hashlib.sha1(raw_value(b, b"info")).hexdigest()


# ------------------------------------------------------------------- scenario
INFO = {
    "length": 5,
    "name": "f",
    "piece length": 16384,
    "pieces": hashlib.sha1(b"hello").digest(),
}


def cli(tmp, *args):
    proc = subprocess.run(
        [sys.executable, "-m", "torrentfile", "edit", *args],
        cwd=tmp, capture_output=True, text=True, check=False)
    if proc.returncode:
        print(proc.stdout, proc.stderr)
    return proc.returncode


def main():
    tmp = tempfile.mkdtemp(prefix="c07f3-")
    bad = []
    try:
        # ---- (a) extra key inside info that is spelled like a top-level one
        original = enc({
            "url-list": ["http://ws.example/f"],
            "info": dict(INFO, **{"url-list": ["kept-by-some-other-tool"]}),
        })
        path = os.path.join(tmp, "a.torrent")
        with open(path, "wb") as fd:
            fd.write(original)
        cli(tmp, "a.torrent", "--web-seed", "")
        with open(path, "rb") as fd:
            after = fd.read()
        want = dec(original)[0]
        del want[b"url-list"]
        print("(a) torrentfile edit a.torrent --web-seed \"\"")
        print("    info-hash before :", infohash(original))
        print("    info-hash after  :", infohash(after))
        print("    expected file    :", dec(enc(want))[0])
        print("    actual file      :", dec(after)[0])
        if infohash(after) != infohash(original):
            bad.append("(a) an edit naming only the web seeds changed the "
                       "info-hash (info['url-list'] deleted)")

        # ---- (b) standard top-level comment: set, then clear
        original = enc({"comment": "written by another client",
                        "info": dict(INFO)})
        path = os.path.join(tmp, "b.torrent")
        with open(path, "wb") as fd:
            fd.write(original)
        cli(tmp, "b.torrent", "--comment", "new")
        with open(path, "rb") as fd:
            step1 = fd.read()
        cli(tmp, "b.torrent", "--comment", "")
        with open(path, "rb") as fd:
            step2 = fd.read()
        top1 = dec(step1)[0].get(b"comment")
        top2 = dec(step2)[0].get(b"comment")
        print("(b) edit --comment new ; edit --comment \"\"")
        print("    after set  :", dec(step1)[0])
        print("    after clear:", dec(step2)[0])
        print("    set leaves the top-level comment alone (it is not the "
              "named field),")
        print("    so after the clear the file should equal the original:",
              step2 == original)
        if top1 == b"written by another client" and top2 is None:
            bad.append("(b) clearing the comment deleted the top-level "
                       "'comment' key that setting the comment treats as "
                       "unnamed")
    finally:
        shutil.rmtree(tmp, ignore_errors=True)

    if bad:
        print("PROPERTY VIOLATED:")
        for line in bad:
            print("  -", line)
        return 1
    print("property holds")
    return 0


if __name__ == "__main__":
    sys.exit(main())
