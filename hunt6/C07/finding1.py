#!/usr/bin/env python
"""
C07 finding 1 - the interactive editor re-submits ALL six fields, so fields the
user never named are rewritten (and the info-hash changes).

Run:  PYTHONPATH=/tmp/hunt6-C07 /venv/bin/python finding1.py
exit 1 = property violated, exit 0 = property holds.

Oracle: own bencode encoder/decoder + hashlib; the tool is never compared
with itself.
"""
import hashlib
import os
import shutil
import sys
import tempfile


# ---------------------------------------------------------------- own bencode
def enc(o):
    if isinstance(o, int):
        return b"i%de" % o
    if isinstance(o, str):
        o = o.encode()
    if isinstance(o, bytes):
        return b"%d:%s" % (len(o), o)
    if isinstance(o, list):
        return b"l" + b"".join(enc(x) for x in o) + b"e"
    if isinstance(o, dict):
        items = sorted((k.encode() if isinstance(k, str) else k, v)
                       for k, v in o.items())
        return b"d" + b"".join(enc(k) + enc(v) for k, v in items) + b"e"
    raise TypeError(type(o))


def dec(b, i=0):
    c = b[i:i + 1]
    if c == b"i":
        j = b.index(b"e", i)
        return int(b[i + 1:j]), j + 1
    if c == b"l":
        i += 1
        out = []
        while b[i:i + 1] != b"e":
            v, i = dec(b, i)
            out.append(v)
        return out, i + 1
    if c == b"d":
        i += 1
        out = {}
        while b[i:i + 1] != b"e":
            k, i = dec(b, i)
            v, i = dec(b, i)
            out[k] = v
        return out, i + 1
    j = b.index(b":", i)
    n = int(b[i:j])
    return b[j + 1:j + 1 + n], j + 1 + n


def raw_value(b, key):
    """Raw bytes of the value of a top-level key (None if absent)."""
    i = 1
    while b[i:i + 1] != b"e":
        k, i = dec(b, i)
        s = i
        _, i = dec(b, i)
        if k == key:
            return b[s:i]
    return None


def infohash(b):
    return hashlib.sha1(raw_value(b, b"info")).hexdigest()


# ------------------------------------------------------------------- scenario
def foreign_metafile():
    """A plain v1 single-file metafile as other clients write it."""
    return enc({
        "announce": "http://a.example/ann",
        # two tiers (BEP 12) - what practically every real client writes
        "announce-list": [["http://a.example/ann"], ["http://b.example/ann"]],
        # BEP 19 allows a single string here
        "url-list": "http://ws.example/f",
        "info": {
            "length": 5,
            "name": "f",
            "piece length": 16384,
            "pieces": hashlib.sha1(b"hello").digest(),
            "private": 0,          # explicit "not private", valid BEP 27
        },
    })


def run_dialog(path, answers):
    import torrentfile.interactive as ti
    it = iter(answers)
    ti.get_input = lambda *a: next(it)
    ti.showtext = lambda txt: None
    dialog = ti.InteractiveEditor(path)
    dialog.show_current()
    dialog.edit_props()


def main():
    tmp = tempfile.mkdtemp(prefix="c07f1-")
    bad = []
    try:
        original = foreign_metafile()

        # (a) the user names ONLY the tracker
        path = os.path.join(tmp, "a.torrent")
        with open(path, "wb") as fd:
            fd.write(original)
        run_dialog(path, ["4", "http://new.example/ann", "done"])
        with open(path, "rb") as fd:
            after = fd.read()
        want = dec(original)[0]
        want[b"announce"] = b"http://new.example/ann"
        want[b"announce-list"] = [[b"http://new.example/ann"]]
        print("(a) interactive edit naming only the tracker")
        print("    info-hash before :", infohash(original))
        print("    info-hash after  :", infohash(after))
        print("    expected file    :", dec(enc(want))[0])
        print("    actual file      :", dec(after)[0])
        if infohash(after) != infohash(original):
            bad.append("(a) tracker-only edit changed the info-hash "
                       "(info.private 0 -> 1)")
        if raw_value(after, b"url-list") != raw_value(original, b"url-list"):
            bad.append("(a) tracker-only edit rewrote the unnamed url-list")

        # (b) the user names NOTHING (opens the dialog, types DONE)
        path = os.path.join(tmp, "b.torrent")
        with open(path, "wb") as fd:
            fd.write(original)
        run_dialog(path, ["done"])
        with open(path, "rb") as fd:
            after = fd.read()
        print("(b) interactive edit naming nothing (just DONE)")
        print("    expected: file byte-identical to the original")
        print("    actual  :", "identical" if after == original
              else dec(after)[0])
        if after != original:
            bad.append("(b) an edit naming no field changed the file "
                       "(tiers flattened, url-list retyped, private set)")
    finally:
        shutil.rmtree(tmp, ignore_errors=True)

    if bad:
        print("PROPERTY VIOLATED:")
        for line in bad:
            print("  -", line)
        return 1
    print("property holds")
    return 0


if __name__ == "__main__":
    sys.exit(main())
