#!/usr/bin/env python
"""
Side observation (NOT claimed as a C03 violation - see notes.md).

MetaFile.set_callback / CbMixin.set_callback store the user's callback as a
plain class attribute (mixins.py:54  `cls.cb = func`).  The hybrid hashers
call it as `self.cb(layer_hash)` (hasher.py:392 and hasher.py:542), so an
ordinary Python function or lambda is bound as a method and receives
(self, layer_hash).  A callback written as documented ("accepts a single
parameter") therefore makes BOTH hybrid creators raise TypeError on every
non-empty content tree.

Exit 1 if the creators fail with the documented one-parameter callback,
exit 0 if they produce a metafile.
Run:  PYTHONPATH=/tmp/hunt6-C03 /venv/bin/python observation1.py
"""
import contextlib
import io
import os
import shutil
import sys
import tempfile


def main():
    from torrentfile.torrent import TorrentAssembler, TorrentFileHybrid

    tmp = tempfile.mkdtemp(prefix="c03-obs1-")
    failed = []
    try:
        root = os.path.join(tmp, "tree")
        os.mkdir(root)
        with open(os.path.join(root, "a"), "wb") as fd:
            fd.write(b"x" * 20000)

        seen = []

        def one_param_callback(layer_hash):  # exactly what the docs ask for
            seen.append(layer_hash)

        for cls, extra in ((TorrentFileHybrid, {}),
                           (TorrentAssembler, {"meta_version": "3"})):
            cls.set_callback(one_param_callback)
            out = os.path.join(tmp, cls.__name__ + ".torrent")
            try:
                with contextlib.redirect_stdout(io.StringIO()):
                    cls(path=root, piece_length=16384, progress=0,
                        outfile=out, **extra).write()
                print(f"{cls.__name__}: metafile written, callback saw "
                      f"{len(seen)} hashes")
            except TypeError as err:
                failed.append(cls.__name__)
                print(f"{cls.__name__}: expected a hybrid metafile and the "
                      f"callback called once per piece-layer hash; got "
                      f"TypeError: {err}")
    finally:
        shutil.rmtree(tmp, ignore_errors=True)
    return 1 if failed else 0


if __name__ == "__main__":
    sys.exit(main())
