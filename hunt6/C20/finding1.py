#!/usr/bin/env python
"""
C20 finding 1: an empty string inside a list-valued create option is handled
differently by the three routes, and an empty first tracker silently drops
every other tracker.

  flag      : torrentfile create --web-seed "" <content>        -> url-list: [""]
  keyword   : TorrentFile(path=..., url_list=[""])               -> url-list: [""]
  config    : [config]\nweb-seed =                               -> no url-list key
  (same for --http-seed / httpseeds / http-seed)

  flag      : torrentfile create -a "" http://b/ann <content>    -> no announce, no
  keyword   : TorrentFile(path=..., announce=["", "http://b/ann"])  announce-list at all
  config    : announce =\n    \n    http://b/ann                 -> announce http://b/ann

Run with PYTHONPATH=<clone>.  Exit 1 when the property is violated, else 0.
"""
import contextlib
import io
import os
import shutil
import subprocess
import sys
import tempfile


def bdecode(b, i=0):
    """Independent bencode decoder (bytes in, bytes/int/list/dict out)."""
    c = b[i:i + 1]
    if c == b"i":
        e = b.index(b"e", i)
        return int(b[i + 1:e]), e + 1
    if c == b"l":
        i += 1
        out = []
        while b[i:i + 1] != b"e":
            v, i = bdecode(b, i)
            out.append(v)
        return out, i + 1
    if c == b"d":
        i += 1
        out = {}
        while b[i:i + 1] != b"e":
            k, i = bdecode(b, i)
            v, i = bdecode(b, i)
            out[k] = v
        return out, i + 1
    col = b.index(b":", i)
    n = int(b[i:col])
    return b[col + 1:col + 1 + n], col + 1 + n


def load(path):
    with open(path, "rb") as fd:
        meta, _ = bdecode(fd.read())
    meta.pop(b"creation date", None)
    return meta


def cli(args, cwd):
    return subprocess.run([sys.executable, "-m", "torrentfile"] + args,
                          cwd=cwd,
                          capture_output=True,
                          text=True)


def lib(**kwargs):
    from torrentfile.torrent import TorrentFile
    with contextlib.redirect_stdout(io.StringIO()):
        TorrentFile(**kwargs).write()


def outer(meta):
    """Everything but the info dictionary (which is identical anyway)."""
    return {k: v for k, v in meta.items() if k != b"info"}


def main():
    root = tempfile.mkdtemp(prefix="c20f1-")
    failed = False
    try:
        content = os.path.join(root, "content")
        os.mkdir(content)
        with open(os.path.join(content, "a.bin"), "wb") as fd:
            fd.write(bytes(range(256)) * 100)

        # ---- part A: the empty web seed / http seed ---------------------
        for flag, key, kword, field in (
            ("--web-seed", "web-seed", "url_list", b"url-list"),
            ("--http-seed", "http-seed", "httpseeds", b"httpseeds"),
        ):
            o_cli = os.path.join(root, "cli.torrent")
            o_cfg = os.path.join(root, "cfg.torrent")
            o_lib = os.path.join(root, "lib.torrent")
            r = cli(["create", "-o", o_cli, flag, "", content], root)
            assert r.returncode == 0, r.stderr
            ini = os.path.join(root, "c.ini")
            with open(ini, "w", encoding="utf-8") as fd:
                fd.write(f"[config]\n{key} =\nout = {o_cfg}\n")
            r = cli(["create", "--config", "--config-path", ini, content],
                    root)
            assert r.returncode == 0, r.stderr
            lib(path=content, outfile=o_lib, **{kword: [""]})
            metas = {
                "flag": load(o_cli),
                "config": load(o_cfg),
                "keyword": load(o_lib),
            }
            print(f"option {key} with the empty value:")
            for route, meta in metas.items():
                print(f"   {route:8s} {field.decode()!r}: "
                      f"{meta.get(field, '<key absent>')}")
            if not metas["flag"] == metas["config"] == metas["keyword"]:
                failed = True
                print("   EXPECTED: identical metafiles from the three routes")
                print("   GOT     : the flag and keyword routes write "
                      f"{field.decode()} = [''] , the config route omits it")

        # ---- part B: an empty first tracker drops all the others --------
        o_cli = os.path.join(root, "cli2.torrent")
        o_cfg = os.path.join(root, "cfg2.torrent")
        o_lib = os.path.join(root, "lib2.torrent")
        url = "http://b.example/announce"
        r = cli(["create", "-o", o_cli, "-a", "", url, content], root)
        assert r.returncode == 0, r.stderr
        with open(ini, "w", encoding="utf-8") as fd:
            fd.write(f"[config]\nannounce =\n    \n    {url}\nout = {o_cfg}\n")
        r = cli(["create", "--config", "--config-path", ini, content], root)
        assert r.returncode == 0, r.stderr
        lib(path=content, outfile=o_lib, announce=["", url])
        print(f"option announce with the values ['', {url!r}]:")
        for route, path in (("flag", o_cli), ("config", o_cfg),
                            ("keyword", o_lib)):
            meta = load(path)
            raw = open(path, "rb").read()
            landed = url.encode() in raw
            print(f"   {route:8s} announce={meta.get(b'announce')} "
                  f"announce-list={meta.get(b'announce-list')}")
            if not landed:
                failed = True
                print(f"   EXPECTED: {url} lands in announce / announce-list")
                print(f"   GOT     : the url is nowhere in the {route} "
                      "metafile")
        if outer(load(o_cli)) != outer(load(o_cfg)):
            failed = True
            print("   EXPECTED: identical metafiles from flag and config")
            print("   GOT     : they differ (see above)")
    finally:
        shutil.rmtree(root, ignore_errors=True)
    if failed:
        print("RESULT: property C20 violated")
        return 1
    print("RESULT: no violation")
    return 0


if __name__ == "__main__":
    sys.exit(main())
