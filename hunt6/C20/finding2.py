#!/usr/bin/env python
"""
C20 finding 2: the `out` option means three different things for a POSIX path
that ends in a backslash (a perfectly valid file name on Linux/macOS).

  flag    : torrentfile create -o 'x\\' <content>     -> FileNotFoundError 'x\\/.torrent'
  config  : out = x\\                                  -> FileNotFoundError 'x\\/.torrent'
  keyword : TorrentFile(path=..., outfile='x\\')       -> succeeds, but writes
                                                         './x\\content.torrent'
  documented meaning of -o/--out: "Specify the full path to the newly created
  torrent file", i.e. a metafile at ./x\\  from all three routes.

Run with PYTHONPATH=<clone>.  Exit 1 when the property is violated, else 0.
"""
import contextlib
import io
import os
import shutil
import subprocess
import sys
import tempfile


def cli(args, cwd):
    return subprocess.run([sys.executable, "-m", "torrentfile"] + args,
                          cwd=cwd,
                          capture_output=True,
                          text=True)


def snapshot(root):
    return sorted(n for n in os.listdir(root) if n not in ("content", "c.ini"))


def clean(root):
    for n in snapshot(root):
        os.remove(os.path.join(root, n))


def main():
    if os.sep != "/":
        print("POSIX only: a backslash is a path separator here")
        return 0
    root = tempfile.mkdtemp(prefix="c20f2-")
    old = os.getcwd()
    results = {}
    try:
        content = os.path.join(root, "content")
        os.mkdir(content)
        with open(os.path.join(content, "a.bin"), "wb") as fd:
            fd.write(bytes(range(256)) * 100)
        out = "x\\"  # relative to cwd == root, file name is the 2 chars x\

        r = cli(["create", "-o", out, content], root)
        err = r.stderr.strip().splitlines()[-1] if r.returncode else None
        results["flag"] = (r.returncode, err, snapshot(root))
        clean(root)

        with open(os.path.join(root, "c.ini"), "w", encoding="utf-8") as fd:
            fd.write(f"[config]\nout = {out}\n")
        r = cli(["create", "--config", "--config-path", "c.ini", content],
                root)
        err = r.stderr.strip().splitlines()[-1] if r.returncode else None
        results["config"] = (r.returncode, err, snapshot(root))
        clean(root)

        os.chdir(root)
        from torrentfile.torrent import TorrentFile
        try:
            with contextlib.redirect_stdout(io.StringIO()):
                TorrentFile(path=content, outfile=out).write()
            results["keyword"] = (0, None, snapshot(root))
        except Exception as exc:  # pylint: disable=broad-except
            results["keyword"] = (1, repr(exc), snapshot(root))
    finally:
        os.chdir(old)
        shutil.rmtree(root, ignore_errors=True)

    print(f"create option out = {out!r}  (cwd = fresh temp dir)")
    for route, (code, err, files) in results.items():
        print(f"   {route:8s} exit={code} error={err} files written={files}")
    expected = (0, None, [out])
    print(f"   EXPECTED from every route: exit=0, files written={[out]}")
    bad = [r for r, v in results.items() if v != expected]
    same = len({repr(v) for v in results.values()}) == 1
    if bad:
        print(f"   GOT     : routes deviating from the documented meaning: "
              f"{bad}; routes agree with each other: {same}")
        print("RESULT: property C20 violated")
        return 1
    print("RESULT: no violation")
    return 0


if __name__ == "__main__":
    sys.exit(main())
