#!/usr/bin/env python
"""
C20 finding 3: documented values of the piece-length option are rejected.

  `torrentfile create -h`:  "acceptable values include numbers 14-26"
  manual (site/overview.md): "Acceptable values include 14-29 which is
      interpreted as the number to raise 2 by ... or any perfect power of 2
      greater than or equal to 16 KiB and less than 1 GiB."

  --piece-length 26 / piece-length = 26 / piece_length=26 all raise
  PieceLengthValueError, although the very same size spelled 67108864 is
  accepted by all three routes and lands in info['piece length'].

Run with PYTHONPATH=<clone>.  Exit 1 when the property is violated, else 0.
"""
import contextlib
import io
import os
import shutil
import subprocess
import sys
import tempfile


def bdecode(b, i=0):
    """Independent bencode decoder."""
    c = b[i:i + 1]
    if c == b"i":
        e = b.index(b"e", i)
        return int(b[i + 1:e]), e + 1
    if c == b"l":
        i += 1
        out = []
        while b[i:i + 1] != b"e":
            v, i = bdecode(b, i)
            out.append(v)
        return out, i + 1
    if c == b"d":
        i += 1
        out = {}
        while b[i:i + 1] != b"e":
            k, i = bdecode(b, i)
            v, i = bdecode(b, i)
            out[k] = v
        return out, i + 1
    col = b.index(b":", i)
    n = int(b[i:col])
    return b[col + 1:col + 1 + n], col + 1 + n


def piece_length_of(path):
    with open(path, "rb") as fd:
        return bdecode(fd.read())[0][b"info"][b"piece length"]


def cli(args, cwd):
    return subprocess.run([sys.executable, "-m", "torrentfile"] + args,
                          cwd=cwd,
                          capture_output=True,
                          text=True)


def main():
    root = tempfile.mkdtemp(prefix="c20f3-")
    failed = False
    try:
        content = os.path.join(root, "content")
        os.mkdir(content)
        with open(os.path.join(content, "a.bin"), "wb") as fd:
            fd.write(bytes(range(256)) * 100)
        out = os.path.join(root, "o.torrent")
        ini = os.path.join(root, "c.ini")
        from torrentfile.torrent import TorrentFile

        # 26 is documented by both the help text and the manual,
        # 27..29 by the manual only; 67108864 == 2**26 is the control.
        for value in ("25", "67108864", "26", "27"):
            want = 2**int(value) if int(value) < 64 else int(value)
            got = {}
            r = cli(["create", "-o", out, "--piece-length", value, content],
                    root)
            got["flag"] = (piece_length_of(out) if r.returncode == 0 else
                           r.stderr.strip().splitlines()[-1])
            with open(ini, "w", encoding="utf-8") as fd:
                fd.write(f"[config]\npiece-length = {value}\nout = {out}\n")
            r = cli(["create", "--config", "--config-path", ini, content],
                    root)
            got["config"] = (piece_length_of(out) if r.returncode == 0 else
                             r.stderr.strip().splitlines()[-1])
            try:
                with contextlib.redirect_stdout(io.StringIO()):
                    TorrentFile(path=content,
                                outfile=out,
                                piece_length=int(value)).write()
                got["keyword"] = piece_length_of(out)
            except Exception as exc:  # pylint: disable=broad-except
                got["keyword"] = f"{type(exc).__name__}: {exc}"
            ok = all(v == want for v in got.values())
            print(f"piece-length {value}: expected info['piece length'] == "
                  f"{want} from every route")
            for route, val in got.items():
                print(f"   {route:8s} -> {val}")
            if not ok:
                failed = True
                print("   VIOLATION: documented value does not land in "
                      "info['piece length']")
    finally:
        shutil.rmtree(root, ignore_errors=True)
    if failed:
        print("RESULT: property C20 violated")
        return 1
    print("RESULT: no violation")
    return 0


if __name__ == "__main__":
    sys.exit(main())
