#!/usr/bin/env python
"""
C09 finding 1: edit_torrent() rewrites the caller's option dict, so the second
edit made with the same options in one process does something else than the
same edit made in a fresh interpreter.

Sequence (all inside the quantifier: three `edit` operations on one metafile):

    opts = {"comment": ""}            # "clear the comment"
    edit_torrent(m, opts)             # 1. comment removed           (correct)
    edit_torrent(m, {"comment": "x"}) # 2. comment set to "x"        (correct)
    edit_torrent(m, opts)             # 3. must remove the comment again

Step 3 in a fresh interpreter removes the comment.  In the process that already
ran step 1 it is a no-op: step 1 deleted the key from `opts`.

Oracle: an independent bencode decoder reading the metafile from disk, plus the
very same step 3 executed by a fresh interpreter on a copy of the same file.

exit 1 = property violated, exit 0 = not violated.
"""
import os
import shutil
import subprocess
import sys
import tempfile


def bdecode(data, i=0):
    """Minimal independent bencode decoder (bytes everywhere)."""
    c = data[i:i + 1]
    if c == b"i":
        j = data.index(b"e", i)
        return int(data[i + 1:j]), j + 1
    if c == b"l":
        i += 1
        out = []
        while data[i:i + 1] != b"e":
            val, i = bdecode(data, i)
            out.append(val)
        return out, i + 1
    if c == b"d":
        i += 1
        out = {}
        while data[i:i + 1] != b"e":
            key, i = bdecode(data, i)
            val, i = bdecode(data, i)
            out[key] = val
        return out, i + 1
    j = data.index(b":", i)
    n = int(data[i:j])
    return data[j + 1:j + 1 + n], j + 1 + n


def comment_of(path):
    with open(path, "rb") as fd:
        meta, _ = bdecode(fd.read())
    return meta[b"info"].get(b"comment")


# a plain single-file v1 metafile as any client writes it (own encoder)
METAFILE = (b"d8:announce10:http://t/a4:infod7:comment3:old6:lengthi1e"
            b"4:name1:f12:piece lengthi16384e6:pieces20:" + bytes(range(20)) +
            b"ee")

FRESH = ("import sys\n"
         "from torrentfile.edit import edit_torrent\n"
         "edit_torrent(sys.argv[1], {'comment': ''})\n")


def main():
    from torrentfile.edit import edit_torrent

    tmp = tempfile.mkdtemp(prefix="c09f1_")
    try:
        meta = os.path.join(tmp, "f.torrent")
        with open(meta, "wb") as fd:
            fd.write(METAFILE)

        opts = {"comment": ""}
        edit_torrent(meta, opts)  # 1
        after1 = comment_of(meta)
        edit_torrent(meta, {"comment": "x"})  # 2
        after2 = comment_of(meta)

        # the same filesystem state, for the fresh interpreter
        copy = os.path.join(tmp, "fresh.torrent")
        shutil.copy(meta, copy)

        edit_torrent(meta, opts)  # 3, same process, same options object
        same_process = comment_of(meta)

        subprocess.run([sys.executable, "-c", FRESH, copy], check=True,
                       env=dict(os.environ), stdout=subprocess.DEVNULL)
        fresh = comment_of(copy)

        print("after step 1 (clear)      :", after1)
        print("after step 2 (set 'x')    :", after2)
        print("step 3 in a fresh process :", fresh, "(expected None)")
        print("step 3 in the same process:", same_process)
        print("options dict after step 1 :", opts,
              "(the caller passed {'comment': ''})")
        if after1 is None and after2 == b"x" and fresh is None \
                and same_process is not None:
            print("VIOLATION: the third edit depends on the first edit "
                  "having run in this process")
            return 1
        print("no violation")
        return 0
    finally:
        shutil.rmtree(tmp, ignore_errors=True)


if __name__ == "__main__":
    sys.exit(main())
