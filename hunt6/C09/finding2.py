#!/usr/bin/env python
"""
C09 finding 2: torrentfile.create() (commands.create, exported in __all__)
writes its own result back into the caller's argument namespace
(`args.outfile = outfile`; `kwargs = vars(args)` is the namespace itself), so
the next create issued with that namespace is steered by the previous one.

Sequence (inside the quantifier: two `create v1` operations):

    ns = Namespace(content=A, outfile=<dir>/, ...)   # "write into <dir>/"
    create(ns)                 # 1. writes <dir>/A.torrent          (correct)
    ns.content = B
    create(ns)                 # 2. must write <dir>/B.torrent

Step 2 in a fresh interpreter (content=B, outfile=<dir>/) writes
<dir>/B.torrent and leaves <dir>/A.torrent alone.  In the process that already
ran step 1, step 2 overwrites <dir>/A.torrent with the description of B and
never creates B.torrent: step 1 replaced ns.outfile by the path it wrote.

Oracle: directory listing + an independent bencode decoder + hashlib, plus the
very same step 2 executed by a fresh interpreter on a copy of the same state.

exit 1 = property violated, exit 0 = not violated.
"""
import hashlib
import io
import os
import shutil
import subprocess
import sys
import tempfile
from argparse import Namespace


def bdecode(data, i=0):
    """Minimal independent bencode decoder (bytes everywhere)."""
    c = data[i:i + 1]
    if c == b"i":
        j = data.index(b"e", i)
        return int(data[i + 1:j]), j + 1
    if c == b"l":
        i += 1
        out = []
        while data[i:i + 1] != b"e":
            val, i = bdecode(data, i)
            out.append(val)
        return out, i + 1
    if c == b"d":
        i += 1
        out = {}
        while data[i:i + 1] != b"e":
            key, i = bdecode(data, i)
            val, i = bdecode(data, i)
            out[key] = val
        return out, i + 1
    j = data.index(b":", i)
    n = int(data[i:j])
    return data[j + 1:j + 1 + n], j + 1 + n


def describe(outdir):
    """{metafile name: (info.name, first piece hash)} for a directory."""
    found = {}
    for name in sorted(os.listdir(outdir)):
        with open(os.path.join(outdir, name), "rb") as fd:
            meta, _ = bdecode(fd.read())
        info = meta[b"info"]
        found[name] = (info[b"name"].decode(), info[b"pieces"][:20].hex()[:12])
    return found


def namespace(content, outfile):
    return Namespace(content=content, outfile=outfile, meta_version="1",
                     config=False, magnet=False, progress="0",
                     piece_length=None, announce=[], align=False,
                     private=False, source=None, comment=None, url_list=None,
                     httpseeds=None)


FRESH = ("import sys\n"
         "from argparse import Namespace\n"
         "from torrentfile import create\n"
         "create(Namespace(content=sys.argv[1], outfile=sys.argv[2],\n"
         "    meta_version='1', config=False, magnet=False, progress='0',\n"
         "    piece_length=None, announce=[], align=False, private=False,\n"
         "    source=None, comment=None, url_list=None, httpseeds=None))\n")


def main():
    from torrentfile import create

    tmp = tempfile.mkdtemp(prefix="c09f2_")
    real_stdout = sys.stdout
    try:
        file_a = os.path.join(tmp, "A")
        file_b = os.path.join(tmp, "B")
        with open(file_a, "wb") as fd:
            fd.write(b"a" * 1000)
        with open(file_b, "wb") as fd:
            fd.write(b"b" * 1000)
        sha_a = hashlib.sha1(b"a" * 1000).hexdigest()[:12]
        sha_b = hashlib.sha1(b"b" * 1000).hexdigest()[:12]
        out = os.path.join(tmp, "out") + os.sep
        os.mkdir(out)

        sys.stdout = io.StringIO()
        args = namespace(file_a, out)
        create(args)  # 1
        after1 = describe(out)
        outfile_after1 = args.outfile

        # the same filesystem state, for the fresh interpreter
        out_fresh = os.path.join(tmp, "out_fresh") + os.sep
        shutil.copytree(out, out_fresh)

        args.content = file_b
        create(args)  # 2, same process, same namespace
        sys.stdout = real_stdout
        same_process = describe(out)

        subprocess.run([sys.executable, "-c", FRESH, file_b, out_fresh],
                       check=True, env=dict(os.environ),
                       stdout=subprocess.DEVNULL)
        fresh = describe(out_fresh)

        expected = {"A.torrent": ("A", sha_a), "B.torrent": ("B", sha_b)}
        print("after step 1                 :", after1)
        print("caller passed outfile        :", out)
        print("args.outfile after step 1    :", outfile_after1)
        print("expected after step 2        :", expected)
        print("step 2 in a fresh interpreter:", fresh)
        print("step 2 in the same process   :", same_process)
        if fresh == expected and same_process != expected:
            print("VIOLATION: the second create depends on the first create "
                  "having run in this process (A.torrent now describes B, "
                  "B.torrent was never written)")
            return 1
        print("no violation")
        return 0
    finally:
        sys.stdout = real_stdout
        shutil.rmtree(tmp, ignore_errors=True)


if __name__ == "__main__":
    sys.exit(main())
