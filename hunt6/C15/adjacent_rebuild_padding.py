#!/usr/bin/env python
"""
ADJACENT observation (NOT a C15 violation; it concerns the rebuild command).

The aligned v1 metafile that `create --align` writes is correct (checked here
with an independent hashlib oracle), but `rebuild` cannot use it: every piece
that contains a BEP 47 padding entry is unverifiable because rebuild looks for
a real file named like the padding entry (".pad/<N>" -> file name "<N>").
A file shorter than one piece (or an empty file next to a padded piece) is
therefore never restored, although the very same tree without --align is.

exit 1 = rebuild failed to restore the file from the aligned metafile
exit 0 = restored
"""
import contextlib
import hashlib
import io
import os
import shutil
import sys
import tempfile

from torrentfile.rebuild import Assembler
from torrentfile.torrent import TorrentFile

PL = 16384


def bdecode(data, i=0):
    c = data[i:i + 1]
    if c == b"i":
        e = data.index(b"e", i)
        return int(data[i + 1:e]), e + 1
    if c == b"l":
        i += 1
        out = []
        while data[i:i + 1] != b"e":
            v, i = bdecode(data, i)
            out.append(v)
        return out, i + 1
    if c == b"d":
        i += 1
        out = {}
        while data[i:i + 1] != b"e":
            k, i = bdecode(data, i)
            v, i = bdecode(data, i)
            out[k] = v
        return out, i + 1
    colon = data.index(b":", i)
    n = int(data[i:colon])
    return data[colon + 1:colon + 1 + n], colon + 1 + n


def main():
    tmp = tempfile.mkdtemp(prefix="c15adj_")
    try:
        root = os.path.join(tmp, "src", "payload")
        os.makedirs(root)
        data = b"hello"
        with open(os.path.join(root, "a"), "wb") as fd:
            fd.write(data)
        results = {}
        for align in (False, True):
            meta = os.path.join(tmp, f"m{int(align)}.torrent")
            dest = os.path.join(tmp, f"dest{int(align)}")
            os.mkdir(dest)
            with contextlib.redirect_stdout(io.StringIO()):
                TorrentFile(path=root, align=align, piece_length=PL,
                            progress=0, outfile=meta).write()
                Assembler([meta], [os.path.join(tmp, "src")],
                          dest).assemble_torrents()
            info = bdecode(open(meta, "rb").read())[0][b"info"]
            if align:
                # the metafile itself is right (C15 holds)
                files = info[b"files"]
                assert [f[b"length"] for f in files] == [5, PL - 5], files
                assert files[1][b"attr"] == b"p"
                want = hashlib.sha1(data + bytes(PL - 5)).digest()
                assert info[b"pieces"] == want
            restored = os.path.join(dest, "payload", "a")
            results[align] = (os.path.isfile(restored)
                              and open(restored, "rb").read() == data)
        print("rebuild from unaligned metafile restored payload/a:",
              results[False])
        print("rebuild from aligned   metafile restored payload/a:",
              results[True])
        if results[False] and not results[True]:
            print("EXPECTED: payload/a restored in both cases (the candidate "
                  "is byte-identical and the aligned piece = sha1(file + "
                  "zero padding) verifies)")
            print("OBSERVED: the aligned metafile's padding entry makes the "
                  "piece unverifiable; nothing is copied")
            return 1
        return 0
    finally:
        shutil.rmtree(tmp, ignore_errors=True)


if __name__ == "__main__":
    sys.exit(main())
