#!/usr/bin/env python
"""
C16 finding 2 - v1 recheck reads a file past the length its entry describes.

A BEP 47 symbolic-link entry (attr "l", "symlink path", length 0 - what
libtorrent based clients write with the "preserve symlinks" option, and what
they materialise on disk as a real symlink) contributes ZERO bytes to the v1
piece stream.  torrentfile's v1 checker opens the link, reads the whole target
and splices it into the stream: every later piece is shifted, the undamaged
payload is reported far below 100 %, and a flip confined to the last piece
changes nothing because the verdicts of all other pieces are already wrong.

Run:  PYTHONPATH=/tmp/hunt6-C16 /venv/bin/python finding2.py
Exit: 1 when the property is violated, 0 otherwise.
"""
import contextlib
import hashlib
import io
import os
import shutil
import sys
import tempfile


def benc(o):
    """Independent bencoder."""
    if isinstance(o, int):
        return b"i%de" % o
    if isinstance(o, str):
        o = o.encode()
    if isinstance(o, (bytes, bytearray)):
        return b"%d:%s" % (len(o), bytes(o))
    if isinstance(o, list):
        return b"l" + b"".join(benc(x) for x in o) + b"e"
    if isinstance(o, dict):
        items = sorted((k.encode(), v) for k, v in o.items())
        return b"d" + b"".join(benc(k) + benc(v) for k, v in items) + b"e"
    raise TypeError(o)


def reference(root, entries, piece_length, pieces):
    """
    Piece-by-piece reference: each entry supplies exactly `length` bytes,
    taken from disk, absent bytes read as zeros.
    """
    disk = b""
    for entry in entries:
        path = os.path.join(root, *entry["path"])
        length = entry["length"]
        data = b""
        if length and os.path.exists(path):
            with open(path, "rb") as fd:
                data = fd.read(length)
        disk += data + bytes(length - len(data))
    good = 0
    verdicts = []
    for k, i in enumerate(range(0, len(disk), piece_length)):
        chunk = disk[i:i + piece_length]
        ok = hashlib.sha1(chunk).digest() == pieces[20 * k:20 * k + 20]
        verdicts.append(ok)
        if ok:
            good += len(chunk)
    return good / len(disk) * 100, verdicts


def tool(metafile, content):
    """Percentage and per piece verdicts as the library reports them."""
    from torrentfile.recheck import Checker

    with contextlib.redirect_stdout(io.StringIO()):
        checker = Checker(metafile, content)
        verdicts = [a == b for a, b, _, _ in checker.iter_hashes()]
        return checker.results(), verdicts


def main():
    tmp = tempfile.mkdtemp(prefix="c16_f2_")
    try:
        root = os.path.join(tmp, "payload")
        os.mkdir(root)
        plen = 16384
        a = bytes((i * 7 + 1) % 251 + 1 for i in range(40000))
        z = bytes((i * 11 + 3) % 251 + 1 for i in range(30000))
        with open(os.path.join(root, "a.bin"), "wb") as fd:
            fd.write(a)
        os.symlink("a.bin", os.path.join(root, "link.bin"))
        with open(os.path.join(root, "z.bin"), "wb") as fd:
            fd.write(z)

        entries = [
            {"length": len(a), "path": ["a.bin"]},
            {"attr": "l", "length": 0, "path": ["link.bin"],
             "symlink path": ["a.bin"]},
            {"length": len(z), "path": ["z.bin"]},
        ]
        stream = a + z  # the link entry has length 0
        pieces = b"".join(
            hashlib.sha1(stream[i:i + plen]).digest()
            for i in range(0, len(stream), plen))
        info = {"name": "payload", "piece length": plen, "pieces": pieces,
                "files": entries}
        metafile = os.path.join(tmp, "payload.torrent")
        with open(metafile, "wb") as fd:
            fd.write(benc({"info": info}))

        failed = False

        exp, exp_v = reference(root, entries, plen, pieces)
        got, got_v = tool(metafile, root)
        print("payload bytes described by the metafile: %d" % len(stream))
        print("[no damage]          expected %r  verdicts %s" % (exp, exp_v))
        print("[no damage]          reported %r  verdicts %s" % (got, got_v))
        if abs(exp - got) > 1e-9:
            failed = True

        # damage confined to the last piece (one flipped byte in z.bin)
        with open(os.path.join(root, "z.bin"), "r+b") as fd:
            fd.seek(len(z) - 1)
            fd.write(bytes([z[-1] ^ 0x55]))
        exp2, exp2_v = reference(root, entries, plen, pieces)
        got2, got2_v = tool(metafile, root)
        print("[flip in last piece] expected %r  verdicts %s" % (exp2, exp2_v))
        print("[flip in last piece] reported %r  verdicts %s" % (got2, got2_v))
        if abs(exp2 - got2) > 1e-9:
            failed = True

        if failed:
            print("VIOLATION: the reported percentage is not the share of "
                  "payload bytes in verifying pieces; the zero-length "
                  "symlink entry injected %d foreign bytes into the stream "
                  "and shifted every later piece" % len(a))
            return 1
        print("ok")
        return 0
    finally:
        shutil.rmtree(tmp, ignore_errors=True)


if __name__ == "__main__":
    sys.exit(main())
