#!/usr/bin/env python
"""
C16 finding 1 - interactive recheck route: the two prompts are labelled the
wrong way round, so a user who answers each prompt with what it asks for never
gets a percentage (an exception is raised instead).

Run:  PYTHONPATH=/tmp/hunt6-C16 /venv/bin/python finding1.py
Exit: 1 when the property is violated, 0 otherwise.
"""
import builtins
import contextlib
import hashlib
import io
import os
import shutil
import sys
import tempfile


def benc(o):
    """Independent bencoder."""
    if isinstance(o, int):
        return b"i%de" % o
    if isinstance(o, str):
        o = o.encode()
    if isinstance(o, (bytes, bytearray)):
        return b"%d:%s" % (len(o), bytes(o))
    if isinstance(o, list):
        return b"l" + b"".join(benc(x) for x in o) + b"e"
    if isinstance(o, dict):
        items = sorted((k.encode(), v) for k, v in o.items())
        return b"d" + b"".join(benc(k) + benc(v) for k, v in items) + b"e"
    raise TypeError(o)


def reference(files, piece_length, pieces):
    """Share of payload bytes in verifying v1 pieces, absent data = zeros."""
    disk = b""
    for path, length in files:
        data = b""
        if os.path.exists(path):
            with open(path, "rb") as fd:
                data = fd.read(length)
        disk += data + bytes(length - len(data))
    good = 0
    for k, i in enumerate(range(0, len(disk), piece_length)):
        chunk = disk[i:i + piece_length]
        if hashlib.sha1(chunk).digest() == pieces[20 * k:20 * k + 20]:
            good += len(chunk)
    return good / len(disk) * 100


def main():
    tmp = tempfile.mkdtemp(prefix="c16_f1_")
    try:
        root = os.path.join(tmp, "payload")
        os.mkdir(root)
        plen = 16384
        a = bytes((i * 7 + 1) % 251 + 1 for i in range(40000))
        b = bytes((i * 11 + 3) % 251 + 1 for i in range(30000))
        with open(os.path.join(root, "a.bin"), "wb") as fd:
            fd.write(a)
        with open(os.path.join(root, "b.bin"), "wb") as fd:
            fd.write(b)
        stream = a + b
        pieces = b"".join(
            hashlib.sha1(stream[i:i + plen]).digest()
            for i in range(0, len(stream), plen))
        info = {
            "name": "payload",
            "piece length": plen,
            "pieces": pieces,
            "files": [
                {"length": len(a), "path": ["a.bin"]},
                {"length": len(b), "path": ["b.bin"]},
            ],
        }
        metafile = os.path.join(tmp, "payload.torrent")
        with open(metafile, "wb") as fd:
            fd.write(benc({"info": info}))

        # one flipped byte in the last piece: a known, non trivial share
        with open(os.path.join(root, "b.bin"), "r+b") as fd:
            fd.seek(len(b) - 1)
            fd.write(bytes([b[-1] ^ 0x55]))

        files = [(os.path.join(root, "a.bin"), len(a)),
                 (os.path.join(root, "b.bin"), len(b))]
        expected = reference(files, plen, pieces)

        asked = []

        def choose(prompt):
            """Pick the answer a prompt's own label asks for."""
            low = prompt.lower()
            if "action" in low:
                return "r"
            if "metafile" in low or "*.torrent" in low:
                return metafile
            if "path" in low or "content" in low or "conent" in low:
                return root
            raise AssertionError("unexpected prompt: %r" % prompt)

        def answer(prompt=""):
            """Answer every prompt with exactly what its label asks for."""
            if len(asked) > 20:
                raise AssertionError("too many prompts")
            reply = choose(prompt)
            asked.append((prompt, reply))
            return reply

        from torrentfile import interactive

        real_input = builtins.input
        builtins.input = answer
        out = io.StringIO()
        got = error = None
        try:
            with contextlib.redirect_stdout(out):
                got = interactive.select_action()
        except BaseException as exc:  # pylint: disable=broad-except
            error = exc
        finally:
            builtins.input = real_input

        print("prompts shown and the answers given:")
        for prompt, reply in asked:
            print("   %r -> %r" % (prompt.strip().splitlines()[-1], reply))
        print("expected (reference, hashlib piece by piece): %r" % expected)
        # control: the same dialogue answered against the labels
        swapped = iter(["r", metafile, root])
        builtins.input = lambda prompt="": next(swapped)
        try:
            with contextlib.redirect_stdout(io.StringIO()):
                control = interactive.select_action()
        except BaseException as exc:  # pylint: disable=broad-except
            control = "%s: %s" % (type(exc).__name__, exc)
        finally:
            builtins.input = real_input
        print("control (metafile typed at the 'Conent Path' prompt, content "
              "at the 'Metafile' prompt): %r" % (control,))

        if error is not None:
            print("observed: %s: %s" % (type(error).__name__, error))
            print("VIOLATION: interactive recheck reports no percentage when "
                  "each prompt is answered as labelled")
            return 1
        print("observed: %r" % got)
        if got is None or abs(got - expected) > 1e-9:
            print("VIOLATION: reported percentage differs from the reference")
            return 1
        print("ok")
        return 0
    finally:
        shutil.rmtree(tmp, ignore_errors=True)


if __name__ == "__main__":
    sys.exit(main())
