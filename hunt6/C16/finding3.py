#!/usr/bin/env python
"""
C16 finding 3 (literal reading of the quantifier) - when the removal set
covers the whole payload, recheck raises instead of reporting 0 %.

"Removal" is one of the damage kinds the property quantifies over and the
statement says absent data is read as zeros.  For a single-file torrent the
only possible removal is that of the file itself; for a multi-file torrent a
client that prunes empty directories removes the payload directory with the
last file.  Pointing recheck at the download directory (a documented spelling
of the content path: "path to content or contents parent directory") then
raises FileNotFoundError instead of reporting 0.

Run:  PYTHONPATH=/tmp/hunt6-C16 /venv/bin/python finding3.py
Exit: 1 when the property is violated, 0 otherwise.
"""
import contextlib
import hashlib
import io
import os
import shutil
import sys
import tempfile


def benc(o):
    """Independent bencoder."""
    if isinstance(o, int):
        return b"i%de" % o
    if isinstance(o, str):
        o = o.encode()
    if isinstance(o, (bytes, bytearray)):
        return b"%d:%s" % (len(o), bytes(o))
    if isinstance(o, list):
        return b"l" + b"".join(benc(x) for x in o) + b"e"
    if isinstance(o, dict):
        items = sorted((k.encode(), v) for k, v in o.items())
        return b"d" + b"".join(benc(k) + benc(v) for k, v in items) + b"e"
    raise TypeError(o)


def reference(paths_lengths, piece_length, pieces):
    """Share of payload bytes in verifying v1 pieces, absent data = zeros."""
    disk = b""
    for path, length in paths_lengths:
        data = b""
        if os.path.exists(path):
            with open(path, "rb") as fd:
                data = fd.read(length)
        disk += data + bytes(length - len(data))
    good = 0
    for k, i in enumerate(range(0, len(disk), piece_length)):
        chunk = disk[i:i + piece_length]
        if hashlib.sha1(chunk).digest() == pieces[20 * k:20 * k + 20]:
            good += len(chunk)
    return good / len(disk) * 100


def tool(metafile, content):
    """Run the library route."""
    from torrentfile.recheck import Checker

    try:
        with contextlib.redirect_stdout(io.StringIO()):
            return Checker(metafile, content).results()
    except Exception as exc:  # pylint: disable=broad-except
        return exc


def main():
    tmp = tempfile.mkdtemp(prefix="c16_f3_")
    failed = False
    try:
        plen = 16384
        data = bytes((i * 7 + 1) % 251 + 1 for i in range(40000))
        pieces = b"".join(
            hashlib.sha1(data[i:i + plen]).digest()
            for i in range(0, len(data), plen))

        # single file torrent, file removed, download directory given
        down = os.path.join(tmp, "downloads")
        os.mkdir(down)
        single = os.path.join(down, "one.bin")
        with open(single, "wb") as fd:
            fd.write(data)
        meta1 = os.path.join(tmp, "one.torrent")
        with open(meta1, "wb") as fd:
            fd.write(benc({"info": {"name": "one.bin", "piece length": plen,
                                    "length": len(data), "pieces": pieces}}))
        os.remove(single)
        exp = reference([(single, len(data))], plen, pieces)
        got = tool(meta1, down)
        print("single file removed, content path = its directory")
        print("   expected %r" % exp)
        print("   observed %r" % (got,))
        if isinstance(got, Exception) or abs(got - exp) > 1e-9:
            failed = True

        # multi file torrent, every file and the emptied directory removed
        root = os.path.join(down, "payload")
        os.mkdir(root)
        with open(os.path.join(root, "a.bin"), "wb") as fd:
            fd.write(data[:25000])
        with open(os.path.join(root, "b.bin"), "wb") as fd:
            fd.write(data[25000:])
        meta2 = os.path.join(tmp, "payload.torrent")
        with open(meta2, "wb") as fd:
            fd.write(benc({"info": {
                "name": "payload", "piece length": plen, "pieces": pieces,
                "files": [{"length": 25000, "path": ["a.bin"]},
                          {"length": 15000, "path": ["b.bin"]}]}}))
        # control: files removed, directory kept
        os.remove(os.path.join(root, "a.bin"))
        os.remove(os.path.join(root, "b.bin"))
        files = [(os.path.join(root, "a.bin"), 25000),
                 (os.path.join(root, "b.bin"), 15000)]
        exp = reference(files, plen, pieces)
        print("control: both files removed, emptied directory kept")
        print("   expected %r" % exp)
        print("   observed %r" % (tool(meta2, down),))
        os.rmdir(root)
        got = tool(meta2, down)
        print("both files and the emptied payload directory removed")
        print("   expected %r" % exp)
        print("   observed %r" % (got,))
        if isinstance(got, Exception) or abs(got - exp) > 1e-9:
            failed = True

        if failed:
            print("VIOLATION: removal of the whole payload is answered with "
                  "an exception, not with 0 %")
            return 1
        print("ok")
        return 0
    finally:
        shutil.rmtree(tmp, ignore_errors=True)


if __name__ == "__main__":
    sys.exit(main())
