#!/usr/bin/env python3
"""
C19 finding 1: rebuild writes THROUGH a symbolic link / hard link that sits at
a file's path inside the destination, and so creates or overwrites a file that
lives outside the destination directory.

The metafile is syntactically valid, its name is '.' (hostile alphabet) and its
only path is ['', 'f0'] (v1) / tree {'f0': ...} (v2, hybrid); the candidate
file f0 is present in the search directory so the copy is attempted.

Oracle: a snapshot (type, size, sha1, link target) of every entry of the
sandbox that is NOT below the destination, taken before and after the run.
The property demands that the two snapshots are equal.

Exit status 1 = property violated, 0 = holds.
Run with: PYTHONPATH=<clone> python finding1.py
"""
import hashlib
import os
import shutil
import subprocess
import sys
import tempfile

PIECE_LENGTH = 16384
DATA = b"genuine payload of the torrent " * 4  # 124 bytes, one block


def benc(obj):
    """Independent bencoder."""
    if isinstance(obj, int):
        return b"i%de" % obj
    if isinstance(obj, str):
        obj = obj.encode()
    if isinstance(obj, bytes):
        return b"%d:%s" % (len(obj), obj)
    if isinstance(obj, list):
        return b"l" + b"".join(benc(x) for x in obj) + b"e"
    items = sorted((k.encode(), v) for k, v in obj.items())
    return b"d" + b"".join(benc(k) + benc(v) for k, v in items) + b"e"


def metafile(kind):
    info = {"name": ".", "piece length": PIECE_LENGTH}
    if kind in ("v1", "hybrid"):
        info["pieces"] = hashlib.sha1(DATA).digest()
        info["files"] = [{"length": len(DATA), "path": ["", "f0"] if kind == "v1" else ["f0"]}]
    if kind in ("v2", "hybrid"):
        info["meta version"] = 2
        # a file of at most one 16 KiB block: pieces root == sha256(block)
        info["file tree"] = {"f0": {"": {"length": len(DATA),
                                         "pieces root": hashlib.sha256(DATA).digest()}}}
    return benc({"info": info, "piece layers": {}} if kind != "v1" else {"info": info})


def snapshot(root, exclude):
    snap = {}
    for dirpath, dirs, files in os.walk(root):
        dirs[:] = [d for d in dirs if os.path.join(dirpath, d) != exclude]
        for name in dirs + files:
            path = os.path.join(dirpath, name)
            if os.path.islink(path):
                snap[path] = ("symlink", os.readlink(path))
            elif os.path.isdir(path):
                snap[path] = ("dir", )
            else:
                with open(path, "rb") as fd:
                    blob = fd.read()
                snap[path] = ("file", len(blob), hashlib.sha1(blob).hexdigest())
    return snap


def run(sandbox, kind, variant):
    # the destination is 12 levels below the sandbox: nothing can leave it
    deep = os.path.join(sandbox, kind + "-" + variant, *["d%d" % i for i in range(11)])
    dest = os.path.join(deep, "dest")
    content = os.path.join(deep, "content")
    outside = os.path.join(deep, "outside")
    for path in (dest, content, outside):
        os.makedirs(path)
    with open(os.path.join(content, "f0"), "wb") as fd:
        fd.write(DATA)
    if variant == "dangling-symlink":
        # e.g. left behind by a client whose incomplete dir was removed
        os.symlink(os.path.join(outside, "created"), os.path.join(dest, "f0"))
    else:
        with open(os.path.join(outside, "victim"), "wb") as fd:
            fd.write(b"unrelated")  # shorter than the payload
        if variant == "symlink":
            os.symlink(os.path.join(outside, "victim"), os.path.join(dest, "f0"))
        else:
            os.link(os.path.join(outside, "victim"), os.path.join(dest, "f0"))
    meta = os.path.join(deep, "t.torrent")
    with open(meta, "wb") as fd:
        fd.write(metafile(kind))
    before = snapshot(sandbox, dest)
    proc = subprocess.run(
        [sys.executable, "-m", "torrentfile", "rebuild", "-m", meta, "-c", content, "-d", dest],
        stdout=subprocess.PIPE, stderr=subprocess.STDOUT, cwd=deep, check=False)
    after = snapshot(sandbox, dest)
    changes = []
    for path in sorted(set(before) | set(after)):
        if before.get(path) != after.get(path):
            changes.append((os.path.relpath(path, deep), before.get(path), after.get(path)))
    return proc.returncode, changes


def main():
    import torrentfile
    print("torrentfile from", os.path.dirname(torrentfile.__file__))
    here = os.path.dirname(os.path.abspath(__file__))
    sandbox = tempfile.mkdtemp(prefix="c19-f1-", dir=here)
    violated = False
    try:
        for kind in ("v1", "v2", "hybrid"):
            for variant in ("dangling-symlink", "symlink", "hardlink"):
                code, changes = run(sandbox, kind, variant)
                print(f"{kind:6} dest/f0 is a {variant:16} -> exit {code}; "
                      f"entries outside the destination that changed: {len(changes)}")
                for rel, old, new in changes:
                    violated = True
                    print(f"    {rel}: {old} -> {new}")
    finally:
        shutil.rmtree(sandbox)
    print()
    print("expected: rebuild creates/overwrites nothing outside <dest> "
          "(every line above reports 0 changed entries)")
    if violated:
        print("observed: files outside <dest> were created / overwritten "
              "with the payload (sha1 %s)" % hashlib.sha1(DATA).hexdigest())
        print("RESULT: property C19 VIOLATED")
        return 1
    print("observed: nothing outside <dest> changed")
    print("RESULT: property holds")
    return 0


if __name__ == "__main__":
    sys.exit(main())
