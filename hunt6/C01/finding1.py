#!/usr/bin/env python3
"""C01 finding 1: a directory called ".torrent" aborts `create`.

Without -o, commands.create() probes writability by opening the literal path
<cwd>/.torrent for appending.  If a *directory* of that name sits in the
working directory - most naturally because the content root itself is called
".torrent" - the probe raises IsADirectoryError and no metafile is produced,
although the real default output path (<cwd>/<name>.torrent) is free and
writable.  Content naming is unrestricted by the property.

Run:  PYTHONPATH=/tmp/hunt6-C01 /venv/bin/python finding1.py
exit 1 = property violated, exit 0 = holds.
"""
import hashlib
import os
import shutil
import subprocess
import sys
import tempfile


def bdecode(data, i=0):
    c = data[i:i + 1]
    if c == b"i":
        j = data.index(b"e", i)
        return int(data[i + 1:j]), j + 1
    if c == b"l":
        i += 1
        out = []
        while data[i:i + 1] != b"e":
            v, i = bdecode(data, i)
            out.append(v)
        return out, i + 1
    if c == b"d":
        i += 1
        out = {}
        while data[i:i + 1] != b"e":
            k, i = bdecode(data, i)
            v, i = bdecode(data, i)
            out[k] = v
        return out, i + 1
    j = data.index(b":", i)
    n = int(data[i:j])
    return data[j + 1:j + 1 + n], j + 1 + n


def check(metafile, root):
    """Independent BEP 3 check of a multi-file v1 metafile against root."""
    with open(metafile, "rb") as fd:
        meta, _ = bdecode(fd.read())
    info = meta[b"info"]
    plen = info[b"piece length"]
    disk = {}
    for dirpath, _, names in os.walk(os.fsencode(root)):
        for name in names:
            full = os.path.join(dirpath, name)
            rel = tuple(os.path.relpath(full, os.fsencode(root)).split(b"/"))
            disk[rel] = os.path.getsize(full)
    listed = {tuple(e[b"path"]): e[b"length"] for e in info[b"files"]}
    payload = b""
    for entry in info[b"files"]:
        with open(os.path.join(os.fsencode(root), *entry[b"path"]), "rb") as fd:
            payload += fd.read()
    want = b"".join(
        hashlib.sha1(payload[i:i + plen]).digest()
        for i in range(0, len(payload), plen))
    return listed == disk and want == info[b"pieces"]


def run(args, cwd):
    return subprocess.run([sys.executable, "-m", "torrentfile"] + args,
                          cwd=cwd, capture_output=True, text=True)


def main():
    tmp = tempfile.mkdtemp(prefix="c01f1_")
    try:
        work = os.path.join(tmp, "work")
        root = os.path.join(work, ".torrent")  # content root, one file
        os.makedirs(root)
        with open(os.path.join(root, "a"), "wb") as fd:
            fd.write(b"0123456789")

        # control: same tree, explicit output path -> fine
        ctl = run(["create", ".torrent", "-o", "ctl.torrent"], work)
        ctl_ok = ctl.returncode == 0 and check(
            os.path.join(work, "ctl.torrent"), root)
        print("control  (create .torrent -o ctl.torrent): exit",
              ctl.returncode, "| metafile matches disk:", ctl_ok)

        # the documented default invocation: torrentfile create <content>
        res = run(["create", ".torrent"], work)
        expected_out = os.path.join(work, ".torrent.torrent")
        print("expected (create .torrent): exit 0 and", expected_out,
              "holding the BEP 3 hashing of the one file 'a'")
        if res.returncode == 0 and os.path.isfile(expected_out) and check(
                expected_out, root):
            print("observed: metafile written and correct -> property holds")
            return 0
        last = (res.stderr.strip().splitlines() or ["<no stderr>"])[-1]
        print("observed: exit", res.returncode, "|", last)
        print("          metafile exists:", os.path.exists(expected_out))
        print("VIOLATION: valid content tree, default options, no metafile")
        return 1
    finally:
        shutil.rmtree(tmp, ignore_errors=True)


if __name__ == "__main__":
    sys.exit(main())
