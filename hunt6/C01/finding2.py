#!/usr/bin/env python3
"""C01 finding 2: piece length 26 (= 64 MiB) is advertised but rejected.

`torrentfile create -h` says: "acceptable values include numbers 14-26"
(the manual, site/overview.md, even says 14-29).  utils.normalize_piece_length
only maps the exponents 14..25 (`13 < piece_length < 26`), so the advertised
value 26 falls through to the byte-count test, is smaller than 16 KiB and
raises PieceLengthValueError.  The very same piece length spelled in bytes
(67108864) is accepted and hashed correctly, so the value is valid and the
machinery handles it - only the shorthand boundary is off by one.

Run:  PYTHONPATH=/tmp/hunt6-C01 /venv/bin/python finding2.py
exit 1 = property violated, exit 0 = holds.
"""
import hashlib
import os
import re
import shutil
import subprocess
import sys
import tempfile


def bdecode(data, i=0):
    c = data[i:i + 1]
    if c == b"i":
        j = data.index(b"e", i)
        return int(data[i + 1:j]), j + 1
    if c == b"l":
        i += 1
        out = []
        while data[i:i + 1] != b"e":
            v, i = bdecode(data, i)
            out.append(v)
        return out, i + 1
    if c == b"d":
        i += 1
        out = {}
        while data[i:i + 1] != b"e":
            k, i = bdecode(data, i)
            v, i = bdecode(data, i)
            out[k] = v
        return out, i + 1
    j = data.index(b":", i)
    n = int(data[i:j])
    return data[j + 1:j + 1 + n], j + 1 + n


def run(args, cwd):
    return subprocess.run([sys.executable, "-m", "torrentfile"] + args,
                          cwd=cwd, capture_output=True, text=True)


def verify(metafile, payload, want_plen):
    with open(metafile, "rb") as fd:
        meta, _ = bdecode(fd.read())
    info = meta[b"info"]
    want = b"".join(
        hashlib.sha1(payload[i:i + want_plen]).digest()
        for i in range(0, len(payload), want_plen))
    return (info[b"piece length"] == want_plen
            and info.get(b"length") == len(payload)
            and info[b"pieces"] == want)


def main():
    tmp = tempfile.mkdtemp(prefix="c01f2_")
    try:
        payload = b"0123456789"
        with open(os.path.join(tmp, "a"), "wb") as fd:
            fd.write(payload)

        helptext = run(["create", "-h"], tmp).stdout
        claim = re.search(r"acceptable values include numbers (\d+)-(\d+)",
                          " ".join(helptext.split()))
        print("tool's own help:", claim.group(0) if claim else "<not found>")
        top = int(claim.group(2)) if claim else 26

        ctl = run(["create", "a", "-o", "ctl.torrent", "--piece-length",
                   str(2**top)], tmp)
        ctl_ok = ctl.returncode == 0 and verify(
            os.path.join(tmp, "ctl.torrent"), payload, 2**top)
        print(f"control  (--piece-length {2**top}): exit {ctl.returncode}"
              f" | piece length recorded and pieces correct: {ctl_ok}")

        res = run(["create", "a", "-o", "o.torrent", "--piece-length",
                   str(top)], tmp)
        out = os.path.join(tmp, "o.torrent")
        print(f"expected (--piece-length {top}): exit 0, 'piece length' = "
              f"{2**top}, pieces = sha1 of the 10 payload bytes")
        if res.returncode == 0 and os.path.isfile(out) and verify(
                out, payload, 2**top):
            print("observed: metafile written and correct -> property holds")
            return 0
        last = (res.stderr.strip().splitlines() or ["<no stderr>"])[-1]
        print("observed: exit", res.returncode, "|", last)
        print("          metafile exists:", os.path.exists(out))
        print("VIOLATION: a piece length the tool documents as acceptable "
              "is refused")
        return 1
    finally:
        shutil.rmtree(tmp, ignore_errors=True)


if __name__ == "__main__":
    sys.exit(main())
