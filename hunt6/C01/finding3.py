#!/usr/bin/env python3
"""C01 finding 3 (reading-dependent): create invalidates its own metafile
when the output path lies inside the content root.

The default output path is <cwd>/<name>.torrent.  When the working directory
is the content root (`cd content && torrentfile create .`) that path is a
regular file *under the content root*.  On the second run the previous
<name>.torrent is listed and hashed like any other content file - and is then
overwritten with the new, different metafile.  The metafile that create hands
back therefore records a length and a piece hash for <name>.torrent that do
not match the file on disk at the moment create returns; the torrent can
never be verified or seeded.  No warning is given.

Reading caveat: at the instant hashing started the listing was exact; the
mismatch is produced by the tool's own write, milliseconds later.

Run:  PYTHONPATH=/tmp/hunt6-C01 /venv/bin/python finding3.py
exit 1 = metafile written by create disagrees with the disk, exit 0 = agrees.
"""
import hashlib
import os
import shutil
import subprocess
import sys
import tempfile


def bdecode(data, i=0):
    c = data[i:i + 1]
    if c == b"i":
        j = data.index(b"e", i)
        return int(data[i + 1:j]), j + 1
    if c == b"l":
        i += 1
        out = []
        while data[i:i + 1] != b"e":
            v, i = bdecode(data, i)
            out.append(v)
        return out, i + 1
    if c == b"d":
        i += 1
        out = {}
        while data[i:i + 1] != b"e":
            k, i = bdecode(data, i)
            v, i = bdecode(data, i)
            out[k] = v
        return out, i + 1
    j = data.index(b":", i)
    n = int(data[i:j])
    return data[j + 1:j + 1 + n], j + 1 + n


def snapshot(root):
    out = {}
    for dirpath, _, names in os.walk(root):
        for name in names:
            full = os.path.join(dirpath, name)
            with open(full, "rb") as fd:
                out[os.path.relpath(full, root)] = fd.read()
    return out


def main():
    tmp = tempfile.mkdtemp(prefix="c01f3_")
    try:
        root = os.path.join(tmp, "c")
        os.mkdir(root)
        with open(os.path.join(root, "a"), "wb") as fd:
            fd.write(b"0123456789")
        problems = []
        for attempt in (1, 2):
            res = subprocess.run(
                [sys.executable, "-m", "torrentfile", "create", "."],
                cwd=root, capture_output=True, text=True)
            if res.returncode:
                print(res.stderr)
                return 1
            disk = snapshot(root)  # what is under the content root now
            meta, _ = bdecode(disk["c.torrent"])
            info = meta[b"info"]
            plen = info[b"piece length"]
            listed = {
                "/".join(p.decode() for p in e[b"path"]): e[b"length"]
                for e in info[b"files"]
            }
            print(f"run {attempt}: create wrote c/c.torrent "
                  f"({len(disk['c.torrent'])} bytes); it lists {listed}")
            print(f"        on disk now: "
                  f"{ {k: len(v) for k, v in sorted(disk.items())} }")
            if attempt == 1:
                continue
            payload = b"".join(
                disk["/".join(p.decode() for p in e[b"path"])]
                for e in info[b"files"])
            want = b"".join(
                hashlib.sha1(payload[i:i + plen]).digest()
                for i in range(0, len(payload), plen))
            for name, length in listed.items():
                if len(disk[name]) != length:
                    problems.append(
                        f"{name}: listed length {length}, on disk "
                        f"{len(disk[name])}")
            if want != info[b"pieces"]:
                problems.append(
                    "pieces: " + info[b"pieces"].hex() + " recorded, " +
                    want.hex() + " = SHA-1 of the listed files on disk")
        print("expected: every listed length and the piece string match the "
              "files under the content root when create returns")
        if problems:
            for line in problems:
                print("observed:", line)
            print("VIOLATION (under the 'state when create returns' reading)")
            return 1
        print("observed: all match -> property holds")
        return 0
    finally:
        shutil.rmtree(tmp, ignore_errors=True)


if __name__ == "__main__":
    sys.exit(main())
