#!/usr/bin/env python
"""
C08 finding 1 - info-hash depends on how many symbolic links the *spelling of
the content path* walks through, when the content tree contains a symlink
cycle (e.g. ``latest -> .``).

Tree (identical bytes, names and shape in every run - it is the very same
directory):

    <tmp>/real/payload/f          1 byte
    <tmp>/real/payload/loop -> .  symlink cycle
    <tmp>/alias -> real           a symlinked parent directory

Runs (same options, piece length 16 KiB, progress 0):

    A  cwd=<tmp>        create <tmp>/real/payload     absolute, no symlink
    B  cwd=<tmp>        create <tmp>/alias/payload    absolute, via symlink
    C  cwd=<tmp>/alias  create payload                relative spelling of B

Expected by C08: A, B and C give the same info-hash for every meta version.
Observed: B differs (the kernel's 40-symlink budget per path lookup is shared
between the prefix and the cycle, so B unrolls the cycle one level less).

Oracle: own bencode decoder slices the raw info dictionary out of the written
metafile; hashlib.sha1 over those bytes.
Exit 1 when the property is violated, 0 otherwise.
"""
import hashlib
import os
import shutil
import subprocess
import sys
import tempfile


def bdecode(data, i=0):
    """Minimal bencode decoder -> (value, next_index); byte strings stay bytes."""
    c = data[i:i + 1]
    if c == b"i":
        j = data.index(b"e", i)
        return int(data[i + 1:j]), j + 1
    if c == b"l":
        i += 1
        out = []
        while data[i:i + 1] != b"e":
            val, i = bdecode(data, i)
            out.append(val)
        return out, i + 1
    if c == b"d":
        i += 1
        out = {}
        while data[i:i + 1] != b"e":
            key, i = bdecode(data, i)
            start = i
            val, i = bdecode(data, i)
            out[key] = val
            out[(key, "raw")] = data[start:i]
        return out, i + 1
    j = data.index(b":", i)
    n = int(data[i:j])
    return data[j + 1:j + 1 + n], j + 1 + n


def count_files(info):
    """Number of file entries described by an info dict (v1 list or v2 tree)."""
    if b"files" in info:
        return len(info[b"files"])

    def walk(node):
        total = 0
        for key, val in node.items():
            if isinstance(key, tuple):
                continue
            if key == b"":
                return 1
            total += walk(val)
        return total

    return walk(info[b"file tree"])


def create(cwd, spelled, version, out):
    cmd = [
        sys.executable, "-m", "torrentfile", "create", "--prog", "0",
        "--meta-version", version, "--piece-length", "14", "-o", out, spelled
    ]
    res = subprocess.run(cmd, cwd=cwd, capture_output=True, check=False)
    if res.returncode != 0:
        return None, res.stderr.decode(errors="replace")[-400:]
    meta, _ = bdecode(open(out, "rb").read())
    raw = meta[(b"info", "raw")]
    return (hashlib.sha1(raw).hexdigest(), count_files(meta[b"info"])), None


def main():
    tmp = tempfile.mkdtemp(prefix="c08f1_")
    bad = False
    try:
        payload = os.path.join(tmp, "real", "payload")
        os.makedirs(payload)
        with open(os.path.join(payload, "f"), "wb") as fd:
            fd.write(b"x")
        os.symlink(".", os.path.join(payload, "loop"))
        os.symlink("real", os.path.join(tmp, "alias"))
        outdir = os.path.join(tmp, "out")
        os.mkdir(outdir)

        runs = [
            ("A abs, no symlink in prefix ", tmp, payload),
            ("B abs, via symlinked parent ", tmp,
             os.path.join(tmp, "alias", "payload")),
            ("C rel, cwd=<tmp>/alias      ", os.path.join(tmp, "alias"),
             "payload"),
        ]
        for version in ("1", "2", "3"):
            results = []
            for label, cwd, spelled in runs:
                out = os.path.join(outdir, f"v{version}_{label[0]}.torrent")
                got, err = create(cwd, spelled, version, out)
                if got is None:
                    print(f"meta-version {version} {label}: ERROR {err}")
                    bad = True
                    continue
                results.append(got[0])
                print(f"meta-version {version} {label}: info-hash {got[0]}"
                      f"  file entries {got[1]}")
            if len(set(results)) != 1:
                bad = True
        print()
        if bad:
            print("EXPECTED: one info-hash per meta version (same tree, same "
                  "options; only the spelling/location of the path differs)")
            print("OBSERVED: run B (path through one symlinked directory) "
                  "yields a different info dictionary -> C08 VIOLATED")
        else:
            print("info-hash identical for all spellings: property holds")
    finally:
        shutil.rmtree(tmp)
    return 1 if bad else 0


if __name__ == "__main__":
    sys.exit(main())
