#!/usr/bin/env python
"""
C08 finding 2 - whether `create` produces a metafile at all depends on the
*contents of the current directory*: the writability probe uses the fixed name
".torrent" in the cwd (or in `-o dir/`), not the file that is going to be
written.  If the working directory happens to contain a directory called
".torrent", create aborts with IsADirectoryError before hashing anything,
although the real output file (<cwd>/<name>.torrent) is perfectly writable.

Same payload, same (default) options, two working directories:

    cwd1/            empty                      -> pay.torrent written
    cwd2/.torrent/   a directory of that name   -> traceback, nothing written

Expected by C08 ("unaffected by ... the current directory ... the output
location"): both runs succeed and give the same info-hash.
Oracle: own bencode slicing of the written file + hashlib.sha1, and a listing
of the working directory.
Exit 1 when the property is violated, 0 otherwise.
"""
import hashlib
import os
import shutil
import subprocess
import sys
import tempfile


def info_slice(data):
    """Return the raw bencoded value of the top-level key 'info'."""

    def skip(i):
        c = data[i:i + 1]
        if c == b"i":
            return data.index(b"e", i) + 1
        if c in (b"l", b"d"):
            i += 1
            while data[i:i + 1] != b"e":
                i = skip(i)
            return i + 1
        j = data.index(b":", i)
        return j + 1 + int(data[i:j])

    i = 1
    while data[i:i + 1] != b"e":
        j = data.index(b":", i)
        n = int(data[i:j])
        key = data[j + 1:j + 1 + n]
        start = j + 1 + n
        end = skip(start)
        if key == b"info":
            return data[start:end]
        i = end
    raise ValueError("no info key")


def run(cwd, args):
    cmd = [sys.executable, "-m", "torrentfile", "create", "--prog", "0"] + args
    return subprocess.run(cmd, cwd=cwd, capture_output=True, check=False)


def main():
    tmp = tempfile.mkdtemp(prefix="c08f2_")
    bad = False
    try:
        pay = os.path.join(tmp, "pay")
        os.mkdir(pay)
        with open(os.path.join(pay, "f"), "wb") as fd:
            fd.write(b"hello")
        cwd1 = os.path.join(tmp, "cwd1")
        cwd2 = os.path.join(tmp, "cwd2")
        os.mkdir(cwd1)
        os.makedirs(os.path.join(cwd2, ".torrent"))

        hashes = {}
        for label, cwd in (("cwd1 (empty)", cwd1),
                           ("cwd2 (contains directory '.torrent')", cwd2)):
            res = run(cwd, [pay])
            out = os.path.join(cwd, "pay.torrent")
            listing = sorted(os.listdir(cwd))
            if res.returncode == 0 and os.path.isfile(out):
                raw = info_slice(open(out, "rb").read())
                hashes[label] = hashlib.sha1(raw).hexdigest()
                print(f"{label}: ok, info-hash {hashes[label]}, "
                      f"cwd now holds {listing}")
            else:
                bad = True
                last = res.stderr.decode(errors="replace").strip()
                last = last.splitlines()[-1] if last else "<no stderr>"
                print(f"{label}: create FAILED rc={res.returncode}: {last}; "
                      f"cwd now holds {listing}")

        # same defect through the output-location route: -o <dir>/
        out1 = os.path.join(tmp, "out1")
        out2 = os.path.join(tmp, "out2")
        os.mkdir(out1)
        os.makedirs(os.path.join(out2, ".torrent"))
        for label, outdir in (("-o out1/ (empty)", out1),
                              ("-o out2/ (contains directory '.torrent')",
                               out2)):
            res = run(tmp, ["-o", outdir + os.sep, pay])
            out = os.path.join(outdir, "pay.torrent")
            if res.returncode == 0 and os.path.isfile(out):
                raw = info_slice(open(out, "rb").read())
                print(f"{label}: ok, info-hash "
                      f"{hashlib.sha1(raw).hexdigest()}")
            else:
                bad = True
                last = res.stderr.decode(errors="replace").strip()
                last = last.splitlines()[-1] if last else "<no stderr>"
                print(f"{label}: create FAILED rc={res.returncode}: {last}")

        print()
        if bad:
            print("EXPECTED: every run writes pay.torrent with the same "
                  "info-hash (only cwd / output directory differ)")
            print("OBSERVED: the run aborts when the directory that receives "
                  "the metafile contains a directory named '.torrent' "
                  "-> C08 VIOLATED")
        else:
            print("all runs succeeded with one info-hash: property holds")
    finally:
        shutil.rmtree(tmp)
    return 1 if bad else 0


if __name__ == "__main__":
    sys.exit(main())
