#!/usr/bin/env python
"""
C12 finding 2: a valid --piece-length on the command line is silently
discarded when the configuration file has a blank `piece-length =` line.

Run:  PYTHONPATH=/tmp/hunt6-C12 /venv/bin/python finding2.py
exit 1 = property violated, exit 0 = behaves as the property says.

The tool defines the empty string as "piece length not given" (torrent.py:309,
commit 92f38aa).  So with

    [config]
    piece-length =

and  `torrentfile create a.bin --piece-length 16 --config --config-path c.ini`
the only piece length the user supplied is 16 (= 2^16, valid), and the
statement says "the metafile then records exactly that value".
(If one instead reads the blank value as a supplied piece length, it is not a
power of two and the statement demands the piece-length error.  Either reading
forbids what happens: a metafile with the *automatically chosen* length.)

Oracle: own minimal bencode reader for info["piece length"]; the payload is
50 000 bytes so the automatic choice (16384) differs from 2^16 = 65536.
"""
import contextlib
import io
import os
import shutil
import sys
import tempfile

from torrentfile.cli import execute
from torrentfile.utils import PieceLengthValueError


def bdecode(data: bytes, i: int = 0):
    """Tiny independent bencode decoder -> (value, next index)."""
    c = data[i:i + 1]
    if c == b"i":
        end = data.index(b"e", i)
        return int(data[i + 1:end]), end + 1
    if c == b"l":
        i += 1
        out = []
        while data[i:i + 1] != b"e":
            val, i = bdecode(data, i)
            out.append(val)
        return out, i + 1
    if c == b"d":
        i += 1
        out = {}
        while data[i:i + 1] != b"e":
            key, i = bdecode(data, i)
            out[key], i = bdecode(data, i)
        return out, i + 1
    colon = data.index(b":", i)
    size = int(data[i:colon])
    return data[colon + 1:colon + 1 + size], colon + 1 + size


def run(args, out):
    """Run the CLI in-process; return recorded piece length or a label."""
    if os.path.exists(out):
        os.remove(out)
    try:
        with contextlib.redirect_stdout(io.StringIO()), \
                contextlib.redirect_stderr(io.StringIO()):
            execute(list(args) + ["-o", out, "--prog", "0"])
    except PieceLengthValueError:
        return "piece-length error"
    with open(out, "rb") as fd:
        meta, _ = bdecode(fd.read())
    return meta[b"info"][b"piece length"]


def main() -> int:
    tmp = tempfile.mkdtemp(prefix="c12f2-")
    try:
        content = os.path.join(tmp, "a.bin")
        with open(content, "wb") as fd:
            fd.write(os.urandom(50000))
        out = os.path.join(tmp, "out.torrent")
        ini = os.path.join(tmp, "c.ini")
        violated = False

        # control 1: no config, CLI value is recorded
        got = run(["create", content, "--piece-length", "16"], out)
        print(f"control: --piece-length 16, no config           -> {got}")

        # control 2: config without the key, CLI value is recorded
        with open(ini, "w", encoding="utf-8") as fd:
            fd.write("[config]\ncomment = x\n")
        got = run(["create", content, "--piece-length", "16", "--config",
                   "--config-path", ini], out)
        print(f"control: --piece-length 16, config without key  -> {got}")

        # the case: blank piece-length in the config file
        for body in ("[config]\npiece-length =\n",
                     "[config]\npiece-length =    \n"):
            with open(ini, "w", encoding="utf-8") as fd:
                fd.write(body)
            for mver in ("1", "2", "3"):
                got = run(["create", content, "--piece-length", "16",
                           "--meta-version", mver, "--config",
                           "--config-path", ini], out)
                ok = got in (65536, "piece-length error")
                violated |= not ok
                print(f"--piece-length 16 --meta-version {mver} + config "
                      f"{body!r}: expected 65536 (or the piece-length "
                      f"error), got {got}")
    finally:
        shutil.rmtree(tmp)
    if violated:
        print("VIOLATION: the valid user-supplied piece length 16 (2^16) was "
              "accepted but the metafile records the automatically chosen "
              "16384 instead.")
        return 1
    print("ok")
    return 0


if __name__ == "__main__":
    sys.exit(main())
