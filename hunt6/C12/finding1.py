#!/usr/bin/env python
"""
C12 finding 1: an invalid piece length given as a very large *integer*
(more than 4300 decimal digits) is not rejected with the piece-length error.

Run:  PYTHONPATH=/tmp/hunt6-C12 /venv/bin/python finding1.py
exit 1 = property violated, exit 0 = behaves as the property says.

Expected (statement): every value that is not a power of two >= 16 KiB (or an
exponent 14..25) "is rejected with the piece-length error instead of producing
a metafile" - for every integer, "1 .. 2^40 and beyond", through the library.

Oracle: plain integer arithmetic (n & (n - 1)) decides that the value is not a
power of two; the exception type and the file system decide what happened.
"""
import contextlib
import io
import os
import shutil
import sys
import tempfile

from torrentfile import utils
from torrentfile.torrent import (TorrentAssembler, TorrentFile,
                                 TorrentFileHybrid, TorrentFileV2)


def is_valid(n: int) -> bool:
    """Independent oracle for the statement (ints only)."""
    if 14 <= n <= 25:
        return True
    return n >= 16384 and n & (n - 1) == 0


def attempt(func):
    """Return a short description of what func() did."""
    try:
        with contextlib.redirect_stdout(io.StringIO()):
            func()
    except utils.PieceLengthValueError:
        return "PieceLengthValueError"
    except BaseException as err:  # pylint: disable=broad-except
        return f"{type(err).__name__}: {str(err)[:60]}"
    return "accepted"


def main() -> int:
    limit = getattr(sys, "get_int_max_str_digits", lambda: 0)()
    if not limit:
        print("interpreter has no integer/string digit limit: not applicable")
        return 0
    # smallest integers with one digit more than the interpreter converts;
    # 10**k is divisible by 5, so it is certainly not a power of two.
    values = {
        f"10**{limit}": 10**limit,
        f"-(10**{limit})": -(10**limit),
        f"2**20000 + 1": 2**20000 + 1,
    }
    # control: one digit fewer is rejected properly
    control = 10**(limit - 1)
    violated = False
    tmp = tempfile.mkdtemp(prefix="c12f1-")
    try:
        content = os.path.join(tmp, "a.bin")
        with open(content, "wb") as fd:
            fd.write(b"x" * 100)
        out = os.path.join(tmp, "out.torrent")

        got = attempt(lambda: utils.normalize_piece_length(control))
        print(f"control  normalize_piece_length(10**{limit - 1}) "
              f"[{limit} digits] -> {got}")
        got = attempt(lambda: utils.normalize_piece_length("1" + "0" * limit))
        print(f"control  normalize_piece_length('1' + '0'*{limit}) "
              f"[text, {limit + 1} digits] -> {got}")

        for label, val in values.items():
            assert not is_valid(val)
            got = attempt(lambda v=val: utils.normalize_piece_length(v))
            print(f"normalize_piece_length({label}): expected "
                  f"PieceLengthValueError, got {got}")
            violated |= got != "PieceLengthValueError"
            for cls, extra in (
                (TorrentFile, {}),
                (TorrentFileV2, {}),
                (TorrentFileHybrid, {}),
                (TorrentAssembler, {"meta_version": "3"}),
            ):
                got = attempt(lambda c=cls, e=extra, v=val: c(
                    path=content, piece_length=v, outfile=out, progress=0, **e
                ).write())
                print(f"{cls.__name__}(piece_length={label}): expected "
                      f"PieceLengthValueError, got {got}; "
                      f"metafile written: {os.path.exists(out)}")
                violated |= got != "PieceLengthValueError"
    finally:
        shutil.rmtree(tmp)
    if violated:
        print("VIOLATION: an invalid integer piece length is not rejected "
              "with the piece-length error (a bare ValueError escapes from "
              "PieceLengthValueError.__init__).")
        return 1
    print("ok: every invalid value raised PieceLengthValueError")
    return 0


if __name__ == "__main__":
    sys.exit(main())
