#!/usr/bin/env python
"""
C14 finding 1: rebuild writes *through* a symbolic or hard link that sits at a
file's path in the destination (utils.copypath -> shutil.copy opens the
existing entry with "wb" instead of replacing the directory entry).

Three variants, one root cause:
  V1  dangling symlink at dest/pay/a.bin -> a file is created OUTSIDE the
      destination, i.e. not at the path the metafile assigns.
  V2  dest/pay/a.bin is a hard link of a shorter (truncated) a.bin that lives
      in a search directory (the directory trees are disjoint) -> the file
      under the search directory is rewritten.
  V3  dest/pay/a.bin is a symlink to dest/pay/b.bin, which is complete and
      correct -> a destination file that has its full recorded length is
      overwritten with a.bin's bytes.

The metafile is produced by an independent bencoder below, hashes by hashlib,
the verdict by filesystem snapshots.  exit 1 = property violated.
"""
import contextlib
import hashlib
import io
import os
import shutil
import stat
import sys
import tempfile

from torrentfile import cli

PIECE = 32768


def benc(obj):
    if isinstance(obj, int):
        return b"i%de" % obj
    if isinstance(obj, str):
        obj = obj.encode()
    if isinstance(obj, bytes):
        return b"%d:%s" % (len(obj), obj)
    if isinstance(obj, list):
        return b"l" + b"".join(benc(i) for i in obj) + b"e"
    items = sorted((k.encode(), v) for k, v in obj.items())
    return b"d" + b"".join(benc(k) + benc(v) for k, v in items) + b"e"


def write(path, data):
    os.makedirs(os.path.dirname(path), exist_ok=True)
    with open(path, "wb") as fd:
        fd.write(data)


def make_meta(path, files):
    """v1 multi-file metafile, name 'pay', files = [(name, bytes)]."""
    blob = b"".join(data for _, data in files)
    pieces = b"".join(
        hashlib.sha1(blob[i:i + PIECE]).digest()
        for i in range(0, len(blob), PIECE))
    info = {
        "name": "pay",
        "piece length": PIECE,
        "pieces": pieces,
        "files": [{"length": len(d), "path": [n]} for n, d in files],
    }
    write(path, benc({"announce": "http://t/a", "info": info}))


def snap(root):
    out = {}
    for dirpath, dirs, files in os.walk(root):
        for name in dirs + files:
            full = os.path.join(dirpath, name)
            st = os.lstat(full)
            if stat.S_ISLNK(st.st_mode):
                out[full] = ("link", os.readlink(full))
            elif stat.S_ISDIR(st.st_mode):
                out[full] = ("dir", )
            else:
                with open(full, "rb") as fd:
                    out[full] = ("file", st.st_size,
                                 hashlib.sha256(fd.read()).hexdigest()[:16])
    return out


def changes(before, after):
    return [(k, before.get(k), after.get(k))
            for k in sorted(set(before) | set(after))
            if before.get(k) != after.get(k)]


def rebuild(meta, search, dest):
    with contextlib.redirect_stdout(io.StringIO()):
        return cli.execute(["rebuild", "-m", meta, "-c", search, "-d", dest])


def main():
    failures = []
    top = tempfile.mkdtemp(prefix="c14f1_")
    try:
        a_data = os.urandom(40000)
        b_data = os.urandom(100)

        # ---- V1: dangling symlink at the file's path ----------------------
        base = os.path.join(top, "v1")
        meta = os.path.join(base, "m.torrent")
        make_meta(meta, [("a.bin", a_data)])
        search = os.path.join(base, "search")
        write(os.path.join(search, "x", "a.bin"), a_data)
        dest = os.path.join(base, "dest")
        elsewhere = os.path.join(base, "elsewhere")
        os.makedirs(os.path.join(dest, "pay"))
        os.makedirs(elsewhere)
        os.symlink(os.path.join(elsewhere, "new.bin"),
                   os.path.join(dest, "pay", "a.bin"))
        before = snap(elsewhere)
        rebuild(meta, search, dest)
        diff = changes(before, snap(elsewhere))
        print("V1 dangling symlink at dest/pay/a.bin")
        print("   expected: nothing is written outside the destination")
        print("   observed:", diff or "nothing written outside")
        if diff:
            failures.append("V1")

        # ---- V2: hard link of a shorter file under a search directory -----
        base = os.path.join(top, "v2")
        meta = os.path.join(base, "m.torrent")
        make_meta(meta, [("a.bin", a_data)])
        search = os.path.join(base, "search")
        write(os.path.join(search, "full", "a.bin"), a_data)
        write(os.path.join(search, "partial", "a.bin"), a_data[:8])
        dest = os.path.join(base, "dest")
        os.makedirs(os.path.join(dest, "pay"))
        os.link(os.path.join(search, "partial", "a.bin"),
                os.path.join(dest, "pay", "a.bin"))
        before = snap(search)
        rebuild(meta, search, dest)
        diff = changes(before, snap(search))
        print("V2 dest/pay/a.bin is a hard link of the 8-byte "
              "search/partial/a.bin")
        print("   expected: nothing under the search directory changes")
        print("   observed:", diff or "search directory unchanged")
        if diff:
            failures.append("V2")

        # ---- V3: symlink to a complete, correct destination file ----------
        base = os.path.join(top, "v3")
        meta = os.path.join(base, "m.torrent")
        make_meta(meta, [("a.bin", a_data), ("b.bin", b_data)])
        search = os.path.join(base, "search")
        write(os.path.join(search, "x", "a.bin"), a_data)
        write(os.path.join(search, "x", "b.bin"), b_data)
        dest = os.path.join(base, "dest")
        write(os.path.join(dest, "pay", "b.bin"), b_data)
        os.symlink("b.bin", os.path.join(dest, "pay", "a.bin"))
        rebuild(meta, search, dest)
        with open(os.path.join(dest, "pay", "b.bin"), "rb") as fd:
            now = fd.read()
        print("V3 dest/pay/b.bin complete and correct (100 bytes), "
              "dest/pay/a.bin -> symlink to b.bin")
        print("   expected: b.bin keeps its 100 recorded bytes")
        print("   observed: b.bin has %d bytes, sha1 %s (recorded sha1 %s)" %
              (len(now), hashlib.sha1(now).hexdigest()[:12],
               hashlib.sha1(b_data).hexdigest()[:12]))
        if now != b_data:
            failures.append("V3")
    finally:
        shutil.rmtree(top, ignore_errors=True)
    if failures:
        print("PROPERTY VIOLATED in", ", ".join(failures))
        return 1
    print("property holds")
    return 0


if __name__ == "__main__":
    sys.exit(main())
