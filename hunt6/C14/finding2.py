#!/usr/bin/env python
"""
C14 finding 2: with two metafiles in one rebuild run that assign the same
path (same torrent name, same file name) but record different lengths, a
destination file that is complete and correct for the first metafile (it has
its full recorded length, every piece verifies) is overwritten with the
longer file of the second metafile.

The metafiles come from an independent bencoder, hashes from hashlib, the
verdict from reading the destination file back.  exit 1 = property violated.
"""
import contextlib
import hashlib
import io
import os
import shutil
import sys
import tempfile

from torrentfile import cli

PIECE = 32768


def benc(obj):
    if isinstance(obj, int):
        return b"i%de" % obj
    if isinstance(obj, str):
        obj = obj.encode()
    if isinstance(obj, bytes):
        return b"%d:%s" % (len(obj), obj)
    if isinstance(obj, list):
        return b"l" + b"".join(benc(i) for i in obj) + b"e"
    items = sorted((k.encode(), v) for k, v in obj.items())
    return b"d" + b"".join(benc(k) + benc(v) for k, v in items) + b"e"


def write(path, data):
    os.makedirs(os.path.dirname(path), exist_ok=True)
    with open(path, "wb") as fd:
        fd.write(data)


def make_meta(path, data):
    pieces = b"".join(
        hashlib.sha1(data[i:i + PIECE]).digest()
        for i in range(0, len(data), PIECE))
    info = {
        "name": "pay",
        "piece length": PIECE,
        "pieces": pieces,
        "files": [{"length": len(data), "path": ["a.bin"]}],
    }
    write(path, benc({"announce": "http://t/a", "info": info}))


def main():
    top = tempfile.mkdtemp(prefix="c14f2_")
    try:
        first = os.urandom(40000)   # pay/a.bin of release 1
        second = os.urandom(50000)  # pay/a.bin of release 2 (repack)
        meta1 = os.path.join(top, "metas", "one.torrent")
        meta2 = os.path.join(top, "metas", "two.torrent")
        make_meta(meta1, first)
        make_meta(meta2, second)
        search = os.path.join(top, "search")
        write(os.path.join(search, "r1", "a.bin"), first)
        write(os.path.join(search, "r2", "a.bin"), second)
        dest = os.path.join(top, "dest")
        target = os.path.join(dest, "pay", "a.bin")
        write(target, first)  # complete and correct for one.torrent
        with contextlib.redirect_stdout(io.StringIO()):
            cli.execute(["rebuild", "-m", meta1, meta2, "-c", search, "-d",
                         dest])
        with open(target, "rb") as fd:
            now = fd.read()
    finally:
        shutil.rmtree(top, ignore_errors=True)
    print("dest/pay/a.bin before: 40000 bytes = full length recorded by "
          "one.torrent, sha1", hashlib.sha1(first).hexdigest()[:12])
    print("expected: the file is left alone (it already has its full "
          "recorded length)")
    print("observed: %d bytes, sha1 %s" %
          (len(now), hashlib.sha1(now).hexdigest()[:12]))
    if now != first:
        print("PROPERTY VIOLATED: a complete destination file was "
              "overwritten (with two.torrent's a.bin: %s)" % (now == second))
        return 1
    print("property holds")
    return 0


if __name__ == "__main__":
    sys.exit(main())
