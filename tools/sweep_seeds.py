#!/venv/bin/python
"""tools/sweep_seeds.py [name ...]: run the property's own quick check against every confirmed seeded change at several
VERIF_SEED values (patch applied to a scratch copy via tools/try_patch.sh) and record the outcome in seeded/<name>/meta.json."""
import glob
import json
import os
import subprocess
import sys
from concurrent.futures import ThreadPoolExecutor

HERE = os.path.dirname(os.path.dirname(os.path.abspath(__file__)))
SEEDS = [int(x) for x in os.environ.get("VERIF_SWEEP_SEEDS", "1,2,3,5").split(",")]


def one(name):
    d = os.path.join(HERE, "seeded", name)
    meta = json.load(open(os.path.join(d, "meta.json")))
    pid = meta["property"]
    res = {}
    for s in SEEDS:
        env = dict(os.environ, VERIF_SEED=str(s))
        p = subprocess.run([os.path.join(HERE, "tools", "try_patch.sh"), os.path.join(d, "patch.diff"), pid], capture_output=True, text=True, errors="replace", env=env)
        line = [l for l in p.stdout.splitlines() if l.startswith(pid + ":")]
        if "PATCH-DOES-NOT-APPLY" in p.stdout:
            res[str(s)] = "n/a"
            meta["obsolete"] = "the patch no longer applies: the code it changes was rewritten by a later fix: commit in /repo"
            break
        res[str(s)] = "caught" if line and "CAUGHT" in line[0] else ("harness-error" if line and "HARNESS" in line[0] else "missed")
        if s == 1 and line:
            meta["checks"].setdefault(pid, {})["verdict"] = res["1"] if res["1"] != "missed" else "quiet"
            meta["checks"][pid]["buckets"] = [line[0][:400]]
    if meta.get("at_head") and not meta["at_head"].get("still_violates", True):
        meta["seed_sweep_note"] = "at the current HEAD this change no longer violates the property (neutralised by a later fix: commit); verdicts below are informational"
    if any(v == "missed" for v in res.values()) and pid != "C09" and meta.get("at_head", {}).get("still_violates", True):
        # a violation that lives in process history may be out of reach of a single-shot property check: ask the history check
        alt = {}
        for s in SEEDS:
            env = dict(os.environ, VERIF_SEED=str(s))
            p = subprocess.run([os.path.join(HERE, "tools", "try_patch.sh"), os.path.join(d, "patch.diff"), "C09"], capture_output=True, text=True, errors="replace", env=env)
            alt[str(s)] = "caught" if "C09: CAUGHT" in p.stdout else "missed"
        meta["seed_sweep_C09"] = " ".join("%s:%s" % (k, v) for k, v in alt.items())
    meta["seed_sweep"] = " ".join("%s:%s" % (k, v) for k, v in res.items())
    meta["seed_sweep_repo_head"] = subprocess.run(["git", "-C", "/repo", "log", "--format=%h", "-1"], capture_output=True, text=True).stdout.strip()
    json.dump(meta, open(os.path.join(d, "meta.json"), "w"), indent=1)
    return name, meta["seed_sweep"]


def main():
    names = sys.argv[1:] or sorted(os.path.basename(os.path.dirname(p)) for p in glob.glob(os.path.join(HERE, "seeded", "*", "meta.json")))
    with ThreadPoolExecutor(4) as ex:
        for name, sweep in ex.map(one, names):
            print(name, sweep)
            sys.stdout.flush()


if __name__ == "__main__":
    main()
