#!/venv/bin/python
"""tools/eval_seed.py <ID> <deliverable-dir> [--extra C10,C06]

Confirm a seeded change delivered by an independent sub-agent and measure whether the checks catch it.
For every patch*.diff in <deliverable-dir>: in a scratch copy of /repo HEAD (outside /repo and /verif)
  1. demo on the clean copy must exit 0,   2. the patch must apply,   3. demo on the patched copy must exit != 0,
  4. the repository suite must still pass on the patched copy,
  5. the quick tier of the property's check (and related checks) is run against the patched copy.
Confirmed changes are stored as /verif/seeded/<ID>-<n>/{patch.diff,demo.py,notes.md,meta.json}.
"""
import glob
import json
import os
import re
import shutil
import subprocess
import sys
import tempfile

HERE = os.path.dirname(os.path.dirname(os.path.abspath(__file__)))
RELATED = {"C01": ["C08"], "C02": ["C10"], "C03": ["C10"], "C04": ["C16", "C05"], "C05": ["C16", "C04"], "C06": ["C07"], "C07": ["C06"],
           "C08": ["C01"], "C09": [], "C10": ["C02", "C03"], "C11": [], "C12": [], "C13": ["C14"], "C14": ["C13"], "C15": [],
           "C16": ["C04", "C05"], "C17": ["C07"], "C18": [], "C19": ["C13"], "C20": []}


def sh(cmd, cwd=None, env=None, timeout=1800):
    p = subprocess.run(cmd, shell=isinstance(cmd, str), cwd=cwd, env=env, capture_output=True, text=True, timeout=timeout)
    return p.returncode, (p.stdout + p.stderr)


def main():
    pid = sys.argv[1].upper()
    ddir = sys.argv[2]
    extra = []
    if "--extra" in sys.argv:
        extra = sys.argv[sys.argv.index("--extra") + 1].split(",")
    prop_text = ""
    for line in open(os.path.join(HERE, "properties.jsonl")):
        d = json.loads(line)
        if d["id"] == pid:
            prop_text = d["title"]
    patches = sorted(glob.glob(os.path.join(ddir, "patch*.diff")))
    for patch in patches:
        n = re.sub(r"\D", "", os.path.basename(patch)) or "1"
        demo = os.path.join(ddir, "demo%s.py" % ("" if n == "1" else n))
        if "--offset" in sys.argv:
            n = str(int(n) + int(sys.argv[sys.argv.index("--offset") + 1]))
        scratch = tempfile.mkdtemp(prefix="vfseed.", dir="/tmp")
        try:
            clean = os.path.join(scratch, "clean")
            mut = os.path.join(scratch, "mut")
            for d in (clean, mut):
                os.makedirs(d)
                sh("git -C /repo archive HEAD | tar -x -C %s" % d)
            env = dict(os.environ, PYTHONPATH=clean, PYTHONDONTWRITEBYTECODE="1")
            rc_clean, out_clean = sh(["/venv/bin/python", demo], cwd=scratch, env=env)
            rc_apply, out_apply = sh(["git", "apply", patch], cwd=mut)
            if rc_apply:
                sh("git init -q . && git apply %s" % patch, cwd=mut)
                rc_apply, out_apply = sh("patch -p1 < %s" % patch, cwd=mut)
            env["PYTHONPATH"] = mut
            rc_mut, out_mut = sh(["/venv/bin/python", demo], cwd=scratch, env=env)
            rc_suite, out_suite = sh("/venv/bin/python -m pytest -q -p no:cacheprovider --timeout=900 -x 2>&1 | tail -3", cwd=mut, env=env)
            m = re.search(r"(\d+) passed", out_suite)
            passed = int(m.group(1)) if m else 0
            failed = "failed" in out_suite or "error" in out_suite.lower()
            confirmed = rc_clean == 0 and rc_apply == 0 and rc_mut != 0 and passed >= 1719 and not failed
            results = {}
            for cid in [pid] + RELATED.get(pid, []) + extra:
                env2 = dict(os.environ, VERIF_REPO=mut)
                rc, out = sh([os.path.join(HERE, "check"), cid, "--tier", "quick", "--no-evidence"], cwd=HERE, env=env2)
                buckets = [l.strip() for l in out.splitlines() if l.strip().startswith("bucket")]
                results[cid] = {"exit": rc, "verdict": "caught" if rc == 1 else ("quiet" if rc == 0 else "harness-error"),
                                "buckets": buckets[:4], "summary": [l for l in out.splitlines() if l.startswith("checked")][:1]}
            name = "%s-%s" % (pid, n)
            dest = os.path.join(HERE, "seeded", name)
            meta = {
                "property": pid, "property_title": prop_text, "origin": "independent sub-agent given only the property text and a scratch worktree",
                "confirmed": confirmed,
                "confirmation": {"demo_on_clean_exit": rc_clean, "patch_applies": rc_apply == 0, "demo_on_patched_exit": rc_mut,
                                 "suite_on_patched": out_suite.strip().splitlines()[-1:] , "demo_patched_output_tail": out_mut.strip().splitlines()[-3:]},
                "commands": ["git -C /repo archive HEAD | tar -x -C <scratch>/clean and <scratch>/mut; git apply patch.diff in mut",
                             "PYTHONPATH=<scratch>/clean /venv/bin/python demo.py ; PYTHONPATH=<scratch>/mut /venv/bin/python demo.py",
                             "cd <scratch>/mut && /venv/bin/python -m pytest -q -p no:cacheprovider --timeout=900 -x",
                             "VERIF_REPO=<scratch>/mut ./check <ID> --tier quick --no-evidence"],
                "repo_head": sh("git -C /repo log --format=%h -1")[1].strip(),
                "checks": results,
            }
            print(name, "confirmed" if confirmed else "NOT-CONFIRMED", {k: v["verdict"] for k, v in results.items()})
            if not confirmed:
                print("   clean rc", rc_clean, "apply", rc_apply, "mut rc", rc_mut, "suite", out_suite.strip()[-200:])
            os.makedirs(dest, exist_ok=True)
            shutil.copyfile(patch, os.path.join(dest, "patch.diff"))
            shutil.copyfile(demo, os.path.join(dest, "demo.py"))
            notes = os.path.join(ddir, "notes.md")
            if os.path.exists(notes):
                shutil.copyfile(notes, os.path.join(dest, "notes.md"))
            with open(os.path.join(dest, "meta.json"), "w") as fd:
                json.dump(meta, fd, indent=1)
        finally:
            shutil.rmtree(scratch, ignore_errors=True)


if __name__ == "__main__":
    main()
