#!/venv/bin/python
"""tools/eval_benign.py <ID> <deliverable-dir>

False-alarm probe: behaviour-changing but property-preserving patches written by independent sub-agents.
For every benign*.diff in <deliverable-dir>: scratch copy of /repo HEAD, apply, run the agent's holds.py (must exit 0),
run the repository suite (must pass), then run the quick tier of the property's own check and of related checks.
Every check must stay quiet.  Records go to /verif/benign/<ID>-<n>/{patch.diff,notes.md,holds.py,meta.json}.
"""
import glob
import json
import os
import re
import shutil
import subprocess
import sys
import tempfile

HERE = os.path.dirname(os.path.dirname(os.path.abspath(__file__)))
sys.path.insert(0, os.path.join(HERE, "tools"))
from eval_seed import RELATED, sh  # noqa: E402

GENERIC = ["C06", "C08"]


def main():
    pid = sys.argv[1].upper()
    ddir = sys.argv[2]
    for patch in sorted(glob.glob(os.path.join(ddir, "benign*.diff"))):
        n = re.sub(r"\D", "", os.path.basename(patch)) or "1"
        holds = os.path.join(ddir, "holds.py")
        scratch = tempfile.mkdtemp(prefix="vfben.", dir="/tmp")
        try:
            mut = os.path.join(scratch, "mut")
            os.makedirs(mut)
            sh("git -C /repo archive HEAD | tar -x -C %s" % mut)
            rc_apply, _ = sh(["git", "apply", patch], cwd=mut)
            env = dict(os.environ, PYTHONPATH=mut, PYTHONDONTWRITEBYTECODE="1")
            rc_holds, out_holds = (sh(["/venv/bin/python", holds], cwd=scratch, env=env) if os.path.exists(holds) else (None, ""))
            _, out_suite = sh("/venv/bin/python -m pytest -q -p no:cacheprovider --timeout=900 -x 2>&1 | tail -3", cwd=mut, env=env)
            m = re.search(r"(\d+) passed", out_suite)
            passed = int(m.group(1)) if m else 0
            results = {}
            checks = []
            for c in [pid] + RELATED.get(pid, []) + GENERIC:
                if c not in checks:
                    checks.append(c)
            for cid in checks:
                rc, out = sh([os.path.join(HERE, "check"), cid, "--tier", "quick", "--no-evidence"], cwd=HERE, env=dict(os.environ, VERIF_REPO=mut))
                results[cid] = {"exit": rc, "verdict": "quiet" if rc == 0 else ("ALARM" if rc == 1 else "harness-error"),
                                "buckets": [l.strip() for l in out.splitlines() if l.strip().startswith("bucket")][:4]}
            name = "%s-%s" % (pid, n)
            usable = rc_apply == 0 and passed >= 1719 and rc_holds in (0, None)
            meta = {"property": pid, "origin": "independent sub-agent asked for behaviour-changing, property-preserving changes",
                    "usable": usable, "patch_applies": rc_apply == 0, "holds_exit": rc_holds, "suite": out_suite.strip().splitlines()[-1:],
                    "repo_head": sh("git -C /repo log --format=%h -1")[1].strip(), "checks": results}
            dest = os.path.join(HERE, "benign", name)
            os.makedirs(dest, exist_ok=True)
            shutil.copyfile(patch, os.path.join(dest, "patch.diff"))
            for extra in ("notes.md", "holds.py"):
                if os.path.exists(os.path.join(ddir, extra)):
                    shutil.copyfile(os.path.join(ddir, extra), os.path.join(dest, extra))
            json.dump(meta, open(os.path.join(dest, "meta.json"), "w"), indent=1)
            print(name, "usable" if usable else "NOT-USABLE(apply=%s holds=%s suite=%d)" % (rc_apply, rc_holds, passed),
                  {k: v["verdict"] for k, v in results.items()})
            for k, v in results.items():
                if v["verdict"] != "quiet":
                    print("    ", k, v["buckets"][:2])
            sys.stdout.flush()
        finally:
            shutil.rmtree(scratch, ignore_errors=True)


if __name__ == "__main__":
    main()
