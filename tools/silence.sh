#!/bin/sh
# tools/silence.sh [seed ...]: run every quick check on the unchanged tree at the given VERIF_SEED values
# (fresh processes, PYTHONHASHSEED=0) and report anything that is not a silent exit 0.
cd "$(dirname "$0")/.."
seeds="${*:-1 2 3 4 5}"
bad=0
for s in $seeds; do
  for i in 01 02 03 04 05 06 07 08 09 10 11 12 13 14 15 16 17 18 19 20; do
    out=$(VERIF_SEED=$s PYTHONHASHSEED=0 ./check C$i --tier quick --no-evidence 2>&1); rc=$?
    if [ $rc -ne 0 ] || echo "$out" | grep -q "VIOLATION\|HARNESS"; then
      bad=$((bad+1)); echo "seed=$s C$i rc=$rc"; echo "$out" | tail -4
    else
      echo "seed=$s C$i ok $(echo "$out" | grep checked | sed 's/.*evaluations/evaluations/' | cut -c1-90)"
    fi
  done
done
echo "not silent: $bad"
