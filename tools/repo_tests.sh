#!/bin/sh
# Run the repository's pinned suite (BASELINE command) and print the summary line.
cd /repo && /venv/bin/python -m pytest -q -p no:cacheprovider --timeout=900 --continue-on-collection-errors 2>&1 | grep -E "passed|failed|error" | tail -5
