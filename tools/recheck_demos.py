#!/venv/bin/python
"""Re-run every seeded change's demo against the CURRENT /repo HEAD (clean and patched scratch copies) and record in
meta.json whether the change still applies and still violates the property (later fix: commits may have rewritten the code)."""
import glob
import json
import os
import shutil
import subprocess
import tempfile

HERE = os.path.dirname(os.path.dirname(os.path.abspath(__file__)))
import sys  # noqa: E402
ONLY = set(sys.argv[1:])
for mp in sorted(glob.glob(os.path.join(HERE, "seeded", "*", "meta.json"))):
    d = os.path.dirname(mp)
    if ONLY and os.path.basename(d) not in ONLY:
        continue
    meta = json.load(open(mp))
    scratch = tempfile.mkdtemp(prefix="vfdemo.", dir="/tmp")
    try:
        for sub in ("clean", "mut"):
            os.makedirs(os.path.join(scratch, sub))
            subprocess.run("git -C /repo archive HEAD | tar -x -C %s" % os.path.join(scratch, sub), shell=True, check=True)
        ap = subprocess.run(["git", "apply", os.path.join(d, "patch.diff")], cwd=os.path.join(scratch, "mut"), capture_output=True)
        fuzz = bool(ap.returncode)
        if ap.returncode:   # context shifted by later fix: commits: patch(1) with fuzz
            ap = subprocess.run("patch -p1 -s -F3 --no-backup-if-mismatch < %s" % os.path.join(d, "patch.diff"), shell=True,
                                cwd=os.path.join(scratch, "mut"), capture_output=True)
        if ap.returncode == 0 and subprocess.run("/venv/bin/python -m py_compile torrentfile/*.py", shell=True, cwd=os.path.join(scratch, "mut"),
                                                 capture_output=True).returncode:
            ap = subprocess.CompletedProcess([], 1)      # a fuzzily placed hunk that does not even compile: does not apply
        env = dict(os.environ, PYTHONDONTWRITEBYTECODE="1")
        rc = {}
        for sub in ("clean", "mut"):
            env["PYTHONPATH"] = os.path.join(scratch, sub)
            rc[sub] = subprocess.run(["/venv/bin/python", os.path.join(d, "demo.py")], cwd=scratch, env=env, capture_output=True, timeout=900).returncode
        head = subprocess.run(["git", "-C", "/repo", "log", "--format=%h", "-1"], capture_output=True, text=True).stdout.strip()
        meta["at_head"] = {"head": head, "patch_applies": ap.returncode == 0, "applied_with_fuzz": fuzz and ap.returncode == 0, "demo_clean_exit": rc["clean"],
                           "demo_patched_exit": rc["mut"] if ap.returncode == 0 else None,
                           "still_violates": ap.returncode == 0 and rc["clean"] == 0 and rc["mut"] != 0}
        json.dump(meta, open(mp, "w"), indent=1)
        print(os.path.basename(d), meta["at_head"])
    finally:
        shutil.rmtree(scratch, ignore_errors=True)
