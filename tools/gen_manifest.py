#!/venv/bin/python
"""Regenerate MANIFEST.json from the property modules (single source of truth)."""
import importlib
import json
import os
import sys

HERE = os.path.dirname(os.path.dirname(os.path.abspath(__file__)))
sys.path.insert(0, HERE)
IDS = ["C%02d" % i for i in range(1, 21)]

NOT_YET = {}


def main():
    checks = []
    na = []
    for pid in IDS:
        path = os.path.join(HERE, "vf", "props", pid.lower() + ".py")
        if not os.path.exists(path):
            na.append({"property_id": pid, "reason": NOT_YET.get(pid, "check not built yet in this session (planned in DESIGN.md section 4); nothing is claimed for it")})
            continue
        m = importlib.import_module("vf.props." + pid.lower())
        if getattr(m, "UNCLAIMED", None):
            na.append({"property_id": pid, "reason": m.UNCLAIMED})
            continue
        checks.append({
            "property_id": pid,
            "quick_cmd": "./check %s --tier quick" % pid,
            "thorough_cmd": "./check %s --tier thorough" % pid,
            "evidence_file": "evidence/%s.json" % pid,
            "replay_cmd_template": "./check %s --replay {path}" % pid,
            "engine": "vf",
            "level_claimed": {"category": m.LEVEL, "text": m.LEVEL_TEXT if hasattr(m, "LEVEL_TEXT") else m.RULE,
                              "design_ref": "DESIGN.md section 4, %s" % pid},
            "level_note": "; ".join(m.ASSUMPTIONS),
            "technique": m.TECHNIQUE,
        })
    doc = {
        "version": 1,
        "setup_cmd": "./setup.sh",
        "hooks": {
            "guard": "TORRENTFILE_VERIF",
            "enable": "no source hooks exist: enumeration order, clock, faults and state resets are imposed from the harness process by patching os/builtins/module attributes around each call; checks import torrentfile straight from /repo's working tree (sys.path[0]=/repo)",
            "baseline_off_cmd": "cd /repo && /venv/bin/python -m pytest -ra -q -p no:cacheprovider --timeout=900 --continue-on-collection-errors",
            "source_commits": [],
            "add_only": True,
        },
        "engines": [{
            "name": "vf", "path": "vf/",
            "serves_properties": [c["property_id"] for c in checks],
            "kind_free_text": "Hypothesis 6.168 property-based search (seeded by VERIF_SEED, database=None, collect-bucket-shrink) plus exhaustive boundary grids, against independent reference implementations in vf/ref (bencode, BEP 3, BEP 52, recheck)",
        }],
        "checks": checks,
        "not_applicable": na,
        "notes": "Every check: exit 0 = held on everything explored, exit 1 + 'VIOLATION property=<id> replay=<path>' per unlisted root-cause bucket, exit 2 = harness error (never reported as a violation). KNOWN_FINDINGS.txt lists open/fixed findings. VERIF_REPO overrides the tree under test (default /repo); VERIF_SCALE scales case budgets.",
    }
    with open(os.path.join(HERE, "MANIFEST.json"), "w") as fd:
        json.dump(doc, fd, indent=1)
        fd.write("\n")
    print("claimed:", [c["property_id"] for c in checks])
    print("unclaimed:", [n["property_id"] for n in na])


if __name__ == "__main__":
    main()
