#!/venv/bin/python
"""tools/restore_prev_sweep.py: for seeded changes whose patch no longer applies to /repo HEAD (the code they touch was
rewritten by later fix: commits), keep the verdicts recorded when they last applied: copy `seed_sweep` (and the head it was
taken at) from the last committed version of meta.json into `seed_sweep_when_applicable`."""
import glob
import json
import os
import subprocess

HERE = os.path.dirname(os.path.dirname(os.path.abspath(__file__)))
n = 0
for p in sorted(glob.glob(os.path.join(HERE, "seeded", "*", "meta.json"))):
    m = json.load(open(p))
    if "n/a" not in m.get("seed_sweep", ""):
        continue
    rel = os.path.relpath(p, HERE)
    log = subprocess.run(["git", "-C", HERE, "log", "--format=%h", "--", rel], capture_output=True, text=True).stdout.split()
    for h in log:
        old = json.loads(subprocess.run(["git", "-C", HERE, "show", "%s:%s" % (h, rel)], capture_output=True, text=True).stdout)
        if "caught" in old.get("seed_sweep", "") or "missed" in old.get("seed_sweep", ""):
            m["seed_sweep_when_applicable"] = {"seed_sweep": old["seed_sweep"], "repo_head": (old.get("at_head") or {}).get("head") or old.get("repo_head"),
                                               "verif_commit": h}
            if old.get("seed_sweep_C09"):
                m["seed_sweep_when_applicable"]["seed_sweep_C09"] = old["seed_sweep_C09"]
            n += 1
            break
    json.dump(m, open(p, "w"), indent=1)
print("restored", n)
