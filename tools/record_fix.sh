#!/bin/bash
# tools/record_fix.sh <PROP> "<commit message (starts with fix:)>" "<what failed (+ replay names)>"
# Commits the working-tree change of /repo as one fix: commit, appends the fixed: line to KNOWN_FINDINGS.txt and
# stores the reverse patch as a revert mutant.
set -e
PROP=$1; MSG=$2; WHAT=$3
cd /repo
PREV=$(git log --format=%h -1)
git add -A
git commit -q -m "$MSG"
H=$(git log --format=%h -1)
cd /verif
echo "fixed: property=$PROP $H $WHAT" >> KNOWN_FINDINGS.txt
git -C /repo diff $H $PREV > mutants/revert/revert_$H.diff
python3 - "$H" "$PROP" "$MSG" <<'PY'
import json, sys
h, prop, msg = sys.argv[1:4]
p = '/verif/mutants/revert/index.json'
d = json.load(open(p))
d.append({'patch': 'mutants/revert/revert_%s.diff' % h, 'expect': [prop], 'applies': True, 'what': msg.splitlines()[0]})
json.dump(d, open(p, 'w'), indent=1)
PY
echo "recorded $H for $PROP"
