#!/venv/bin/python
"""tools/sweep_at_base.py <name> ...: for seeded changes whose patch no longer applies to /repo HEAD.

The patch is applied to a scratch copy of the /repo commit it was written against (meta.json: repo_head).  Because that
older tree still contains defects repaired later, the check is run on the base *without* and *with* the patch at each
VERIF_SEED; the change counts as caught when the patched tree yields a violation bucket the base does not.  Recorded in
seeded/<name>/meta.json as `sweep_at_base`."""
import json
import os
import re
import shutil
import subprocess
import sys
import tempfile
from concurrent.futures import ThreadPoolExecutor

HERE = os.path.dirname(os.path.dirname(os.path.abspath(__file__)))
SEEDS = [1, 2, 3, 5]


def buckets(repo, pid, seed):
    env = dict(os.environ, VERIF_REPO=repo, VERIF_SEED=str(seed))
    p = subprocess.run([os.path.join(HERE, "check"), pid, "--tier", "quick", "--no-evidence"], cwd=HERE, env=env, capture_output=True, text=True, errors="replace")
    if "HARNESS-ERROR" in p.stdout:
        return None
    return set(re.findall(r"^\s*bucket (\S+?):? ", p.stdout, re.M)) | set(re.findall(r"^\s*bucket ([^ ]+)", p.stdout, re.M))


def one(name):
    d = os.path.join(HERE, "seeded", name)
    meta = json.load(open(os.path.join(d, "meta.json")))
    pid = meta["property"]
    base_commit = meta.get("repo_head")
    scratch = tempfile.mkdtemp(prefix="vfbase.", dir="/tmp")
    try:
        res = {}
        for sub in ("base", "mut"):
            os.makedirs(os.path.join(scratch, sub))
            subprocess.run("git -C /repo archive %s | tar -x -C %s" % (base_commit, os.path.join(scratch, sub)), shell=True, check=True)
        ap = subprocess.run(["git", "apply", os.path.join(d, "patch.diff")], cwd=os.path.join(scratch, "mut"), capture_output=True)
        if ap.returncode:
            meta["sweep_at_base"] = {"base": base_commit, "error": "patch does not apply to its recorded base"}
        else:
            for s in SEEDS:
                a = buckets(os.path.join(scratch, "base"), pid, s)
                b = buckets(os.path.join(scratch, "mut"), pid, s)
                if a is None or b is None:
                    res[str(s)] = "harness-error"
                else:
                    new = sorted(b - a)
                    res[str(s)] = "caught" if new else "missed"
                    if new and "new_buckets" not in res:
                        res["new_buckets"] = new[:3]
            meta["sweep_at_base"] = {"base": base_commit, "method": "violation buckets of base+patch minus those of the base itself (the base still has defects repaired later)",
                                     "verdicts": " ".join("%s:%s" % (s, res[str(s)]) for s in SEEDS), "new_buckets": res.get("new_buckets", [])}
        json.dump(meta, open(os.path.join(d, "meta.json"), "w"), indent=1)
        return name, meta["sweep_at_base"]
    finally:
        shutil.rmtree(scratch, ignore_errors=True)


if __name__ == "__main__":
    with ThreadPoolExecutor(3) as ex:
        for name, r in ex.map(one, sys.argv[1:]):
            print(name, r.get("verdicts") or r.get("error"), r.get("new_buckets"))
            sys.stdout.flush()
