#!/bin/sh
# tools/try_patch.sh <patch.diff> <ID> [<ID>...]
# Apply a patch to a scratch copy of /repo (outside /repo and /verif), run the quick tier of the given checks
# against it (VERIF_REPO), print the verdict lines, remove the copy.  /repo itself is never touched.
set -e
patch=$(readlink -f "$1"); shift
here=$(cd "$(dirname "$0")/.." && pwd)
scratch=$(mktemp -d /tmp/vfmut.XXXXXX)
trap 'rm -rf "$scratch"' EXIT
mkdir -p "$scratch/repo"
(cd /repo && git archive HEAD) | tar -x -C "$scratch/repo"
# carry over uncommitted edits of the working tree, if any
(cd /repo && git diff HEAD) | (cd "$scratch/repo" && git apply --allow-empty 2>/dev/null || true)
# later fix: commits shift the context of older patches: fall back to patch(1) with fuzz before giving up
(cd "$scratch/repo" && git apply "$patch" 2>/dev/null) || (cd "$scratch/repo" && patch -p1 -s -F3 --no-backup-if-mismatch < "$patch" >/dev/null 2>&1) || { echo "PATCH-DOES-NOT-APPLY $patch"; exit 3; }
# a hunk placed with fuzz may land in the wrong spot: the result must at least compile
(cd "$scratch/repo" && /venv/bin/python -m py_compile torrentfile/*.py 2>/dev/null) || { echo "PATCH-DOES-NOT-APPLY $patch (fuzzy application does not compile)"; exit 3; }
cd "$here"
rc=0
for id in "$@"; do
  out=$(VERIF_REPO="$scratch/repo" ./check "$id" --tier "${TIER:-quick}" --no-evidence 2>&1) || true
  if echo "$out" | grep -q "^VIOLATION"; then
    echo "$id: CAUGHT  $(echo "$out" | grep bucket | head -2 | tr '\n' ' ' | cut -c1-300)"
  elif echo "$out" | grep -q "HARNESS-ERROR"; then
    echo "$id: HARNESS-ERROR $(echo "$out" | tail -3 | tr '\n' ' ' | cut -c1-300)"; rc=2
  else
    echo "$id: missed  $(echo "$out" | grep checked | cut -c1-160)"; rc=1
  fi
done
exit $rc
