#!/venv/bin/python
"""Summarise seeded/*/meta.json into a markdown table (stdout)."""
import glob
import json
import os

HERE = os.path.dirname(os.path.dirname(os.path.abspath(__file__)))
rows = []
for f in sorted(glob.glob(os.path.join(HERE, "seeded", "*", "meta.json"))):
    m = json.load(open(f))
    name = os.path.basename(os.path.dirname(f))
    what = m.get("what", "") + " - needs: " + m.get("needs_to_manifest", "")
    checks = ", ".join("%s %s" % (k, v["verdict"]) for k, v in m["checks"].items())
    seeds = m.get("seed_sweep", "")
    if m.get("seed_sweep_C09"):
        seeds += " ; C09 " + m["seed_sweep_C09"]
    if m.get("at_head") and not m["at_head"].get("still_violates", True):
        seeds += " (no longer a violation at HEAD: " + ("patch does not apply" if not m["at_head"]["patch_applies"] else "neutralised by a later fix") + ")"
    if m.get("seed_sweep_when_applicable"):
        w = m["seed_sweep_when_applicable"]
        seeds += " ; when it last applied (repo %s): %s" % (w.get("repo_head"), w["seed_sweep"])
        if w.get("seed_sweep_C09"):
            seeds += " ; C09 " + w["seed_sweep_C09"]
    if m.get("seed_sweep_repo_head"):
        seeds += " (at repo %s)" % m["seed_sweep_repo_head"]
    if m.get("seed_sweep_earlier"):
        seeds += " ; earlier, at repo %s: %s" % (m["seed_sweep_earlier"].get("repo_head"), m["seed_sweep_earlier"]["seed_sweep"])
    if m.get("sweep_at_base"):
        b = m["sweep_at_base"]
        seeds += " ; on its own base %s (buckets new against the base): %s" % (b.get("base"), b.get("verdicts") or b.get("error"))
    rows.append("| %s | %s | %s | %s | %s |" % (name, "yes" if m["confirmed"] else "NO", what, checks, seeds))
print("| seeded change | confirmed | what it is / what it needs | quick tier verdicts (VERIF_SEED=1) | caught at seeds |")
print("|---|---|---|---|---|")
print("\n".join(rows))
