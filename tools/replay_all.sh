#!/bin/sh
# Replay every committed replay of the given properties; prints the ones that still fail.
cd "$(dirname "$0")/.."
for p in "$@"; do
  for f in replays/$p/*.json; do
    ./check $p --replay $f > /tmp/replay.out 2>&1 || echo "FAIL $f: $(grep bucket /tmp/replay.out | head -1)"
  done
done
